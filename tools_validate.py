#!/usr/bin/env python3
"""Validate MANIFEST.json and every evidence file against the schemas; check evidence consistency (proof level: obligations == discharged)."""
import json, sys, glob, os
import jsonschema
ROOT = os.path.dirname(os.path.abspath(__file__))
ok = True
m = json.load(open(os.path.join(ROOT, 'MANIFEST.json')))
jsonschema.validate(m, json.load(open('/root/.vp/MANIFEST.schema.json')))
print('MANIFEST ok: %d checks, %d not applicable' % (len(m['checks']), len(m.get('not_applicable', []))))
es = json.load(open('/root/.vp/EVIDENCE.schema.json'))
for c in m['checks']:
    p = c['evidence_file']
    if not os.path.exists(p):
        print('MISSING', p); ok = False; continue
    e = json.load(open(p))
    try:
        jsonschema.validate(e, es)
    except jsonschema.ValidationError as err:
        print('SCHEMA', p, str(err)[:300]); ok = False; continue
    cov = e.get('coverage', {})
    o, d = cov.get('obligations'), cov.get('discharged')
    flag = '' if o == d else '  <-- discharged != obligations'
    if o != d:
        ok = False
    print('%s obligations=%s discharged=%s tree=%s%s' % (c['property_id'], o, d, cov.get('repo_head', '?'), flag))
sys.exit(0 if ok else 1)
