#!/usr/bin/env python3
"""Regenerate MANIFEST.json from the table below (keeps it valid at all times)."""
import json, os
ROOT = os.path.dirname(os.path.abspath(__file__))

CHECKS = {
 'C17': dict(
    technique="contract-based deductive verification: sidecar contracts + own AST->z3 symbolic executor (pyvc) on the real source; lemmas by z3; bounded run-time contract checks as stand-in",
    text="Proved for all inputs (reals for floats): LinearCredit/GeometricCredit/ReciprocalCredit.__call__ return 1 on attempt 1, stay in [0,1], "
         "equal round4 of the statement's schedule (LinearCredit >= round4(minimum), >= minimum when it has <= 4 decimals), and are non-increasing "
         "(lemmas over the exact-value postconditions; x**n by an induction-proved power lemma). apply_attempt_based_credit: missing attempt => ConfigError with "
         "the result untouched; attempts < 1 reach the schedule as 1 (callee precondition); every positive grade is multiplied by round4(schedule), ok recomputed, "
         "zero grades and messages of entries untouched, the note changes msg/overall_message exactly when the flag is on and some grade was positive, frame: only the "
         "result, its entries and the debug log are written (loop invariant + frame obligations, all list lengths). Bounded (not proved): the same clauses evaluated by "
         "CPython on the statement's grid and end-to-end grader calls.",
    note="Assumed: A1 floats as reals; A2 round(x,4) axioms (bounded-checked); A15 the configured schedule returns a number in [0,1] for attempts >= 1; "
         "Decimal percentage text abstract; string formatting uninterpreted (A6). Products of symbolic reals abstracted to MUL with facts re-proved by z3 NRA each run. "
         "AbstractGrader.__call__'s invocation of apply_attempt_based_credit is covered under C01.",
    design="6/C17"),
 'C19': dict(
    technique="contract-based deductive verification (pyvc: AST->z3 on the real source, 96-way case split on argument types, proved lemma on the index set, sum extensionality lemma by induction); bounded run-time contract checks as stand-in",
    text="Proved for all limits (ints, integer-valued floats, +-inf), all cutoffs >= 1 and even_odd in {0,1,2}: SumGrader.perform_summation returns "
         "the sum of the summand over {FIRST + k*STEP : k < COUNT} and raises SummationError exactly for inf..inf / -inf..-inf; lemma SumGrader.index_set "
         "proves that this index set is the statement's {n : min <= n <= max, parity(n)} with infinite limits replaced by the cutoff (each index once, "
         "regardless of the order of the limits). Bounded (not proved): the same contract evaluated by CPython on [-12,12]^2 and end-to-end SumGrader behaviour "
         "(renaming, shifts, error classes, instructor variables, tolerance side).",
    note="Assumed: the summand evaluator is a deterministic function of the index returning a number (A9/A15; vector/matrix summands outside the value model); "
         "A1 floats as reals; complex numbers are outside the value model. evaluate_sum / gen_evaluations / input structuring (evaluator, closures mutating the scope, numpy) "
         "are out of the verifier's reach: decided by the bounded tier only. IntegralGrader not covered (scipy absent).",
    design="6/C19"),
 'C08': dict(
    technique="contract-based deductive verification (pyvc on the real ItemGrader.check: nested loop invariants with an induction-proved prefix-count lemma, abstract check_response as uninterpreted GRADE/MSG functions); bounded run-time checks as stand-in",
    text="Proved for all answer tuples (any number of alternatives, any expect-tuple lengths) and any check_response: ItemGrader.check raises ConfigError exactly when "
         "there is no alternative; otherwise it returns a fresh well-formed entry whose grade is >= the grade check_response gives for EVERY alternative x expect value "
         "(forall i, j: GRADE(A[i], A[i].expect[j]) <= result.grade, hence independent of listing order) and >= every collected result; a blank message with grade 0 is "
         "returned only if wrong_msg is blank; nothing reachable from the configuration is written (answer.copy(): frame obligation). "
         "Bounded (not proved): the result is one of check_response's results, longest message among ties, wrong_msg exactly when applicable, for real graders and subgraders.",
    note="Assumed (A15/A9): check_response is deterministic in (alternative, expect value) for a fixed grader and submission, returns a fresh well-formed entry or raises, "
         "and writes nothing the caller can reach. The two existential clauses (membership in results, longest message) were left undecided by z3 and are bounded-only.",
    design="6/C08"),
 'C07': dict(
    technique="contract-based deductive verification (pyvc on the real consolidation functions; sum lemmas proved by induction; products/divisions abstracted with re-proved facts); bounded run-time checks with a brute-force oracle as stand-in",
    text="Proved for all lists of item grades in [0,1] of any length and any number of expected items >= 1: consolidate_grades returns exactly "
         "max(0, (sum of item credit - number of surplus items) / expected items) with missing items counting 0, within [0,1], touching only its (fresh) argument list; "
         "consolidate_single_return applies the partial_credit switch (anything short of full item credit scores 0) and returns a fresh well-formed entry; "
         "SingleListGrader.process_grade_list multiplies by the answer's own credit, recomputes ok, computes all_awarded (own items, or the children's flags when nested) and "
         "appends the answer-level message only if all_awarded. Bounded (not proved): split/padding/optimal matching in check_response, permutation invariance, "
         "length_error/missing_error, nesting, against a brute-force oracle.",
    note="Assumed: A1 reals; item results are well-formed entries with grades in [0,1] (C01 contracts of the subgraders); str.join/format uninterpreted (A6). "
         "check_response itself (str.split, closures from padded_check, Munkres) is outside the proved part; Munkres optimality is C06.",
    design="6/C07"),
 'C01': dict(
    technique="contract-based deductive verification (pyvc on the real result-building functions, shape predicates taken from the statement); bounded run-time checks over all grader classes as stand-in",
    text="Proved for all inputs: grade_decimal_to_ok is the statement's 0/1/otherwise map; standardize_cfn_return returns a fresh well-formed entry for True/False/'partial'/dict; "
         "apply_attempt_based_credit preserves the result structure entry by entry and keeps ok consistent (C17 contract); ItemGrader.check returns a fresh well-formed entry; "
         "consolidate_grades / consolidate_single_return / process_grade_list keep grades in [0,1] with ok recomputed from the grade; MathMixin.consolidate_results returns either the pruned "
         "answer (exactly the keys ok/grade_decimal/msg) or a failing result whose ok is in line with its grade (this clause failed before the fix: commit d653574). "
         "Bounded (not proved): AbstractGrader.__call__ as a whole (key stripping, debug log only with debug=True, one entry per input) for every public grader class x configuration/input pools.",
    note="Assumed: A1; comparers and subgraders return well-formed results (A15; built-in ones are C16); string formatting uninterpreted (A6). AbstractGrader.__call__, ListGrader.perform_check/"
         "get_best_result (numpy), MatrixGrader/IntervalGrader.check_response are not under contract yet: bounded tier only.",
    design="6/C01"),
 'C04': dict(
    technique="contract-based deductive verification (pyvc on the real within_tolerance and consolidate_results; failure count as an uninterpreted prefix count with induction-proved monotonicity); bounded checks with a recording sampling set as stand-in",
    text="Proved for all real/infinite scalars: within_tolerance(x, y, t) is |x - y| <= t for a numeric tolerance, |x - y| <= |x| * p for a percentage (relative to the FIRST argument, "
         "the author's value), and an infinite value matches only the same infinity. Proved for any number of comparer results and any failable_evals: consolidate_results returns the answer's "
         "(pruned) credit exactly when the number of results that are not True does not exceed failable_evals and not (single result that fails), otherwise a failing result with less than "
         "full credit; it writes nothing but the ok of the result it returns. Bounded (not proved): FormulaGrader end to end with a recording sampler (same sample for author and student, "
         "argument order in EqualityComparer, multiplication by the answer's credit), arrays (Frobenius norm), rewrites.",
    note="Assumed: A1 reals; A8 np.linalg.norm is |.| on scalars; percentage_as_number is trusted (string parsing); 'algebraically identical rewritings earn full credit' is decidable here only "
         "through the bounded tier (it needs the parser and real identities in floats).",
    design="6/C04"),
 'C18': dict(
    technique="contract-based deductive verification (pyvc on the real StringGrader.check_response / construct_message with the cleaning and regex full-match as uninterpreted symbols); exhaustive bounded check of clean_input as stand-in",
    text="Proved for every configuration (all modes, all explain_* policies, any pattern) with CLEAN (the cleaning) and FULL (regex full match) abstract: a validation pattern that does not "
         "match the ENTIRE cleaned submission is refused exactly as explain_validation prescribes, in every mode; a non-matching expected answer is a ConfigError in exact mode; exact mode "
         "gives the answer's credit iff the two cleaned strings are identical, else a zero result; accept_any/accept_nonempty accept iff length >= min_length (>= 1 for accept_nonempty) and "
         "words >= min_words, refused per explain_minimums otherwise; construct_message implements err/msg/None. (The full-match clause did not hold before fix: commit cb0a131.) "
         "Bounded (not proved): clean_input against the statement's normalisation for all strings up to length 4/5 over a 9-character alphabet x 16 flag combinations; regex and mode grids.",
    note="Assumed: A7 re.fullmatch(p, s) is None iff s is not in L(p); A6 str.split() only through its length; clean_input is a TRUSTED contract in the proof (string solvers cannot decide its replace chains) "
         "and is decided only by the bounded enumeration. StringGrader.__call__ (empty expect in accept-any modes) is bounded-only.",
    design="6/C18"),
 'C12': dict(
    technique="contract-based deductive verification (pyvc on the real interval samplers, numpy's random source under an assumed contract); bounded draws over the option grids as stand-in for the numpy-heavy samplers",
    text="Proved for all configurations the schema admits: RealInterval/IntegerRange.__init__ leave start <= stop whatever the order given; RealInterval.gen_sample returns a number in "
         "[start, stop] and IntegerRange.gen_sample an int in [start, stop] (randint is called with high = stop + 1 > low: callee precondition). "
         "Bounded (not proved): endpoints attainable, complex rectangles/sectors, discrete sets, function lists, random functions (arity, output dimension, |f - center| <= amplitude -- "
         "this failed for input_dim > 1 before fix: commit f479062 -- fixed once drawn), array samplers (shape, realness, norm range, triangular), all 214 accepted SquareMatrices combinations "
         "(symmetry, tracelessness, determinant to numerical precision), identity multiples.",
    note="Assumed: A8/A12 np.random.random_sample() in [0,1), randint(low, high) in [low, high); A10 the NumberRange schema leaves numeric start/stop; A1 reals. Everything that is numpy linear "
         "algebra (apply_symmetry, normalize, make_det_one/zero, RandomFunction's closure) is outside the value model of the verifier: bounded tier only. Orthogonal/unitary samplers need scipy (absent).",
    design="6/C12"),
 'C06': dict(
    technique="contract-based deductive verification (pyvc on the real Munkres helper methods: nested-loop invariants over n x n list-of-lists matrices, frames); exhaustive/bounded oracle checks of compute() as stand-in for the steps not yet under contract",
    text="Proved for every n and every real n x n working matrix (stage 1 of DESIGN 6/C06): __find_star_in_row / __find_star_in_col / __find_prime_in_row return the FIRST index carrying the "
         "mark or -1 and write nothing; __clear_covers and __erase_primes reset exactly what they name (frame: only the cover lists / the rows of `marked`); __find_smallest returns a lower "
         "bound of every uncovered cell; __step6 performs the dual update exactly -- C'[i][j] = C[i][j] + m[row i covered] - m[column j uncovered] with m <= every uncovered cell -- leaves covers, "
         "marks and row objects untouched, and raises UnsolvableMatrix only when no cell would change. These are obligations I1/I2-preservation of the Hungarian invariant for step 6. "
         "NOT proved (bounded only): steps 1-5, the step machine, termination, completeness and optimality of compute(), pad_matrix, reuse of one solver; decided by exhaustive "
         "enumeration of all matrices <= 3x3 over {0,1,2} and 4x4 over {0,1} plus random matrices against a subset-DP oracle.",
    note="Assumed: A1 (equality-to-zero tests on floats are exact in the real model; 'up to rounding' is not decided); matrices contain no DISALLOWED sentinel (the graders never produce one). "
         "The Lean weak-duality lemma of DESIGN Appendix A is not linked yet because steps 4/5 are not under contract: optimality is a bounded claim only.",
    design="6/C06"),
 'C05': dict(
    technique="contract-based deductive verification (pyvc) for the submission-size rule and the helpers shared with C07/C06; exhaustive-search oracle through a table-driven subgrader as bounded stand-in for the numpy/closure-heavy assignment code",
    text="Proved for all configurations: ListGrader.validate_submission returns only when the number of submitted inputs equals the number the configuration expects (grouping length, "
         "else number of answers) and raises ConfigError otherwise -- so no call can return fewer or more results than inputs; get_padded_lists returns two NEW lists of the longer length that start with the "
         "original items and are padded with fresh automatic-failure objects (never an item of the other list), without writing its arguments (the cost matrix of the assignment is built from these); consolidate_grades (used for grouped cost) per C07; the Munkres "
         "helpers per C06. NOT proved (bounded only, with an exhaustive-search oracle): positional pairing and siblings in ordered mode, optimal one-to-one assignment for n <= 5 in every input "
         "order, best of 1-3 alternative answer lists, results reported at the position of the input they grade (grouped and nested cases), partial_credit=False zeroing.",
    note="find_optimal_order (nested comprehensions, closure, Munkres), get_ordered_input_list / ListGrader.check (comprehensions over effectful calls), groupify/ungroupify (nested comprehensions) "
         "and get_best_result (numpy) are outside the verifier's subset: decided by the bounded tier only. Subgrader results are arbitrary well-formed entries (A15).",
    design="6/C05"),
 'C02': dict(
    technique="contract-based deductive verification (pyvc) of format_messages + source scans of the exception family and handler shape (nullary facts); bounded hostile-input runs as stand-in for the evaluator/numpy/pyparsing paths",
    text="Proved: ensure_text_inputs (AbstractGrader and ItemGrader), for ANY value of student_input: a value is returned only for a text (single inputs allowed) or a list of texts (lists allowed) -- the text itself, "
         "or a validated copy of the list -- and every other input (numbers, None, dicts, tuples, lists with a non-text item, a list where a text is required and vice versa) is refused with ConfigError (ValueError only for the "
         "caller error allow_lists = allow_single = False); format_messages only rewrites message fields (strings) and keeps every other key, grade and ok of every entry (all list lengths). Decided exhaustively by scanning the real "
         "source on every run (facts without inputs; back end 'ast-scan'; an unmatched scan is undecided, never a violation): all library exception classes derive from MITxError (allow-list: the two "
         "internal control-flow exceptions), none overrides the constructor (so error.__class__(text) is well-formed), numpy floating-point errors are routed to Python exceptions at import, and "
         "in AbstractGrader.__call__ self.check(...) runs inside a single `except Exception` whose every path raises (debug: re-raise; MITxError: same class with <br/>; else StudentFacingError). "
         "NOT proved: the contract of AbstractGrader.__call__ is drafted (exsures: with debug off every escaping exception is an MITxError) but z3 times out on 6 of its 49 conditions, so it is "
         "excluded from the counts. Bounded: every grader x hostile strings x non-text objects; termination = 5 s limit per call.",
    note="Assumed: A10 only the two voluptuous applications inside ensure_text_inputs (Schema([str])(x) / Schema(str)(x): validated copy or MultipleInvalid carrying a path); termination for arbitrary input is not decidable by contracts on this code (A14). "
         "Which specific error a malformed formula provokes inside pyparsing/numpy is irrelevant to the property thanks to the handler and is not analysed.",
    design="6/C02"),
 'C13': dict(
    technique="contract-based deductive verification (pyvc) of the helpers around the sampling fixed point; bounded random dependency structures as stand-in for gen_symbols_samples itself",
    text="Proved for all inputs: is_subset(xs, d) is exactly 'every item of xs is a key of d' (the test that gates the evaluation of a dependent variable); construct_constants and "
         "construct_suffixes return FRESH dictionaries containing every default entry (and exactly the default + metric suffixes) and never write the dictionaries they are given "
         "(frame obligations; dict iteration as an arbitrary duplicate-free enumeration). NOT proved: gen_symbols_samples (dict comprehensions over effectful sampler calls and the "
         "while/for fixed point are outside the verifier's subset -- its loop invariants and variant are in DESIGN 6/C13), generate_variable_list (regex), gen_var_and_func_samples. "
         "Bounded: random DAGs of <= 8 variables in shuffled declaration orders with every sample re-evaluated formula by formula, cyclic/dangling variants (ConfigError within a time limit), "
         "numbered-variable instances, shadowed constants.",
    note="Assumed: A5 dict iteration order not modelled; A9 evaluator/parse deterministic. Termination of the fixed-point loop is checked only with a 5 s limit in the bounded tier.",
    design="6/C13"),
 'C16': dict(
    technique="contract-based deductive verification (pyvc) of the scalar comparers and of the tolerance test; bounded class-member / near-miss runs as stand-in for the numpy-based comparers",
    text="Proved for all real inputs: between_comparer accepts exactly the CLOSED interval [start, stop] (and never raises on a real input); congruence_comparer reduces expected and student value "
         "modulo the same modulus and hands them, expected first, to the tolerance test (lemma: x % m lies in [0, m) and is invariant under shifts by multiples of m, for a literal modulus); "
         "within_tolerance per C04; standardize_cfn_return turns every comparer return (True / False / 'partial' / dict) into a well-formed entry. NOT proved (numpy: vectorize, lstsq, norms): "
         "MatrixEntryComparer credit, eigenvector / span / phase comparers, LinearComparer -- bounded: members generated by the defining transformation, near misses, wrong shapes, credit grids, "
         "mismatch policy.",
    note="Assumed: A8 np.isreal is True on reals (complex numbers outside the value model); least-squares residual = distance to span and LinearComparer fit errors are numerical linear algebra (assumed, bounded-checked only).",
    design="6/C16"),
 'C09': dict(
    technique="contract-based deductive verification (pyvc) of the response path and two validators, with raw_check/post_eval_validation as abstract callees; bounded cheating-formula grid as stand-in for scope handling inside gen_evaluations and the parser",
    text="Proved for every grader configuration and input: MathMixin.check_math_response returns a verdict of True or 'partial' -- hence any positive credit -- only after post_eval_validation has run on "
         "this very input and its used functions without objecting (the seeded change that validated only full-credit answers is refuted and replayed); validate_required_functions_used returns True "
         "iff every required function is among the used ones, else InvalidInput; validate_forbidden_strings_not_used (list form) raises InvalidInput with the author's message iff some forbidden string, "
         "compared with spaces removed on both sides, occurs in some expression; construct_suffixes never writes the shared default suffix table (metric suffixes cannot leak between graders). "
         "NOT proved: get_permitted_functions / validate_only_permitted_functions_used (Python set algebra and sorted() outside the subset), gen_evaluations' deletion of instructor and sibling "
         "variables before the student evaluation, check_scope -- bounded: neutral-term cheating formulas for every restriction at full and partial credit.",
    note="Assumed: A9/C10 the reported function-usage sets are exact; raw_check's verdict/credit relation (consolidate_results contract); str.replace uninterpreted but applied identically on both sides (A6).",
    design="6/C09"),
 'C10': dict(
    technique="contract-based deductive verification (pyvc) of the parser's state handling (data-structure invariant over exceptional exits, aliasing of the scratch sets) with pyparsing as an abstract callee; bounded derivations and call sequences as stand-in for the grammar's parse actions",
    text="Proved for every input and every prior parser state satisfying the invariant: MathParser.reset_storage rebinds three FRESH empty sets and writes nothing but the parser object (the sets held by "
         "expressions already returned are not touched); MathParser.raw_parse leaves the scratch storage fresh and empty on EVERY exit, normal or exceptional (try/finally), and the returned expression "
         "holds, by reference, exactly the sets filled during this parse; MathParser.parse uses the formula with spaces (only spaces) removed as cache key, returns what the cache holds, leaves every other "
         "entry untouched, and on a failed parse raises with the cache unchanged (failures are not cached). Hence under A9 the outcome of parse(s) is a function of s alone, for every history. "
         "NOT proved: that the reported sets are exact (the grammar's parse actions under backtracking) -- bounded: 1500+ generated derivations with constructed name sets, and call sequences over a "
         "13-string alphabet including malformed strings against fresh parsers.",
    note="Assumed: A9 pyparsing's parseString is deterministic in (grammar, text) and only calls the registered parse actions; BracketValidator.validate is a trusted contract (namedtuple records outside the subset).",
    design="6/C10"),
 'C11': dict(
    technique="contract-based deductive verification (pyvc): state-machine contract with exceptional exits for ItemGrader.__call__, frame obligations on constructors and result builders, parser state (C10); package-wide write-site scan; bounded call histories against fresh graders as stand-in",
    text="Proved: ItemGrader.__call__ (all-or-nothing answer inference) -- on normal AND exceptional exit log_created is cleared; when expect is given and the grader has no configured answers (or is already "
         "inferring) the stored answers become the validated inference and inferring_answers is set, otherwise answers and flag are untouched; an exception leaves either the old answers or those of a "
         "successful inference, never a half-validated state (this failed before fix: commits fd075ca and 99ea7de). Frames: IntervalGrader.__init__ writes only the new grader, never the author's "
         "dictionary (failed before fix: 398c371); ItemGrader.check and consolidate_results write nothing reachable from the configuration; construct_constants / construct_suffixes copy; "
         "MathParser state per C10. Source scan (nullary fact, back end 'ast-scan'): every process-wide write site of the package lies in the documented switches, and enable_negative_powers restores its "
         "flag in a finally block with MatrixGrader.check_response as only user. Bounded (not proved): call sequences of length <= 3/4 per item-grader class x answers configured or not x debug against fresh "
         "graders; deep snapshots of configuration objects, evaluator scopes and process-wide settings; shared subgraders.",
    note="Assumed (call-site contracts, A10/A15): infer_from_expect / schema_answers / post_schema_ans_val are deterministic, may raise, and do not write grader state; AbstractGrader.__call__ never touches "
         "config['answers'] and clears log_created once the input has passed ensure_text_inputs (its own contract is drafted, not discharged). coerce2unicode's recursive copy is bounded-only.",
    design="6/C11"),
 'C15': dict(
    technique="contract-based deductive verification (pyvc) of the derived function definitions against their textbook definitions over uninterpreted elementary functions; ast-scan obligations for the name tables; bounded sweep against a cmath oracle as stand-in for numpy itself",
    text="Proved for all real arguments: sec, csc, cot, sech, csch, coth are the reciprocals of cos, sin, tan, cosh, sinh, tanh (a zero denominator yields an error, never a value); "
         "arcsec, arccsc, arcsech, arccsch, arccoth are arccos, arcsin, arccosh, arcsinh, arctanh of 1/x (x = 0: error); arccot is the odd branch pi/2 - arctan x (x >= 0), -pi/2 - arctan x (x < 0); "
         "arctan2(x, y) is numpy's arctan2(y, x) -- the documented (x, y) order -- and raises FunctionEvalError exactly at (0, 0); kronecker is the 0/1 indicator of x == y; cross is the "
         "component formula of the vector product (polynomial identity by z3). Decided by source scan (ast-scan back end): every name of the default tables is bound to the function of that name "
         "(scimath variants where complex continuation is documented), the constants i, j, e, pi, and numpy errors are routed to exceptions. "
         "Bounded (not proved): every table entry against a cmath/explicit-formula oracle on real and complex grids, branch cuts, poles, wrong arities and shapes (58k quick / 870k thorough evaluations).",
    note="Assumed: A8 numpy's elementary functions are the mathematical ones (COS, SIN, ... are uninterpreted; their values are checked only by the bounded tier); A1 floats as reals; complex arguments, arrays and the "
         "@SpecifyDomain decorators (argument count / shape validation), eval_function and get_number_of_args are outside the value model: bounded tier only. The extraction drops decorators. factorial excluded (scipy absent).",
    design="6/C15"),
 'C14': dict(
    technique="contract-based deductive verification (pyvc) of the operator decision logic of MathArray over an abstract array model (shape tuple, ndim, size; numpy's arithmetic uninterpreted); bounded sweep of the shape lattice against a plain-numpy oracle as stand-in for values",
    text="Proved for ALL shapes (any number of axes, any lengths) and all operand kinds (number, MathArray, anything else): __add__ reaches numpy's addition only with a zero scalar or an array of exactly "
         "the same shape (a nonzero number with a proper array, or two arrays of different shapes: MathArrayShapeError; other operands: TypeError); __mul__ scales by numbers and one-element arrays, refuses "
         "tensors (ndim > 2), multiplies vectors/matrices through np.dot exactly when the inner dimensions agree (otherwise MathArrayShapeError) and collapses a one-element product to its number; "
         "__truediv__ divides only by numbers / one-element arrays (any other array: MathArrayShapeError), __rtruediv__ refuses every array of ndim > 0; __rmul__ accepts numbers only; __rpow__ accepts only a "
         "one-element array as exponent; __pow__ returns a value only for one-element arrays (number semantics) or a SQUARE matrix with an integer-valued exponent that is >= 0 or allowed to be negative "
         "(MathArray._negative_powers), and raises MathArrayShapeError / MathArrayError / TypeError in exactly the other cases; the helper predicates is_number_zero, is_numberlike_array, "
         "is_numberlike_zero_array, is_square are their definitions. Bounded (not proved): values against a plain-numpy oracle for all 625 ordered pairs of 25 operand kinds x 5 operators, reflected and in-place forms, "
         "33 exponents, singular matrices, formula strings, product chains of 3-5 operands (triple vector products refused), MatrixGrader negative_powers on/off without leaks (67k quick / 154k thorough cases).",
    note="Assumed: A8 numpy (ndarray.__add__/__mul__/__truediv__, np.dot raising ValueError exactly on an inner-dimension mismatch, matrix_power raising LinAlgError only for a negative power of a singular matrix with the "
         "text 'Singular matrix', matrix_rank, item()) -- uninterpreted in the proofs, exercised by the bounded tier; number + array with the array on the right is modelled as the interpreter's reflected dispatch (TypeError path "
         "in the model; bounded tier checks the real dispatch). eval_product's triple-product rule, eval_array, MatrixGrader.check_response's enable_negative_powers context manager: bounded tier only. "
         "Known finding (not repaired): numpy scalars on the LEFT of an array bypass the reflected operators.",
    design="6/C14"),
 'C20': dict(
    technique="contract-based deductive verification (pyvc) of the leaf validators and cross-option rules (vendored voluptuous Range/Length/In/NotIn, library validators, grouping and whitelist rules, configuration source selection); ast-scan obligation for the schema keys; bounded single-option deviation sweep from a documentation-derived option table as stand-in for schema application",
    text="Proved for all inputs: voluptuous Range.__call__ accepts exactly the values inside the (open or closed, optionally one-sided) bounds, returns the value unchanged and rejects everything else -- including values that "
         "cannot be ordered -- with RangeInvalid (never TypeError; failed before fix e01c6b0); Length.__call__ likewise for sized values; In/NotIn are membership tests; PercentageString accepts only text ending in '%' whose number "
         "part is not negative and lets only Invalid escape; all_unique returns its argument only if no two items are equal; validate_blacklist_whitelist_config accepts exactly when not both lists are in use and every name "
         "is a default function ([None] = no defaults); ListGrader.validate_grouping accepts exactly when (grouped single subgrader is a ListGrader) and (unordered => equal group sizes) and (list of subgraders => one per group, "
         "ListGrader for every group of more than one item); ObjectWithSchema.__init__ takes the dictionary when one is given and the keyword arguments otherwise, applies registered defaults to dictionaries only, stores the VALIDATED "
         "configuration, writes nothing but the new object and leaves it unchanged when validation fails. Decided by source scan: every option key of every schema is Required(...) and no schema allows extra keys. "
         "Bounded (not proved): 32 public classes x 227 documented options: every single-option deviation (in-domain accepted and stored, out-of-domain rejected with a configuration/validation error), defaults, unknown names, "
         "kwargs/dict equivalence, Cls(obj.config) == obj, answers normalisation, 388 cross-option configurations, random combinations (9.5k quick / 62k thorough cases).",
    note="Assumed: A15 schema application itself (voluptuous Schema/All/Any/Required compilation and dispatch) is outside the verifier's subset: its effect is covered by the bounded sweep only; apply_registered_defaults (walks __bases__), "
         "coerce2unicode (recursive comprehension), validate_no_collisions/warn_if_override (set algebra, itertools), SingleListGrader's delimiter chain (needs an acyclicity invariant over nested graders) are bounded-only. "
         "A6 text formatting/float(text) abstract. all_unique: the converse direction (duplicate-free lists are never rejected) is bounded-only (quantifier alternation). IntegralGrader skipped (scipy absent).",
    design="6/C20"),
 'C03': dict(
    technique="contract-based deductive verification (pyvc) of the evaluation folds of MathExpression against recursively DEFINED spec functions taken from the statement (right-associative tower with signed exponents, left-associative sum and product folds, parallel sum, suffix multiplication); ast-scan obligation for the grammar's precedence chain; bounded exhaustive operator-sequence sweep against an independent precedence-climbing reference as stand-in for the pyparsing grammar",
    text="Proved for operand lists of ANY length (real operands): eval_power computes the right-associative tower a^(b^(c...)) with each '-' negating the exponent to its right (TOWER recurrence, loop invariant over the "
         "right-to-left scan); eval_sum and eval_product compute the LEFT-associative folds ((a op b) op c)... with an optional leading '+' (LSUM / LPROD recurrences; division by zero is an error); eval_negation negates exactly for an odd "
         "number of signs; eval_parallel returns 0 if an operand is 0 and otherwise 1 / (sum of reciprocals); eval_number multiplies float(text) by the suffix's multiplier exactly once and only when a suffix is present "
         "(unknown suffix: KeyError); eval_variable returns exactly the value bound to exactly that name (dictionary lookup: case-sensitive), never writing the table. Decided by source scan: the grammar levels are chained "
         "atom <- power <- negation <- parallel <- product <- sum and each level's parse action names the fold of that level. Bounded (not proved): every operator sequence of length <= 3 (quick) / <= 4 (thorough) over + - * / ^ || with "
         "optional unary minus on every leaf, random deeper derivations with functions, indexed/primed/tensor names and array literals, all number formats x suffixes, whitespace/em-dash/parenthesis renderings, and ~330 hand-built plus "
         "enumerated invalid strings (60k quick / 660k thorough evaluations) against an independent reference parser/evaluator with a forward error bound.",
    note="Assumed: A1 floats as reals (complex operands, arrays: bounded tier); robust_pow (a ^ b itself) and float(text) are uninterpreted (RPOW, STRFLOAT; values checked by the bounded tier); the recursive spec functions are "
         "introduced by their defining equations in the preconditions (a conservative definitional extension; the vacuity guard shows satisfiability). The pyparsing grammar itself (tokenisation, whitespace handling, rejection of "
         "strings outside the grammar) and eval_node's dispatch are outside the verifier's reach: source scan + bounded tier only. MathParser.parse's caching and space stripping are under contract in C10.",
    design="6/C03"),
}

NOT_YET = {}

def main():
    props = [json.loads(l) for l in open(os.path.join(ROOT, 'properties.jsonl'))]
    checks = []
    na = []
    for p in props:
        pid = p['id']
        if pid in CHECKS:
            c = CHECKS[pid]
            checks.append({
                'property_id': pid,
                'quick_cmd': './check %s --tier quick' % pid,
                'thorough_cmd': './check %s --tier thorough' % pid,
                'evidence_file': '/verif/evidence/%s.json' % pid,
                'replay_cmd_template': './check %s --replay {path}' % pid,
                'engine': 'pyvc',
                'level_claimed': {'category': 'proof', 'text': c['text'], 'design_ref': c['design']},
                'level_note': c['note'],
                'technique': c['technique'],
            })
        else:
            na.append({'property_id': pid, 'reason': NOT_YET.get(pid, 'check not built yet (work in progress; see DESIGN.md section 9 staging)')})
    m = {
        'version': 1,
        'setup_cmd': './setup.sh',
        'hooks': {'guard': 'MITX_GRADING_VERIF',
                  'enable': 'no repository hooks are needed: contracts are sidecar files under /verif/contracts and run-time wrappers are installed inside the checker process; the guard name is declared but no line of /repo depends on it',
                  'baseline_off_cmd': 'cd /repo && /venv/bin/python -m pytest -ra -q -p no:cacheprovider --timeout=900 --continue-on-collection-errors',
                  'source_commits': json.load(open(os.path.join(ROOT, 'known_findings.json'))).get('fix_commits', []),
                  'add_only': True},
        'engines': [{'name': 'pyvc', 'path': '/verif/pyvc', 'serves_properties': sorted(CHECKS),
                     'kind_free_text': 'contract-based deductive verifier for a Python subset: AST->z3 symbolic execution of the real /repo source against sidecar contracts (/verif/contracts), lemma library, cvc5 second opinion, counter-model replay, bounded run-time contract checks (/verif/bounded)'}],
        'checks': checks,
        'notes': 'See DESIGN.md. Exit codes of ./check: 0 held, 1 violation (VIOLATION line), 2 undecided without stand-in, 3 checker error.',
        'not_applicable': na,
    }
    json.dump(m, open(os.path.join(ROOT, 'MANIFEST.json'), 'w'), indent=1)
    print('MANIFEST: %d checks, %d not claimed' % (len(checks), len(na)))

if __name__ == '__main__':
    main()
