#!/bin/sh
# ./run_all.sh [seed] [tier] : run every registered check on the current tree, print one line per check
SEED="${1:-0}"; TIER="${2:-quick}"
cd "$(dirname "$0")"
for id in $(.venv/bin/python -c "import json; print(' '.join(c['property_id'] for c in json.load(open('MANIFEST.json'))['checks']))"); do
  VERIF_SEED=$SEED ./check $id --tier $TIER > /tmp/runall_${id}_$SEED.log 2>&1; code=$?
  echo "$id seed=$SEED exit=$code $(grep -E "^$id $TIER" /tmp/runall_${id}_$SEED.log | cut -c1-160)"
done
