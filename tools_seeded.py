#!/usr/bin/env python3
"""Confirm the seeded property-breaking changes and file them under /verif/seeded/<id>/.

For every change under seeded/_incoming/<property>/{A,B}[_rebased].diff (written by sub-agents that saw only the property text and a scratch
worktree) this script, in a scratch git worktree of /repo outside /repo and /verif:
  1. applies the diff to the current /repo HEAD,
  2. runs the repository's test suite (must give the same pass/fail counts as the unchanged tree),
  3. runs the demonstration with the change (must FAIL) and without it (must PASS),
  4. runs ./check <property> --tier quick against the changed tree (VERIF_REPO) and records the verdict and which obligations/bounded checks fired,
and then writes seeded/<property>-<A|B>/{patch.diff, demo.py, meta.json}.  Nothing is ever applied to /repo itself.

usage: [SEEDED_ONLY='D E'] tools_seeded.py [C01 C02 ...]      (default: all changes of all properties; properties run in parallel, 5 at a time)
"""
import json
import os
import re
import subprocess
import sys
from concurrent.futures import ThreadPoolExecutor

ROOT = os.path.dirname(os.path.abspath(__file__))
INC = os.path.join(ROOT, 'seeded', '_incoming')
PY = '/venv/bin/python'
MUTS = tuple(os.environ.get('SEEDED_ONLY', 'A B C D E').split())


def sh(cmd, cwd=None, env=None, timeout=3600):
    p = subprocess.run(cmd, shell=True, cwd=cwd, env=env, stdout=subprocess.PIPE, stderr=subprocess.STDOUT, timeout=timeout, text=True)
    return p.returncode, p.stdout


def tests(wt):
    rc, out = sh('%s -m pytest -q -p no:cacheprovider --timeout=900 --continue-on-collection-errors 2>&1 | tail -1' % PY, cwd=wt)
    m = re.search(r'(\d+) failed, (\d+) passed', out)
    return (int(m.group(2)), int(m.group(1))) if m else (None, out.strip()[-200:])


def one_property(pid):
    wt = '/tmp/wt_seed_%s' % pid
    sh('git -C /repo worktree remove --force %s' % wt)
    rc, out = sh('git -C /repo worktree add -f %s HEAD' % wt)
    results = []
    try:
        head = sh('git -C /repo rev-parse --short HEAD')[1].strip()
        for m in MUTS:
            src = os.path.join(INC, pid, m + '_rebased.diff')
            rebased = os.path.exists(src)
            if not rebased:
                src = os.path.join(INC, pid, m + '.diff')
            if not os.path.exists(src):
                continue
            note = os.path.join(INC, pid, m + '_note.txt')
            demo = os.path.join(INC, pid, m + '_demo.py')
            meta = json.load(open(os.path.join(INC, pid, m + '_meta.json')))
            sh('git checkout -q -- . && git clean -fdq', cwd=wt)
            denv = dict(os.environ, PYTHONPATH=wt)
            rc_demo_clean, out_clean = sh('%s %s' % (PY, demo), cwd=wt, env=denv)
            rc, out = sh('git apply %s' % src, cwd=wt)
            if rc != 0:
                results.append((pid, m, 'DOES NOT APPLY', out[-300:]))
                continue
            passed, failed = tests(wt)
            rc_demo_mut, out_mut = sh('%s %s' % (PY, demo), cwd=wt, env=denv)
            env = dict(os.environ, VERIF_REPO=wt)
            rc_chk, out_chk = sh('./check %s --tier quick' % pid, cwd=ROOT, env=env)
            viol = re.findall(r'^VIOLATION property=\S+ replay=\S+(?: no-failing-input-found)?\n  obligation: (.*)$', out_chk, flags=re.M)
            fired = sorted(set(v.strip() for v in viol))
            summary_line = [l for l in out_chk.splitlines() if l.startswith(pid + ' quick:')]
            sh('git checkout -q -- . && git clean -fdq', cwd=wt)
            ok = (passed == 363 and failed == 36 and rc_demo_clean == 0 and rc_demo_mut != 0 and rc_chk == 1)
            d = os.path.join(ROOT, 'seeded', '%s-%s' % (pid, m))
            os.makedirs(d, exist_ok=True)
            open(os.path.join(d, 'patch.diff'), 'w').write(open(src).read())
            open(os.path.join(d, 'demo.py'), 'w').write(open(demo).read())
            meta_out = {
                'property': pid, 'change': m,
                'summary': meta.get('summary'), 'needs': meta.get('needs'), 'files': meta.get('files'), 'functions': meta.get('functions'),
                'origin': 'written by a sub-agent that was given only the property text and its own scratch git worktree of /repo (nothing from /verif)'
                          + ('; rebased by hand onto the tree with the fix: commits (same behavioural change)' if rebased else ''),
                'confirmed_on_repo_head': head,
                'confirmation': {
                    'how': 'tools_seeded.py in a scratch worktree under /tmp (removed afterwards): git apply patch.diff; full test suite; demo.py with and without the change; ./check %s --tier quick with VERIF_REPO=<worktree>' % pid,
                    'test_suite_with_change': {'passed': passed, 'failed': failed, 'unchanged_tree': {'passed': 363, 'failed': 36}},
                    'demo_without_change': 'PASS' if rc_demo_clean == 0 else 'FAIL (exit %s)' % rc_demo_clean,
                    'demo_with_change': 'FAIL' if rc_demo_mut != 0 else 'PASS (exit 0)',
                    'demo_output_with_change': out_mut.strip()[-600:],
                    'check_exit': rc_chk,
                    'check_summary': summary_line[-1] if summary_line else out_chk.strip()[-300:],
                    'obligations_and_bounded_checks_that_fired': fired[:12],
                },
                'detected': rc_chk == 1,
                'kept': ok,
            }
            if os.path.exists(note):
                meta_out['note'] = open(note).read().strip()
            json.dump(meta_out, open(os.path.join(d, 'meta.json'), 'w'), indent=1)
            results.append((pid, m, 'OK' if ok else 'PROBLEM', 'tests %s/%s demo clean rc=%s mutated rc=%s check rc=%s fired=%s' % (
                passed, failed, rc_demo_clean, rc_demo_mut, rc_chk, '; '.join(fired[:3]))))
    finally:
        sh('git -C /repo worktree remove --force %s' % wt)
    return results


def main():
    pids = sys.argv[1:] or sorted(p for p in os.listdir(INC) if re.match(r'C\d\d$', p))
    with ThreadPoolExecutor(5) as ex:
        for res in ex.map(one_property, pids):
            for r in res:
                print(*r, flush=True)
    sh('git -C /repo worktree prune')


if __name__ == '__main__':
    main()
