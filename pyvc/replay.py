"""
pyvc.replay -- turn a z3 counter-model of a failed obligation into a concrete call of the real function.

concretise(): follows the references of the parameters through the *entry* heap of the model and produces a
JSON description.  build(): rebuilds Python objects (instances without running __init__; abstract methods and
abstract callees become table-driven stubs that return what the model says they returned).
run(): calls the real function on the same tree and evaluates the contract clauses concretely (rtcheck).
Only the replay's outcome is believed (DESIGN 3.2).
"""
import ast
import re
import sys
import json
import z3

from . import z as Z
from .z import Val
from . import api, source as SRC


def _lit(v):
    """z3 Val model value -> python scalar or ('ref', addr)"""
    d = v.decl().name()
    if d == 'none':
        return None
    if d == 'b':
        return z3.is_true(v.arg(0))
    if d == 'i':
        return v.arg(0).as_long()
    if d == 'r':
        a = v.arg(0)
        if z3.is_rational_value(a):
            return float(a.numerator_as_long()) / float(a.denominator_as_long())
        try:
            return float(a.approx(12).as_fraction())
        except Exception:
            return 0.5
    if d == 's':
        return a_string(v.arg(0))
    if d == 'ref':
        return ('ref', v.arg(0).as_long())
    if d == 'pinf':
        return float('inf')
    if d == 'ninf':
        return float('-inf')
    if d == 'nan':
        return float('nan')
    if d == 'cls':
        return ('cls', v.arg(0).as_long())
    if d == 'fn':
        return ('fn', v.arg(0).as_long())
    return None


def a_string(t):
    try:
        return t.as_string()
    except Exception:
        return str(t)


def candidate_keys(fs, con):
    keys = set()
    texts = [fs.text if fs is not None else ''] + con.requires + con.ensures + [str(con.ghost)]
    from .api import SPEC_FUNCS
    import inspect
    for _n, (_p, _b, fn) in SPEC_FUNCS.items():
        try:
            texts.append(inspect.getsource(fn))
        except Exception:
            pass
    src = fs.text if fs is not None else ''
    seg = ast.get_source_segment(src, fs.node) if fs is not None else ''
    for t in [seg or ''] + texts[1:]:
        for m in re.finditer(r"""(['"])([A-Za-z_][A-Za-z0-9_ ]*)\1""", t):
            keys.add(m.group(2))
        for m in re.finditer(r"\.([A-Za-z_][A-Za-z0-9_]*)", t):
            keys.add(m.group(1))
    return sorted(keys)


def small_model(vc, ex, con, fs, neg_goal, timeout_ms=4000):
    """re-solve the refuted obligation asking for short lists and small integers, so that the counter-model rebuilds
    into a handy concrete input; returns a model or None"""
    st = vc.state
    if st is None:
        return None
    h = st.old_heap if st.old_heap is not None else st.heap
    env = st.old_env if st.old_env is not None else st.env
    keys = candidate_keys(fs, con)[:40]
    bounds = []
    from .symex import VTuple, Closure
    for name, term in env.items():
        if isinstance(term, (VTuple, Closure)) or not z3.is_expr(term) or term.sort() != Val:
            continue
        a = Z.addr(term)
        bounds.append(z3.Implies(Z.is_ref(term), z3.And(h.len_of(a) >= 0, h.len_of(a) <= 3, h.size_of(a) <= 8)))
        bounds.append(z3.Implies(Z.is_i(term), z3.And(Z.iv(term) >= -4, Z.iv(term) <= 6)))
        for k in keys:
            sub = h.get(a, Z.mk_s(k))
            bounds.append(z3.Implies(z3.And(Z.is_ref(term), Z.is_ref(sub)), z3.And(h.len_of(Z.addr(sub)) >= 0, h.len_of(Z.addr(sub)) <= 3)))
            bounds.append(z3.Implies(z3.And(Z.is_ref(term), Z.is_i(sub)), z3.And(Z.iv(sub) >= -4, Z.iv(sub) <= 6)))
    s = z3.Solver()
    s.set('timeout', timeout_ms)
    for p in vc.pc:
        s.add(p)
    s.add(neg_goal)
    for b in bounds:
        s.add(b)
    if s.check() == z3.sat:
        return s.model()
    return None


def concretise(model, vc, ex, con, fs, max_len=6):
    st = vc.state
    if st is None:
        return None
    h = st.old_heap if st.old_heap is not None else st.heap
    env = st.old_env if st.old_env is not None else st.env
    ev = lambda t: model.eval(t, model_completion=True)
    keys = candidate_keys(fs, con)
    objs = {}

    def obj(addr, depth=0):
        if addr in objs or depth > 6:
            return
        a = z3.IntVal(addr)
        kind = ev(h.kind_of(a)).as_long()
        d = {'kind': Z.KIND_NAMES.get(kind, 'opaque')}
        objs[addr] = d
        if kind in (Z.K_LIST, Z.K_TUPLE):
            n = max(0, min(ev(h.len_of(a)).as_long(), max_len))
            d['items'] = [val(ev(h.item(a, z3.IntVal(i))), depth + 1) for i in range(n)]
        elif kind in (Z.K_DICT, Z.K_SET, Z.K_OBJ):
            items = {}
            for k in keys:
                kk = Z.mk_s(k)
                if z3.is_true(ev(h.has_key(a, kk))):
                    items[k] = val(ev(h.get(a, kk)), depth + 1)
            for k in (0, 1):
                kk = Z.mk_i(k)
                if z3.is_true(ev(h.has_key(a, kk))):
                    items[k] = val(ev(h.get(a, kk)), depth + 1)
            d['items'] = items
            if kind == Z.K_OBJ:
                c = ev(h.class_of(a)).as_long()
                d['class'] = ex.ct.names[c - 1] if 1 <= c <= len(ex.ct.names) else None

    def val(v, depth=0):
        x = _lit(v)
        if isinstance(x, tuple) and x[0] == 'ref':
            obj(x[1], depth)
            return {'$ref': x[1]}
        if isinstance(x, tuple):
            return {'$' + x[0]: x[1]}
        if isinstance(x, float) and (x != x or x in (float('inf'), float('-inf'))):
            return {'$float': repr(x)}
        return x

    params = {}
    from .symex import VTuple, Closure
    for name, term in env.items():
        if isinstance(term, (VTuple, Closure)):
            continue
        try:
            params[name] = val(ev(term))
        except Exception as e:
            params[name] = {'$error': str(e)}
    # interpretations of the uninterpreted callee functions on the arguments that occur in the VC
    tables = {}
    fnames = set([con.fn] if con.fn else [])
    for spec in con.callees.values():
        if spec.get('fn'):
            fnames.add(spec['fn'])
    if fnames:
        seen = set()

        def walk(e):
            if e.get_id() in seen:
                return
            seen.add(e.get_id())
            if z3.is_app(e):
                if e.decl().name() in fnames:
                    try:
                        args = [val(ev(x)) for x in e.children()]
                        tables.setdefault(e.decl().name(), []).append([args, val(ev(e))])
                    except Exception:
                        pass
                for c in e.children():
                    walk(c)
            elif z3.is_quantifier(e):
                walk(e.body())
        for p in vc.pc:
            walk(p)
        if vc.goal is not None:
            walk(vc.goal)
    return {'params': params, 'objects': {str(k): v for k, v in objs.items()}, 'tables': tables}


# ---- rebuilding python objects --------------------------------------------------------------------

def build(desc, ident, stubs=None):
    """rebuild python values for the parameters; returns (ordered args dict, ufn bindings)"""
    from . import rtcheck
    objs = {}
    con = api.REGISTRY[ident]

    def mk(addr):
        key = str(addr)
        if key in objs:
            return objs[key]
        d = desc['objects'].get(key)
        if d is None:
            objs[key] = None
            return None
        k = d['kind']
        if k == 'list':
            o = []
            objs[key] = o
            o.extend(v2p(x) for x in d['items'])
        elif k == 'tuple':
            o = tuple(v2p(x) for x in d['items'])
            objs[key] = o
        elif k == 'dict':
            o = {}
            objs[key] = o
            for kk, vv in d['items'].items():
                o[_key(kk)] = v2p(vv)
        elif k == 'set':
            o = set(_key(kk) for kk in d['items'])
            objs[key] = o
        elif k == 'object':
            o = make_instance(d.get('class') or con.self_class, ident)
            objs[key] = o
            for kk, vv in d['items'].items():
                if not isinstance(kk, str) or kk.startswith('__') or not kk.isidentifier():
                    continue
                try:
                    setattr(o, kk, v2p(vv))
                except Exception:
                    pass
        else:
            o = object()
            objs[key] = o
        return o

    def v2p(v):
        if isinstance(v, dict):
            if '$ref' in v:
                return mk(v['$ref'])
            if '$float' in v:
                return float(v['$float'])
            if '$fn' in v or '$cls' in v:
                return (stubs or {}).get('callable', lambda *a, **k: None)
            return None
        return v

    args = {name: v2p(v) for name, v in desc['params'].items()}
    ufns = {}
    for fname, rows in desc.get('tables', {}).items():
        table = [([v2p(a) for a in r[0]], v2p(r[1])) for r in rows]

        def f(*a, table=table):
            for (aa, rv) in table:
                if len(aa) == len(a) and all(x == y for x, y in zip(aa, a)):
                    return rv
            # outside the model's (partial) table any function is a legitimate interpretation: a generic one
            try:
                return sum((7 * x * x + 3 * x + 1) for x in a)
            except Exception:
                return 0
        ufns[fname] = f
    return args, ufns


def _key(k):
    try:
        if isinstance(k, str) and k.isdigit():
            return int(k)
    except Exception:
        pass
    return k


def make_instance(clsname, ident):
    """an instance of the repository class without running __init__; abstract methods stubbed"""
    from . import rtcheck
    ct = SRC.class_table()
    ci = ct.classes.get(clsname)
    if ci is None or ci.rel is None:
        class Plain(object):
            pass
        return Plain()
    mod = rtcheck.real_module(ci.rel)
    cls = getattr(mod, clsname)
    abstract = getattr(cls, '__abstractmethods__', frozenset())
    if abstract:
        ns = {}
        for m in abstract:
            if isinstance(getattr(cls, m, None), property):
                ns[m] = property(lambda self: None)
            else:
                ns[m] = lambda self, *a, **k: None
        cls = type(clsname + 'Replay', (cls,), ns)
    return object.__new__(cls)


def run(ident, desc, hooks=None):
    """replay on the real code; returns dict(reproduced, status, failed, detail)"""
    from . import rtcheck
    try:
        args, ufns = build(desc, ident)
        con = api.REGISTRY[ident]
        fs = SRC.find_function(ident)
        order = [a.arg for a in fs.node.args.args]
        ordered = {p: args.get(p) for p in order}
        if hooks:
            hooks(ordered, ufns, desc)
        # abstract callees given by text that read a callable out of the config: install the table-driven stub
        for txt, spec in con.callees.items():
            if spec.get('fn'):
                if spec['fn'] not in ufns:
                    ufns[spec['fn']] = lambda *a: sum((7 * x * x + 3 * x + 1) for x in a)
                if txt in ordered:
                    ordered[txt] = ufns[spec['fn']]
                else:
                    _install_callable(ordered, txt, ufns[spec['fn']])
        out = rtcheck.check_call(ident, ordered, ufns=ufns)
        return {'reproduced': out.status == 'violated', 'status': out.status, 'failed': out.failed,
                'detail': out.detail, 'args': _short(ordered), 'result': _short(out.result),
                'raised': (type(out.raised).__name__ + ': ' + str(out.raised)[:300]) if out.raised is not None else None}
    except Exception as e:
        import traceback
        return {'reproduced': False, 'status': 'error', 'failed': [], 'detail': traceback.format_exc()[-1200:]}


def _install_callable(ordered, txt, fn):
    """txt like "self.config['attempt_based_credit']": put fn at that place of the rebuilt arguments"""
    m = re.match(r"^(\w+)((?:\.\w+|\[['\"][^'\"]+['\"]\])*)$", txt)
    if not m:
        return
    base = ordered.get(m.group(1))
    parts = re.findall(r"\.(\w+)|\[['\"]([^'\"]+)['\"]\]", m.group(2))
    try:
        for k, (attr, key) in enumerate(parts):
            last = k == len(parts) - 1
            if attr:
                if last:
                    setattr(base, attr, fn)
                else:
                    base = getattr(base, attr)
            else:
                if last:
                    base[key] = fn
                else:
                    base = base[key]
    except Exception:
        pass


def _short(x, n=600):
    try:
        s = repr(x)
    except Exception:
        s = '<unrepresentable>'
    return s[:n]
