"""
pyvc.main -- command line of the per-property checks (see /verif/MANIFEST.json).
"""
import os
import sys
import json
import time
import argparse
import importlib
import subprocess
import traceback

ROOT = os.path.dirname(os.path.dirname(os.path.abspath(__file__)))
sys.path.insert(0, ROOT)

from pyvc import runner          # noqa: E402

ASSUMPTION_TEXT = {
    'A1': "A1: Python float arithmetic is treated as real arithmetic (+-inf, nan as distinct values); no rounding/overflow",
    'A2': "A2: round(x, 4) is abstract: |round4(x)-x| <= 5e-5, monotone, fixes 0 and 1 (axioms instantiated per occurrence; bounded check of the axioms in bounded tier)",
    'A5': "A5: dict/set iteration is some duplicate-free enumeration; order not modelled",
    'A6': "A6: string methods (.format/.replace/.lower/.strip/.join/str()) are uninterpreted; format keeps the template's literal characters",
    'POW': "x ** y with non-integer or negative symbolic exponent is an uninterpreted function",
    'SUM-real': "sum() over a list is the recursively defined real sum SUMR",
    'MUL-abstract': "products of two symbolic reals are abstracted to MUL(x, y) with instantiated facts that are theorems of real arithmetic (each fact re-proved by z3 NRA on every run)",
}


def git_head(path):
    try:
        return subprocess.run(['git', '-C', path, 'rev-parse', '--short', 'HEAD'], capture_output=True, text=True).stdout.strip()
    except Exception:
        return '?'


def load_json(path, default):
    try:
        with open(path) as f:
            return json.load(f)
    except Exception:
        return default


def main():
    ap = argparse.ArgumentParser()
    ap.add_argument('pid')
    ap.add_argument('--tier', default=os.environ.get('VERIF_TIER', 'quick'))
    ap.add_argument('--replay')
    ap.add_argument('--rebaseline', action='store_true')
    ap.add_argument('--no-bounded', action='store_true')
    args = ap.parse_args()
    pid = args.pid
    tier = 'thorough' if args.tier == 'thorough' else 'quick'
    seed = int(os.environ.get('VERIF_SEED', '0') or 0)
    t0 = time.time()
    if args.replay:
        return do_replay(pid, args.replay)
    try:
        code = run_check(pid, tier, seed, args, t0)
    except Exception:
        traceback.print_exc()
        print("CHECKER-ERROR property=%s" % pid)
        code = 3
    sys.exit(code)


def do_replay(pid, path):
    from pyvc import replay as RP
    runner.load_contracts()
    rec = load_json(path, None)
    if rec is None:
        print("cannot read " + path)
        sys.exit(3)
    if rec.get('counterexample') and rec.get('function'):
        out = RP.run(rec['function'], rec['counterexample'])
        print(json.dumps(out, indent=1, default=str))
        sys.exit(1 if out.get('reproduced') else 0)
    if rec.get('bounded_case'):
        mod = importlib.import_module('bounded.' + pid)
        out = mod.replay(rec['bounded_case'])
        print(json.dumps(out, indent=1, default=str))
        sys.exit(1 if out.get('reproduced') else 0)
    print("replay file carries no concrete input (no-failing-input-found): obligation %s" % rec.get('obligation'))
    sys.exit(0)


def run_check(pid, tier, seed, args, t0):
    api = runner.load_contracts()
    from pyvc import lemmas as LEM, replay as RP, source as SRC
    os.makedirs(os.path.join(ROOT, 'evidence'), exist_ok=True)
    os.makedirs(os.path.join(ROOT, 'replay'), exist_ok=True)
    baseline_all = load_json(os.path.join(ROOT, 'baseline', 'obligations.json'), {})
    baseline = baseline_all.get(pid, {})
    known = load_json(os.path.join(ROOT, 'known_findings.json'), {'findings': [], 'fixed': []})

    results, vtime = runner.run_verification(pid)
    builtin = LEM.prove_builtin()

    violations = []       # dicts: obligation, function, clause, replay path, reproduced
    downgraded = []
    functions = []
    n_obl = n_dis = 0
    solver_time = 0.0
    backends = set()
    samples = []
    used_assumptions = set()
    for r in results:
        ident = r['ident']
        base = baseline.get(ident)
        fn_entry = {'function': ident, 'status': r['status'], 'paths': r['paths'], 'vcs': r['vcs'], 'time_s': r['time_s'],
                    'line': r.get('line'), 'source_sha': r.get('source_sha'), 'detail': r.get('detail', '')[:300]}
        functions.append(fn_entry)
        used_assumptions.update(r.get('assumptions', []))
        obls = r.get('obligations', {})
        base_names = set(base['obligations']) if base else None
        for name, o in obls.items():
            n_obl += 1
            solver_time += o.get('time_s', 0)
            backends.add(o.get('backend', 'z3'))
            if o['status'] == 'proved':
                n_dis += 1
                if len(samples) < 6 and o['kind'] in ('ensures', 'lemma', 'loop-preserve', 'frame', 'exsures'):
                    samples.append({'function': ident, 'obligation': name, 'clause': o.get('clause', '')[:240],
                                    'paths': o.get('paths'), 'backend': o.get('backend'), 'time_s': o.get('time_s')})
        if r['status'] == 'REFUTED':
            for name, o in obls.items():
                if o['status'] == 'refuted' and o['kind'] in ('ensures', 'exsures', 'frame', 'callee-pre', 'lemma'):
                    v = make_violation(pid, ident, name, o, RP, len(violations))
                    if v.get('replay_status') == 'ok' and uses_uninterpreted(ident):
                        # the counter-model interprets an uninterpreted function (COS, ARCTAN, ...) in a way the real function does not behave:
                        # the real code, run on the model's input, satisfied every clause.  Not confirmed => undecided, the bounded tier decides.
                        downgraded.append({'function': ident, 'status': 'COUNTER-MODEL-NOT-CONFIRMED',
                                           'detail': 'z3 refuted %s with %s, but the real code satisfies the contract on that input (abstraction of elementary functions)' % (name, o.get('model')),
                                           'lost': [name]})
                    else:
                        violations.append(v)
        elif r['status'] in ('UNDECIDED', 'UNSUPPORTED', 'ERROR'):
            # a failed proof is undecided, not a violation (DESIGN 3.1); obligations the baseline had proved are downgraded
            lost = sorted(base_names - set(n for n, o in obls.items() if o['status'] == 'proved')) if base_names else ['<all>']
            downgraded.append({'function': ident, 'status': r['status'], 'detail': r.get('detail', '')[:400], 'lost': lost[:20]})
            if base_names:
                n_obl += len([n for n in lost if n not in obls])
        if base_names and r['status'] == 'PROVED':
            missing = base_names - set(obls)
            if missing:
                downgraded.append({'function': ident, 'status': 'OBLIGATIONS-MISSING', 'detail': 'baseline obligations no longer generated',
                                   'lost': sorted(missing)[:20]})
                n_obl += len(missing)
    # functions in the baseline that no longer have a contract result at all
    for ident in baseline:
        if ident not in [r['ident'] for r in results]:
            downgraded.append({'function': ident, 'status': 'MISSING', 'detail': 'no result', 'lost': baseline[ident]['obligations'][:20]})
            n_obl += len(baseline[ident]['obligations'])
    for b in builtin:
        n_obl += 1
        solver_time += b['time_s']
        if b['status'] == 'proved':
            n_dis += 1
        else:
            downgraded.append({'function': 'lemma-library::' + b['name'], 'status': b['status'], 'detail': '', 'lost': [b['name']]})

    # ---- bounded stand-ins (never counted as proved)
    bounded = {'ran': False}
    bmod = None
    if not args.no_bounded:
        try:
            bmod = importlib.import_module('bounded.' + pid)
        except ImportError:
            bmod = None
        if bmod is not None:
            tb = time.time()
            try:
                bounded = bmod.run(tier, seed)
            except Exception:
                # the harness itself crashed: a checker error (exit 3), never a violation
                harness_crash = traceback.format_exc()[-1500:]
                bounded = {'evaluations': 0, 'failures': [], 'harness_crash': harness_crash}
                print("CHECKER-ERROR property=%s bounded harness crashed:\n%s" % (pid, harness_crash))
            bounded['ran'] = True
            bounded['wall_s'] = round(time.time() - tb, 2)
            # failures that a listed known finding covers are not allowed to crowd out other failures: the first 20 *unlisted* ones get replay files
            unlisted, listed = [], []
            for case in bounded.get('failures', []):
                probe = {'obligation': 'bounded: ' + case.get('contract', ''), 'key': case.get('key', ''), 'what': case.get('what', '')}
                (listed if match_known(known, pid, probe) else unlisted).append(case)
            seen_kf = set()
            for case in listed:
                kf = match_known(known, pid, {'obligation': 'bounded: ' + case.get('contract', ''), 'key': case.get('key', ''), 'what': case.get('what', '')})
                if kf not in seen_kf:
                    seen_kf.add(kf)
                    print("KNOWN-FINDING: property=%s %s" % (pid, kf))
            bounded['known_finding_cases'] = len(listed)
            for k, case in enumerate(unlisted[:20]):
                path = os.path.join(ROOT, 'replay', '%s_bounded_%d.json' % (pid, k))
                rec = {'property': pid, 'kind': 'bounded', 'obligation': case.get('contract', ''), 'bounded_case': case,
                       'reproduced': True, 'tree': git_head(SRC.REPO)}
                with open(path, 'w') as f:
                    json.dump(rec, f, indent=1, default=str)
                violations.append({'obligation': 'bounded: ' + case.get('contract', ''), 'function': case.get('function', ''),
                                   'clause': case.get('clause', ''), 'replay': path, 'reproduced': True, 'what': case.get('what', ''),
                                   'key': case.get('key', '')})

    if args.rebaseline:
        newb = {}
        for r in results:
            if r['status'] == 'PROVED':
                newb[r['ident']] = {'status': 'PROVED', 'obligations': sorted(r['obligations'])}
        baseline_all[pid] = newb
        os.makedirs(os.path.join(ROOT, 'baseline'), exist_ok=True)
        with open(os.path.join(ROOT, 'baseline', 'obligations.json'), 'w') as f:
            json.dump(baseline_all, f, indent=1, sort_keys=True)
        print("baseline for %s: %d functions/lemmas proved" % (pid, len(newb)))

    # ---- known findings
    real = []
    for v in violations:
        kf = match_known(known, pid, v)
        if kf:
            print("KNOWN-FINDING: property=%s %s" % (pid, kf))
        else:
            real.append(v)
    # ---- verdict
    code = 0
    for v in real:
        tail = '' if v.get('reproduced') else ' no-failing-input-found'
        print("VIOLATION property=%s replay=%s%s" % (pid, v['replay'], tail))
        print("  obligation: %s :: %s" % (v.get('function'), v.get('obligation')))
        print("  clause: %s" % (v.get('clause', '')[:300]))
        code = 1
    if code == 0 and bounded.get('harness_crash'):
        code = 3
    if code == 0 and downgraded and not bounded.get('ran'):
        code = 2
    if code == 0 and n_obl == 0:
        print("CHECKER-ERROR property=%s no obligations generated" % pid)
        code = 3
    # ---- evidence
    trusted = []
    for ident in api.ORDER:
        c = api.REGISTRY[ident]
        if pid in c.props:
            if c.skip:
                trusted.append("contract drafted but NOT discharged (excluded from the counts): %s -- %s" % (ident, c.skip))
            if c.trusted:
                trusted.append("trusted contract (assumed, body not verified): " + ident)
            for txt, sp in c.callees.items():
                trusted.append("assumed contract of abstract callee %s in %s: %s" % (txt, ident.split('::')[1], sp.get('note', 'see contract')))
    trusted += ["z3 %s (SMT back end), cvc5 1.0.3 as second opinion" % _z3v(),
                "pyvc symbolic executor (this repository's /verif/pyvc): Python subset semantics as stated in DESIGN.md 2.2/2.10",
                "induction schema (base + step => forall n) for the lemma library"]
    ev = {
        'property_id': pid, 'tier': tier, 'seed': seed, 'level': 'proof',
        'coverage': {
            'obligations': n_obl, 'discharged': n_dis,
            'checker_cmd': './check %s --tier %s' % (pid, tier),
            'trusted_base': trusted,
            'functions_under_contract': functions,
            'lemma_library': builtin,
            'solver_time_s': round(solver_time, 2), 'verification_wall_s': round(vtime, 2),
            'back_ends': sorted(backends),
            'downgraded': downgraded,
            'bounded': {k: v for k, v in bounded.items() if k != 'failures'},
            'bounded_failures': bounded.get('failures', [])[:10] if bounded.get('ran') else [],
            'samples': samples or [{'note': 'no discharged obligation to show'}],
            'explanation': "obligations are named contract clauses (aggregated over paths) generated from the real source of the functions listed; "
                           "bounded stand-ins are reported separately and are never counted as discharged",
            'repo_head': git_head(SRC.REPO), 'repo_path': SRC.REPO,
        },
        'assumptions': [ASSUMPTION_TEXT.get(a, a) for a in sorted(used_assumptions)] + getattr(bmod, 'ASSUMPTIONS', []) if bmod else
                       [ASSUMPTION_TEXT.get(a, a) for a in sorted(used_assumptions)],
        'wall_s': round(time.time() - t0, 2),
        'violations': len(real),
    }
    with open(os.path.join(ROOT, 'evidence', pid + '.json'), 'w') as f:
        json.dump(ev, f, indent=1, default=str)
    print("%s %s: %d/%d obligations discharged over %d functions/lemmas; bounded: %s; downgraded: %d; violations: %d; %.1fs" % (
        pid, tier, n_dis, n_obl, len(results), 'ran (%s cases)' % bounded.get('evaluations') if bounded.get('ran') else 'none',
        len(downgraded), len(real), time.time() - t0))
    for d in downgraded:
        print("  downgraded: %s [%s] %s" % (d['function'], d['status'], d['detail'][:160]))
    return code


def _z3v():
    import z3
    return z3.get_version_string()


def make_violation(pid, ident, name, o, RP, k):
    from pyvc import source as SRC
    path = os.path.join(ROOT, 'replay', '%s_%s_%d.json' % (pid, ident.split('::')[1].replace('.', '_'), k))
    rec = {'property': pid, 'function': ident, 'obligation': name, 'clause': o.get('clause', ''), 'kind': o.get('kind'),
           'solver': {'status': 'sat (obligation refuted)', 'backend': o.get('backend'), 'model_parameters': o.get('model'), 'note': o.get('note', '')},
           'counterexample': o.get('counterexample'), 'tree': git_head(SRC.REPO)}
    reproduced = False
    replay_status = None
    if o.get('counterexample') and not ident.startswith('lemma::'):
        out = RP.run(ident, o['counterexample'])
        rec['replay_result'] = out
        reproduced = bool(out.get('reproduced'))
        replay_status = out.get('status')
    rec['reproduced'] = reproduced
    with open(path, 'w') as f:
        json.dump(rec, f, indent=1, default=str)
    return {'obligation': name, 'function': ident, 'clause': o.get('clause', ''), 'replay': path, 'reproduced': reproduced,
            'key': '%s#%s' % (ident, name), 'replay_status': replay_status}


def uses_uninterpreted(ident):
    from pyvc import api
    con = api.REGISTRY.get(ident)
    if con is None:
        return False
    texts = list(con.ensures) + [str(v) for v in con.exsures.values()]
    for cs in con.callees.values():
        texts += [str(x) for x in cs.get('ensures', [])]
    return any('ufn(' in t for t in texts)


def match_known(known, pid, v):
    """a finding is identified by the exact key of the failing obligation/case, or (bounded cases whose random inputs differ from
    seed to seed) by the exact label of the bounded check that fails plus a pattern the description of the failing input must match"""
    import re
    for f in known.get('findings', []):
        if f.get('property') != pid:
            continue
        if f.get('key') and f['key'] == v.get('key'):
            return f.get('what', f['key'])
        if f.get('bounded_check') and v.get('obligation') == 'bounded: ' + f['bounded_check']:
            if not f.get('input_pattern') or re.search(f['input_pattern'], v.get('what', '') or ''):
                return f.get('what', f['bounded_check'])
    return None


if __name__ == '__main__':
    main()
