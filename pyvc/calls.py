"""
pyvc.calls -- calls: built-in models, methods of str/list/dict, calls by contract, spec builtins.
"""
import ast
import z3

from . import z as Z
from .z import Val, I, R, B, S, VArr
from .heap import Heap, empty_keys, keyset_of, FIELDS
from . import api
from .symex import Unsupported, VTuple, IterView, Closure, VC


class CallsMixin:

    # ------------------------------------------------------------------ entry
    def ev_Call(self, node, st):
        f = node.func
        txt = ast.unparse(f)
        if any(isinstance(a, ast.Starred) for a in node.args) or any(k.arg is None for k in node.keywords):
            if not (txt in self.c.callees or self._kwargs_passthrough(node)):
                raise Unsupported("*args/**kwargs in call " + ast.unparse(node), node)
        # 1. call-site contracts given by text in the contract under verification
        if txt in self.c.callees:
            return self.call_by_text(node, st, txt)
        # 2. spec builtins
        if self.spec and isinstance(f, ast.Name) and hasattr(self, 'spec_' + f.id):
            return [(st, getattr(self, 'spec_' + f.id)(node, st))]
        if isinstance(f, ast.Name) and f.id in api.SPEC_FUNCS and (self.spec or f.id not in st.env):
            return [(st, self.inline_spec(node, st))]
        # 3. names
        if isinstance(f, ast.Name):
            if f.id in st.env:
                fv = st.env[f.id]
                if isinstance(fv, Closure):
                    return self.call_closure(fv, node, st)
                raise Unsupported("call of local value " + f.id, node)
            m = getattr(self, 'bi_' + f.id, None)
            if m is not None:
                return m(node, st)
            if f.id in self.ct.classes:
                return self.construct(node, st, f.id)
            cons = api.find_by_name(f.id)
            cons = [c for c in cons if '.' not in c.ident.split('::')[1]]
            if cons:
                return self.call_contract_node(cons[0], node, st, None)
            raise Unsupported("call of unknown function " + f.id, node)
        # 4. attribute calls
        if isinstance(f, ast.Attribute):
            # super(X, self).m(...)
            if isinstance(f.value, ast.Call) and isinstance(f.value.func, ast.Name) and f.value.func.id == 'super':
                return self.call_super(node, st)
            root = f
            while isinstance(root, ast.Attribute):
                root = root.value
            if (isinstance(root, ast.Name) and root.id not in st.env and f.attr in self.ct.classes
                    and self.ct.is_subclass(f.attr, 'BaseException')):
                return self.construct(node, st, f.attr)      # module.path.SomeError(...)
            if txt in ('json.dumps', 'pprint.pformat', 'platform.python_version'):
                outs = []
                for (s, _vals) in self.ev_seq(node.args, st):
                    outs.append((s, Z.mk_s(Z.fresh('text', S))))
                return outs
            # Class.static_method(...)
            if isinstance(f.value, ast.Name) and f.value.id in self.ct.classes and f.value.id not in st.env:
                ci = self.ct.resolve_method(f.value.id, f.attr)
                if ci is not None:
                    con = self.find_contract(ci, f.attr)
                    if con is None:
                        raise Unsupported("no contract for %s.%s" % (ci.name, f.attr), node)
                    return self.call_contract_node(con, node, st, None)
            if f.attr == '__class__':
                # error.__class__(text): a new exception of the same class (single-string construction, checked over the class table)
                outs = []
                for (s, recv) in self.ev(f.value, st):
                    if not self.known(s, self.is_kind(s, recv, Z.K_OBJ)):
                        raise Unsupported("__class__ call on non-object", node)
                    for (s2, pos, kw) in self.eval_args(node, s):
                        msg = pos[0] if pos else Z.mk_s('')
                        s3, e = self.new_exception(s2, None, msg=msg, cid_term=s2.heap.class_of(Z.addr(recv)))
                        outs.append((s3, e))
                return outs
            outs = []
            for (s, recv) in self.ev(f.value, st):
                outs.extend(self.call_method(node, s, recv))
            return outs
        raise Unsupported("call form " + ast.unparse(node), node)

    def _kwargs_passthrough(self, node):
        return False

    def eval_args(self, node, st):
        """list of (state, [positional], {kw: val})"""
        kws = [k for k in node.keywords if k.arg is not None]
        pos = [a for a in node.args if not isinstance(a, ast.Starred)]
        outs = []
        for (s, vals) in self.ev_seq(pos + [k.value for k in kws], st):
            outs.append((s, vals[:len(pos)], {k.arg: v for k, v in zip(kws, vals[len(pos):])}))
        return outs

    # ------------------------------------------------------------------ closures (inlined)
    def call_closure(self, clo, node, st, argvals=None):
        fn = clo.node
        outs = []
        arglist = [(st, argvals, {})] if argvals is not None else self.eval_args(node, st)
        for (s, pos, kw) in arglist:
            params = [a.arg for a in fn.args.args]
            env = dict(clo.env)
            for p, v in zip(params, pos):
                env[p] = v
            for k, v in kw.items():
                env[k] = v
            ndef = len(fn.args.defaults)
            for p, d in zip(params[len(params) - ndef:], fn.args.defaults):
                if p not in env or (p in clo.env and p not in kw and params.index(p) >= len(pos)):
                    env[p] = self.ev1(d, s)
            missing = [p for p in params if p not in env]
            if missing:
                raise Unsupported("closure call missing args %s" % missing, node)
            inner = s.clone(env=env)
            if isinstance(fn, ast.Lambda):
                for (s2, v) in self.ev(fn.body, inner):
                    outs.append((s2.clone(env=s.env), v))
            else:
                fr = self.push_frame(**{'return': True})
                try:
                    normal = self.ex(fn.body, inner)
                finally:
                    self.pop_frame()
                for s2 in normal:
                    outs.append((s2.clone(env=s.env), Z.NONE))
                for (s2, v) in fr['return']:
                    outs.append((s2.clone(env=s.env), v))
        return outs

    # ------------------------------------------------------------------ construction of instances / exceptions
    def construct(self, node, st, clsname):
        outs = []
        if self.ct.is_subclass(clsname, 'BaseException'):
            ci = self.ct.resolve_method(clsname, '__init__')
            if ci is not None and ci.node is not None:
                raise Unsupported("exception class %s with custom __init__" % clsname, node)
            for (s, pos, kw) in self.eval_args(node, st):
                msg = pos[0] if pos else Z.mk_s('')
                if isinstance(msg, VTuple):
                    s, msg = self.materialize(s, msg)
                s2, e = self.new_exception(s, clsname, msg=msg)
                outs.append((s2, e))
            return outs
        ci = self.ct.classes.get(clsname)
        init_ci = self.ct.resolve_method(clsname, '__init__')
        if ci is not None and init_ci is not None and init_ci.node is not None and self.find_contract(init_ci, '__init__') is None \
                and not self.ct.is_subclass(clsname, 'ObjectWithSchema'):
            # a plain class whose constructor only stores attributes: allocate, then run the real __init__ body on the new object
            init = init_ci.methods['__init__']
            simple = all(isinstance(b, (ast.Assign, ast.Expr, ast.Pass)) for b in init.body)
            if simple:
                outs = []
                for (s, pos, kw) in self.eval_args(node, st):
                    h2, a = s.heap.new(Z.K_OBJ, klass=z3.IntVal(self.ct.cid(clsname)), dk=empty_keys(), dv=z3.K(Val, Z.NONE), dsize=z3.IntVal(0))
                    obj = Z.mk_ref(a)
                    params = [x.arg for x in init.args.args]
                    env = {params[0]: obj}
                    for pn, v in zip(params[1:], pos):
                        s, v = self.materialize(s, v)
                        env[pn] = v
                    for k2, v in kw.items():
                        env[k2] = v
                    if len(env) != len(params):
                        raise Unsupported("constructor arguments of " + clsname, node)
                    saved = dict(self.static_cls)
                    self.static_cls[params[0]] = clsname
                    try:
                        body = [b for b in init.body if not (isinstance(b, ast.Expr) and isinstance(b.value, ast.Constant))]
                        for s2 in self.ex(body, s.with_heap(h2).clone(env=env)):
                            outs.append((s2.clone(env=s.env), obj))
                    finally:
                        self.static_cls = saved
                return outs
        if ci is not None and self.ct.resolve_method(clsname, '__init__') is None and not node.args and not node.keywords:
            # a class without constructor logic: a fresh attribute-less instance
            h2, a = st.heap.new(Z.K_OBJ, klass=z3.IntVal(self.ct.cid(clsname)), dk=empty_keys(), dv=z3.K(Val, Z.NONE), dsize=z3.IntVal(0))
            return [(st.with_heap(h2), Z.mk_ref(a))]
        raise Unsupported("construction of " + clsname, node)

    # ------------------------------------------------------------------ method calls
    def call_method(self, node, st, recv):
        f = node.func
        name = f.attr
        h = st.heap
        if isinstance(recv, VTuple):
            raise Unsupported("method on virtual tuple", node)
        if isinstance(recv, Closure):
            raise Unsupported("method on closure", node)
        sr = z3.simplify(Z.is_cls(recv))
        if z3.is_true(sr):
            raise Unsupported("call through class value " + ast.unparse(node), node)
        if self.spec:
            # spec mode is total: dispatch on the method name
            if name in ('startswith', 'endswith', 'lower', 'strip', 'replace', 'format', 'join'):
                return self.str_method(node, st, recv, name)
            if name in ('get',):
                return self.dict_method(node, st, recv, name)
            raise Unsupported("method %s in specification" % name, node)
        if self.known(st, Z.is_s(recv)):
            return self.str_method(node, st, recv, name)
        if self.known(st, self.is_kind(st, recv, Z.K_LIST)):
            return self.list_method(node, st, recv, name)
        if self.known(st, self.is_kind(st, recv, Z.K_TUPLE)):
            return self.tuple_method(node, st, recv, name)
        if self.known(st, self.is_kind(st, recv, Z.K_DICT, Z.K_SET)):
            return self.dict_method(node, st, recv, name)
        if self.known(st, self.is_kind(st, recv, Z.K_OBJ)):
            cls = self.static_class_of(st, recv, f.value)
            if cls is None:
                raise Unsupported("method call on object of unknown class: " + ast.unparse(node), node)
            if self.ct.is_subclass(cls, 'BaseException'):
                raise Unsupported("method on exception object", node)
            ci = self.ct.resolve_method(cls, name)
            if ci is None:
                raise Unsupported("cannot resolve %s.%s" % (cls, name), node)
            con = self.find_contract(ci, name)
            if con is None:
                raise Unsupported("no contract for %s.%s (called from %s)" % (ci.name, name, self.c.ident), node)
            return self.call_contract_node(con, node, st, recv)
        raise Unsupported("method call on value of unknown kind: " + ast.unparse(node), node)

    def find_contract(self, ci, meth):
        ident = "%s::%s.%s" % (ci.rel, ci.name, meth)
        return self.reg.get(ident)

    def call_super(self, node, st):
        f = node.func
        sup = f.value
        if len(sup.args) == 2 and isinstance(sup.args[0], ast.Name):
            after = sup.args[0].id
            tgt = sup.args[1]
        elif len(sup.args) == 0:
            after = self.f.cls_name
            tgt = ast.Name(id='self', ctx=ast.Load())
        else:
            raise Unsupported("super form", node)
        cls = self.c.self_class
        ci = self.ct.resolve_method(cls if self.ct.is_subclass(cls, after) else after, f.attr, after=after)
        if ci is None:
            raise Unsupported("super method not found", node)
        con = self.find_contract(ci, f.attr)
        if con is None:
            raise Unsupported("no contract for super method %s.%s" % (ci.name, f.attr), node)
        outs = []
        for (s, recv) in self.ev(tgt, st):
            is_static = any(isinstance(d, ast.Name) and d.id == 'staticmethod' for d in ci.methods[f.attr].decorator_list)
            outs.extend(self.call_contract_node(con, node, s, None if is_static else recv))
        return outs

    # ---- str methods
    def str_method(self, node, st, recv, name):
        outs = []
        for (s, pos, kw) in self.eval_args(node, st):
            sv = Z.sv(recv)
            if name == 'format':
                self.used_assumptions.add('A6')
                args = list(pos) + [kw[k] for k in sorted(kw)]
                args2 = []
                for a in args:
                    s, a = self.materialize(s, a)
                    args2.append(a)
                lit = z3.simplify(sv)
                minlen = None
                if z3.is_string_value(lit):
                    # A6: every '{}' / '{name}' field is replaced by some (possibly empty) text; literal text stays
                    import string as _string
                    try:
                        parts = list(_string.Formatter().parse(lit.as_string()))
                        minlen = sum(len(p[0]) for p in parts)
                    except Exception:
                        minlen = None
                def _fmt(term):
                    return s.assume(z3.Length(term) >= minlen) if minlen else s
                if len(args2) == 0:
                    outs.append((s, recv))
                elif len(args2) == 1:
                    t = Z.FORMAT1(sv, args2[0]); outs.append((_fmt(t), Z.mk_s(t)))
                elif len(args2) == 2:
                    t = Z.FORMAT2(sv, args2[0], args2[1]); outs.append((_fmt(t), Z.mk_s(t)))
                elif len(args2) == 3:
                    t = Z.FORMAT3(sv, args2[0], args2[1], args2[2]); outs.append((_fmt(t), Z.mk_s(t)))
                else:
                    t = Z.fresh('formatted', S); outs.append((_fmt(t), Z.mk_s(t)))
            elif name == 'replace' and len(pos) == 2:
                self.used_assumptions.add('A6')
                s2 = self.guard(s, z3.And(Z.is_s(pos[0]), Z.is_s(pos[1])), 'TypeError', 'replace args')
                if s2 is not None:
                    outs.append((s2, Z.mk_s(Z.STR_REPLACE(sv, Z.sv(pos[0]), Z.sv(pos[1])))))
            elif name == 'lower' and not pos:
                self.used_assumptions.add('A6')
                outs.append((s, Z.mk_s(Z.STR_LOWER(sv))))
            elif name == 'strip' and not pos:
                self.used_assumptions.add('A6')
                outs.append((s, Z.mk_s(Z.STR_STRIP(sv))))
            elif name == 'join' and len(pos) == 1:
                self.used_assumptions.add('A6')
                s, a = self.materialize(s, pos[0])
                outs.append((s, Z.mk_s(Z.STR_JOIN(sv, a))))
            elif name in ('startswith', 'endswith') and len(pos) == 1:
                s2 = self.guard(s, Z.is_s(pos[0]), 'TypeError', name)
                if s2 is not None:
                    fn = z3.PrefixOf if name == 'startswith' else z3.SuffixOf
                    outs.append((s2, Z.mk_b(fn(Z.sv(pos[0]), sv))))
            else:
                raise Unsupported("str method " + name, node)
        return outs

    # ---- list methods
    def list_method(self, node, st, recv, name):
        outs = []
        a = Z.addr(recv)
        for (s, pos, kw) in self.eval_args(node, st):
            h = s.heap
            n = h.len_of(a)
            if name == 'append' and len(pos) == 1:
                s, v = self.materialize(s, pos[0])
                h = s.heap
                h2 = h.set_list(a, z3.Store(h.elems(a), n, v), n + 1)
                outs.append((s.with_heap(h2).assume(n >= 0), Z.NONE))
            elif name == 'pop' and len(pos) == 0:
                s2 = self.guard(s, n > 0, 'IndexError', 'pop from empty list')
                if s2 is not None:
                    v = h.item(a, n - 1)
                    outs.append((s2.with_heap(h.set_list(a, h.elems(a), n - 1)), v))
            elif name == 'pop' and len(pos) == 1 and z3.is_true(z3.simplify(Z.is_i(pos[0]))) and z3.is_int_value(z3.simplify(Z.ival(pos[0]))) \
                    and z3.simplify(Z.ival(pos[0])).as_long() == 0:
                # pop(0): the first item; the rest shifts down
                s2 = self.guard(s, n > 0, 'IndexError', 'pop from empty list')
                if s2 is not None:
                    v = h.item(a, z3.IntVal(0))
                    k = z3.Int('k!pop0')
                    arr = z3.Lambda([k], z3.simplify(z3.Select(h.elems(a), k + 1)))      # (beta-reduces when the list is itself a shifted view)
                    outs.append((s2.with_heap(h.set_list(a, arr, n - 1)), v))
            elif name == 'copy' and not pos:
                h2, r = h.new_list(h.elems(a), n)
                outs.append((s.with_heap(h2), Z.mk_ref(r)))
            elif name == 'reverse' and not pos:
                k = z3.Int('k!rev')
                arr = z3.Lambda([k], z3.Select(h.elems(a), n - 1 - k))
                outs.append((s.with_heap(h.set_list(a, arr, n)), Z.NONE))
            elif name == 'extend' and len(pos) == 1:
                if not self.known(s, self.is_kind(s, pos[0], Z.K_LIST, Z.K_TUPLE)):
                    raise Unsupported("extend with non-list", node)
                ab = Z.addr(pos[0])
                nb = h.len_of(ab)
                k = z3.Int('k!ext')
                arr = z3.Lambda([k], z3.If(k < n, z3.Select(h.elems(a), k), z3.Select(h.elems(ab), k - n)))
                outs.append((s.with_heap(h.set_list(a, arr, n + nb)).assume(n >= 0, nb >= 0), Z.NONE))
            else:
                raise Unsupported("list method " + name, node)
        return outs

    def tuple_method(self, node, st, recv, name):
        raise Unsupported("tuple method " + name, node)

    # ---- dict methods
    def dict_method(self, node, st, recv, name):
        outs = []
        a = Z.addr(recv)
        for (s, pos, kw) in self.eval_args(node, st):
            h = s.heap
            if name == 'get' and 1 <= len(pos) <= 2:
                k = self.nk(pos[0])
                d = pos[1] if len(pos) == 2 else Z.NONE
                s, d = self.materialize(s, d)
                outs.append((s, z3.simplify(z3.If(h.has_key(a, k), h.get(a, k), d))))
            elif name == 'copy' and not pos:
                kk = Z.K_SET if self.known(s, h.kind_of(a) == Z.K_SET) else Z.K_DICT
                h2, r = h.new_dict(h.keys(a), h.vals(a), h.size_of(a), kind=kk)
                outs.append((s.with_heap(h2), Z.mk_ref(r)))
            elif name == 'update' and len(pos) == 1:
                if not self.known(s, self.is_kind(s, pos[0], Z.K_DICT)):
                    raise Unsupported("update with non-dict", node)
                b = Z.addr(pos[0])
                k = z3.Const('k!upd', Val)
                keys = z3.Lambda([k], z3.Or(z3.Select(h.keys(a), k), z3.Select(h.keys(b), k)))
                vals = z3.Lambda([k], z3.If(z3.Select(h.keys(b), k), z3.Select(h.vals(b), k), z3.Select(h.vals(a), k)))
                size = Z.fresh_int('dsize')
                s2 = s.with_heap(h.set_dict(a, keys, vals, size)).assume(size >= h.size_of(a), size >= h.size_of(b),
                                                                         size <= h.size_of(a) + h.size_of(b))
                outs.append((s2, Z.NONE))
            elif name == 'add' and len(pos) == 1:
                outs.append((s.with_heap(h.set_key(a, self.nk(pos[0]), Z.NONE)), Z.NONE))
            else:
                raise Unsupported("dict method " + name, node)
        return outs

    # ------------------------------------------------------------------ built-ins
    def _args1(self, node, st, n=None):
        outs = []
        for (s, pos, kw) in self.eval_args(node, st):
            if n is not None and (len(pos) != n or kw):
                raise Unsupported("arity of builtin " + ast.unparse(node), node)
            outs.append((s, pos, kw))
        return outs

    def bi_len(self, node, st):
        outs = []
        for (s, pos, kw) in self._args1(node, st, 1):
            v = pos[0]
            if isinstance(v, VTuple):
                outs.append((s, Z.mk_i(len(v.items))))
                continue
            h = s.heap
            a = Z.addr(v)
            if self.spec and not z3.is_true(z3.simplify(Z.is_s(v))):
                # specification mode is total: dispatch on the tag inside the term
                k = h.kind_of(a)
                outs.append((s, Z.mk_i(z3.If(Z.is_s(v), z3.Length(Z.sv(v)),
                                             z3.If(z3.Or(k == Z.K_DICT, k == Z.K_SET), h.size_of(a), h.len_of(a))))))
                continue
            if self.known(s, Z.is_s(v)):
                outs.append((s, Z.mk_i(z3.Length(Z.sv(v)))))
            elif self.known(s, self.is_kind(s, v, Z.K_LIST, Z.K_TUPLE)) or self.spec:
                outs.append((s.assume(h.len_of(a) >= 0) if not (self.spec or self.pure) else s, Z.mk_i(h.len_of(a))))
            elif self.known(s, self.is_kind(s, v, Z.K_DICT, Z.K_SET)):
                outs.append((s.assume(h.size_of(a) >= 0), Z.mk_i(h.size_of(a))))
            else:
                # case split on the kind: sized kinds give their length, numbers / None / booleans raise TypeError (as Python does)
                unsized = z3.Or(Z.is_num(v), Z.is_none(v), Z.is_special(v))
                seq = self.is_kind(s, v, Z.K_LIST, Z.K_TUPLE)
                if not self.known(s, z3.Or(unsized, seq)):
                    raise Unsupported("len of value of unknown kind: " + ast.unparse(node), node)
                s_bad = s.assume(unsized)
                if s_bad.feasible():
                    self.throw_new(s_bad, 'TypeError', 'object has no len()')
                s_ok = s.assume(seq)
                if s_ok.feasible():
                    outs.append((s_ok.assume(h.len_of(a) >= 0), Z.mk_i(h.len_of(a))))
        return outs

    def bi_abs(self, node, st):
        outs = []
        for (s, pos, kw) in self._args1(node, st, 1):
            v = self.narrow(s, pos[0], True) if not (self.spec or self.pure) else pos[0]
            s2 = self.guard(s, z3.Or(Z.is_num(v), Z.is_special(v)), 'TypeError', 'abs of non-number')
            if s2 is not None:
                outs.append((s2, z3.simplify(z3.If(Z.is_nan(v), Z.NAN, z3.If(z3.Or(Z.is_pinf(v), Z.is_ninf(v)), Z.PINF,
                                             z3.If(Z.is_intlike(v), Z.mk_i(z3.If(Z.ival(v) < 0, -Z.ival(v), Z.ival(v))),
                                                   Z.mk_r(z3.If(Z.num(v) < 0, -Z.num(v), Z.num(v)))))))))
        return outs

    def bi_float(self, node, st):
        outs = []
        for (s, pos, kw) in self._args1(node, st, 1):
            v = pos[0]
            sv = z3.simplify(v)
            if z3.is_true(z3.simplify(Z.is_s(sv))):
                lit = z3.simplify(Z.sv(sv))
                if z3.is_string_value(lit):
                    t = lit.as_string().strip().lower()
                    if t in ('inf', '+inf', 'infinity'):
                        outs.append((s, Z.PINF)); continue
                    if t in ('-inf', '-infinity'):
                        outs.append((s, Z.NINF)); continue
                    if t == 'nan':
                        outs.append((s, Z.NAN)); continue
                raise Unsupported("float() of symbolic string", node)
            s2 = self.guard(s, z3.Or(Z.is_num(v), Z.is_special(v)), 'TypeError', 'float() of non-number')
            if s2 is not None:
                self.used_assumptions.add('A1')
                outs.append((s2, z3.simplify(z3.If(Z.is_special(v), v, Z.mk_r(Z.num(v))))))
        return outs

    def bi_int(self, node, st):
        outs = []
        for (s, pos, kw) in self._args1(node, st, 1):
            v = pos[0]
            s2 = self.guard(s, Z.is_num(v), 'TypeError', 'int() of non-number')
            if s2 is not None:
                x = Z.num(v)
                trunc = z3.If(x >= 0, z3.ToInt(x), -z3.ToInt(-x))
                outs.append((s2, z3.simplify(z3.If(Z.is_intlike(v), Z.mk_i(Z.ival(v)), Z.mk_i(trunc)))))
        return outs

    def bi_bool(self, node, st):
        return [(s, Z.mk_b(self.truth(s, pos[0]))) for (s, pos, kw) in self._args1(node, st, 1)]

    def bi_str(self, node, st):
        outs = []
        for (s, pos, kw) in self._args1(node, st, 1):
            s, v = self.materialize(s, pos[0])
            isexc = None
            if self.known(s, Z.is_s(v)):
                outs.append((s, v))
            elif self.known(s, self.is_kind(s, v, Z.K_OBJ)) and self.known(s, s.heap.has_key(Z.addr(v), Z.mk_s('__msg__'))):
                # str(exception) is its message (single-argument construction; checked over the class table)
                m = s.heap.get(Z.addr(v), Z.mk_s('__msg__'))
                outs.append((s, z3.If(Z.is_s(m), m, Z.mk_s(Z.STR_OF(m)))))
            else:
                self.used_assumptions.add('A6')
                outs.append((s, Z.mk_s(Z.STR_OF(v))))
        return outs

    def bi_type(self, node, st):
        outs = []
        for (s, pos, kw) in self._args1(node, st, 1):
            s, v = self.materialize(s, pos[0])
            outs.append((s, Z.TYPE_STR(v)))
        return outs

    def bi_round(self, node, st):
        outs = []
        for (s, pos, kw) in self._args1(node, st):
            if len(pos) != 2:
                raise Unsupported("round() with one argument", node)
            nd = z3.simplify(pos[1])
            if not (nd.decl().name() == 'i' and z3.is_int_value(nd.arg(0)) and nd.arg(0).as_long() == 4):
                raise Unsupported("round(x, n) with n != 4", node)
            v = pos[0]
            s2 = self.guard(s, Z.is_num(v), 'TypeError', 'round of non-number')
            if s2 is None:
                continue
            # round(int, 4) is the int itself
            x = Z.num(v)
            t = Z.round4(x)
            s3 = self.add_round_axioms(s2, x, t)
            outs.append((s3, z3.simplify(z3.If(Z.is_intlike(v), Z.mk_i(Z.ival(v)), Z.mk_r(t)))))
        return outs

    def bi_isinstance(self, node, st):
        outs = []
        if len(node.args) != 2:
            raise Unsupported("isinstance arity", node)
        for (s, v) in self.ev(node.args[0], st):
            outs.append((s, Z.mk_b(self.isinstance_pred(s, v, node.args[1], node))))
        return outs

    def isinstance_pred(self, st, v, tnode, node):
        if isinstance(tnode, ast.Tuple):
            return z3.Or([self.isinstance_pred(st, v, t, node) for t in tnode.elts])
        if isinstance(v, VTuple):
            name = ast.unparse(tnode)
            return z3.BoolVal(name == 'tuple')
        name = ast.unparse(tnode)
        h = st.heap
        a = Z.addr(v)
        if name == 'str':
            return Z.is_s(v)
        if name == 'list':
            return self.is_kind(st, v, Z.K_LIST)
        if name == 'tuple':
            return self.is_kind(st, v, Z.K_TUPLE)
        if name == 'dict':
            return self.is_kind(st, v, Z.K_DICT)
        if name == 'set':
            return self.is_kind(st, v, Z.K_SET)
        if name == 'bool':
            return Z.is_b(v)
        if name == 'int':
            return Z.is_intlike(v)
        if name == 'float':
            return Z.is_floatlike(v)
        if name == 'complex':
            # complex numbers are outside the value model (evidence: assumption NOCOMPLEX)
            self.used_assumptions.add('NOCOMPLEX')
            return z3.BoolVal(False)
        if name in ('numbers.Number', 'Number'):
            # complex numbers are not modelled (noted in evidence)
            return z3.Or(Z.is_num(v), Z.is_special(v))
        if name in self.ct.classes:
            return z3.And(self.is_kind(st, v, Z.K_OBJ), self.is_sub(h.class_of(a), name))
        raise Unsupported("isinstance against " + name, node)

    def bi_max(self, node, st):
        return self._minmax(node, st, True)

    def bi_min(self, node, st):
        return self._minmax(node, st, False)

    def _minmax(self, node, st, is_max):
        kwn = {k.arg: k.value for k in node.keywords}
        if len(node.args) >= 2 and not kwn:
            outs = []
            for (s, pos, kw) in self.eval_args(node, st):
                ok = z3.And([self.orderable(pos[0], p) for p in pos[1:]]) if len(pos) > 1 else z3.BoolVal(True)
                s2 = self.guard(s, ok, 'TypeError', 'min/max of unorderable')
                if s2 is None:
                    continue
                best = pos[0]
                for p in pos[1:]:
                    better = self.lt(best, p, True) if is_max else self.lt(p, best, True)
                    best = z3.If(better, p, best)
                outs.append((s2, z3.simplify(best)))
            return outs
        if len(node.args) == 1:
            outs = []
            for (s, view) in self.iter_view(node.args[0], st):
                n = view.n
                s2 = self.guard(s, n > 0, 'ValueError', 'max/min of empty sequence')
                if s2 is None:
                    continue
                s2 = s2.assume(*view.facts)
                kstar = Z.fresh_int('kstar')
                j = z3.Int('j!mm')
                if 'key' in kwn:
                    keyfn = self.ev1_closure(kwn['key'], s2)
                    keyof = lambda idx: self.apply_closure_pure(keyfn, [self._view_val(view, idx)],
                                                                s2.assume(idx >= 0, idx < n), node)
                else:
                    keyof = lambda idx: self._view_val(view, idx)
                kj, ks = keyof(j), keyof(kstar)
                # all keys orderable
                okq = z3.ForAll([j], z3.Implies(z3.And(j >= 0, j < n), self.orderable(kj, kj)))
                if not self.known(s2, okq):
                    s2 = self.guard(s2, okq, 'TypeError', 'max/min over unorderable elements')
                    if s2 is None:
                        continue
                if is_max:
                    dom = z3.ForAll([j], z3.Implies(z3.And(j >= 0, j < n), self.lt(kj, ks, False)))
                    first = z3.ForAll([j], z3.Implies(z3.And(j >= 0, j < kstar), self.lt(kj, ks, True)))
                else:
                    dom = z3.ForAll([j], z3.Implies(z3.And(j >= 0, j < n), self.lt(ks, kj, False)))
                    first = z3.ForAll([j], z3.Implies(z3.And(j >= 0, j < kstar), self.lt(ks, kj, True)))
                s3 = s2.assume(kstar >= 0, kstar < n, dom, first)
                outs.append((s3, self._view_val(view, kstar)))
            return outs
        raise Unsupported("min/max form", node)

    def _view_val(self, view, idx):
        v = view.get(idx)
        if isinstance(v, VTuple):
            raise Unsupported("aggregate over tuple-valued iteration")
        return v

    def ev1_closure(self, node, st):
        outs = self.ev(node, st)
        if len(outs) != 1 or not isinstance(outs[0][1], Closure):
            raise Unsupported("expected a lambda/closure", node)
        return outs[0][1]

    def apply_closure_pure(self, clo, args, st, node):
        """evaluate a lambda on symbolic (possibly bound) arguments without forking"""
        fn = clo.node
        if not isinstance(fn, ast.Lambda):
            raise Unsupported("only lambdas can be applied in pure context", node)
        env = dict(clo.env)
        for p, v in zip([a.arg for a in fn.args.args], args):
            env[p] = v
        inner = st.clone(env=env)
        self.pure += 1
        try:
            return self.ev1(fn.body, inner)
        finally:
            self.pure -= 1

    def bi_sum(self, node, st):
        outs = []
        if len(node.args) != 1:
            raise Unsupported("sum with start value", node)
        for (s, view) in self.iter_view(node.args[0], st):
            arr = self.view_array(s, view)
            j = z3.Int('j!sum')
            allnum = z3.ForAll([j], z3.Implies(z3.And(j >= 0, j < view.n), Z.is_num(z3.Select(arr, j))))
            s2 = s.assume(*view.facts)
            if not self.known(s2, allnum):
                s2 = self.guard(s2, allnum, 'TypeError', 'sum over non-numbers')
                if s2 is None:
                    continue
            self.used_assumptions.add('SUM-real')
            s2 = s2.with_meta(sums=list(s2.meta.get('sums', [])) + [(arr, view.n)])
            outs.append((s2, Z.mk_r(Z.SUMR(arr, view.n))))
        return outs

    def view_array(self, st, view):
        k = z3.Int('k!va')
        v = view.get(k)
        if isinstance(v, VTuple):
            raise Unsupported("array of tuple-valued iteration")
        return z3.Lambda([k], v)

    def bi_all(self, node, st):
        return self._allany(node, st, True)

    def bi_any(self, node, st):
        return self._allany(node, st, False)

    def _allany(self, node, st, is_all):
        outs = []
        for (s, view) in self.iter_view(node.args[0], st):
            j = z3.Int('j!aa')
            t = self.truth(s, self._view_val(view, j))
            rng = z3.And(j >= 0, j < view.n)
            q = z3.ForAll([j], z3.Implies(rng, t)) if is_all else z3.Exists([j], z3.And(rng, t))
            outs.append((s.assume(*view.facts), Z.mk_b(q)))
        return outs

    def bi_list(self, node, st):
        return self._to_seq(node, st, Z.K_LIST)

    def bi_tuple(self, node, st):
        return self._to_seq(node, st, Z.K_TUPLE)

    def _to_seq(self, node, st, kind):
        outs = []
        if not node.args:
            h2, a = st.heap.new_list(z3.K(I, Z.NONE), z3.IntVal(0), kind=kind)
            return [(st.with_heap(h2), Z.mk_ref(a))]
        for (s, view) in self.iter_view(node.args[0], st):
            s = s.assume(*view.facts)
            k = z3.Int('k!ts')
            v = view.get(k)
            if isinstance(v, VTuple):
                raise Unsupported("list() of tuple-valued iteration", node)
            h2, a = s.heap.new_list(z3.Lambda([k], v), view.n, kind=kind)
            outs.append((s.with_heap(h2), Z.mk_ref(a)))
        return outs

    def bi_dict(self, node, st):
        if len(node.args) == 1 and not node.keywords:
            outs = []
            for (s, d) in self.ev(node.args[0], st):
                if not self.known(s, self.is_kind(s, d, Z.K_DICT)):
                    raise Unsupported("dict(x) of a non-dict", node)
                a = Z.addr(d)
                h2, r = s.heap.new_dict(s.heap.keys(a), s.heap.vals(a), s.heap.size_of(a))
                outs.append((s.with_heap(h2), Z.mk_ref(r)))
            return outs
        if node.args or node.keywords:
            raise Unsupported("dict(...) with arguments", node)
        h2, a = st.heap.new_dict(empty_keys(), z3.K(Val, Z.NONE), z3.IntVal(0))
        return [(st.with_heap(h2), Z.mk_ref(a))]

    def bi_defaultdict(self, node, st):
        """collections.defaultdict(int): a dict whose missing keys read as 0 (and are inserted on read)"""
        if not (len(node.args) == 1 and isinstance(node.args[0], ast.Name) and node.args[0].id == 'int' and not node.keywords):
            raise Unsupported("defaultdict with a factory other than int", node)
        h2, a = st.heap.new_dict(empty_keys(), z3.K(Val, Z.NONE), z3.IntVal(0))
        self.ddicts.add(z3.simplify(a).sexpr())
        return [(st.with_heap(h2), Z.mk_ref(a))]

    def bi_set(self, node, st):
        if node.args:
            raise Unsupported("set(...) with arguments", node)
        h2, a = st.heap.new_dict(empty_keys(), z3.K(Val, Z.NONE), z3.IntVal(0), kind=Z.K_SET)
        return [(st.with_heap(h2), Z.mk_ref(a))]

    def bi_callable(self, node, st):
        return [(s, Z.mk_b(z3.Or(Z.is_fn(pos[0]), Z.is_cls(pos[0])))) for (s, pos, kw) in self._args1(node, st, 1)]

    # ------------------------------------------------------------------ calls by contract
    def bind_params(self, con, fsrc_node, recv, pos, kw, st, node):
        """map parameter names of the callee to argument values"""
        args = fsrc_node.args
        params = [a.arg for a in args.args]
        env = {}
        is_static = any(isinstance(d, ast.Name) and d.id in ('staticmethod',) for d in fsrc_node.decorator_list)
        is_cm = any(isinstance(d, ast.Name) and d.id == 'classmethod' for d in fsrc_node.decorator_list)
        if recv is not None and not is_static and params:
            env[params[0]] = recv
            params = params[1:]
        elif is_cm and params:
            params = params[1:]
        elif not is_static and recv is None and params and params[0] == 'self':
            raise Unsupported("method contract called without receiver", node)
        for p, v in zip(params, pos):
            env[p] = v
        if len(pos) > len(params):
            raise Unsupported("too many positional args in call by contract", node)
        for k, v in kw.items():
            if k in params:
                env[k] = v
            elif args.kwarg is None:
                raise Unsupported("unknown keyword %s" % k, node)
        ndef = len(args.defaults)
        for p, d in zip([a.arg for a in args.args][len(args.args) - ndef:], args.defaults):
            if p not in env:
                env[p] = self.ev1(d, State0)
        for p in params:
            if p not in env:
                raise Unsupported("missing argument %s in call %s" % (p, ast.unparse(node)), node)
        return env

    def call_contract_node(self, con, node, st, recv):
        from . import source as SRC
        if con.inline:
            return self.call_inline(con, node, st, recv)
        fs = SRC.find_function(con.ident)
        outs = []
        for (s, pos, kw) in self.eval_args(node, st):
            pos2 = []
            for p in pos:
                s, p = self.materialize(s, p)
                pos2.append(p)
            kw2 = {}
            for k, v in kw.items():
                s, v = self.materialize(s, v)
                kw2[k] = v
            env = self.bind_params(con, fs.node, recv, pos2, kw2, s, node)
            outs.extend(self.apply_contract(con, env, s, node, [a.arg for a in fs.node.args.args]))
        return outs

    def call_inline(self, con, node, st, recv):
        from . import source as SRC
        fs = SRC.find_function(con.ident)
        outs = []
        for (s, pos, kw) in self.eval_args(node, st):
            env = self.bind_params(con, fs.node, recv, pos, kw, s, node)
            inner = s.clone(env=env)
            fr = self.push_frame(**{'return': True})
            saved = dict(self.static_cls)
            if recv is not None:
                self.static_cls['self'] = con.self_class
            try:
                normal = self.ex(fs.body(), inner)
            finally:
                self.pop_frame()
                self.static_cls = saved
            for s2 in normal:
                outs.append((s2.clone(env=s.env), Z.NONE))
            for (s2, v) in fr['return']:
                outs.append((s2.clone(env=s.env), v))
        return outs

    def call_by_text(self, node, st, txt):
        spec = self.c.callees[txt]
        con = api.Contract("callee::" + txt, **{k: v for k, v in spec.items() if k not in ('params',)})
        params = spec.get('params')
        outs = []
        # evaluate the callee expression itself only when it is not a plain method name (it may have effects)
        for (s, pos, kw) in self.eval_args(node, st):
            names = params if params is not None else ['arg%d' % k for k in range(len(pos))]
            env = {}
            for nme, v in zip(names, pos):
                s, v = self.materialize(s, v)
                env[nme] = v
            for k, v in kw.items():
                s, v = self.materialize(s, v)
                env[k] = v
            # the caller's locals are visible to a call-site contract (unless shadowed by a parameter name):
            # it may say "the result depends on the caller's `answer` and `entry`"
            for kk, vv in s.env.items():
                if kk not in env and kk != 'result' and not isinstance(vv, Closure):
                    env[kk] = vv      # (`result` always names the callee's return value)
            outs.extend(self.apply_contract(con, env, s, node, names))
        return outs

    def spec_eval(self, clause, st, env=None, result=None, old=None):
        """translate a spec clause (string) to a z3 Bool in the given state"""
        tree = clause if isinstance(clause, ast.AST) else ast.parse(clause.strip(), mode='eval').body
        s = st
        if env is not None:
            s = s.clone(env=env)
        if result is not None:
            s = s.with_meta(result=result)
        if old is not None:
            s = s.clone(old_heap=old[0], old_env=old[1])
        self.spec += 1
        try:
            v = self.ev1(tree, s)
        finally:
            self.spec -= 1
        return self.truth(s, v)

    def modset(self, mods, st, env):
        """denotation of a modifies clause in state st: (list of (ref Val, guard), list of (arr, n, list Val, guard)).
        An entry may be guarded: "elems(L) if cond else nothing"."""
        refs, sets = [], []
        for m in (mods or []):
            tree = ast.parse(m.strip(), mode='eval').body
            guard = z3.BoolVal(True)
            if isinstance(tree, ast.IfExp):
                self.spec += 1
                try:
                    guard = self.truth(st, self.ev1(tree.test, st.clone(env=env)))
                finally:
                    self.spec -= 1
                tree = tree.body
            if isinstance(tree, ast.Constant) and tree.value in ('nothing', None):
                continue
            self.spec += 1
            try:
                if isinstance(tree, ast.Call) and isinstance(tree.func, ast.Name) and tree.func.id == 'elems':
                    lst = self.ev1(tree.args[0], st.clone(env=env))
                    la = Z.addr(lst)
                    sets.append((st.heap.elems(la), st.heap.len_of(la), lst, guard))
                else:
                    refs.append((self.ev1(tree, st.clone(env=env)), guard))
            finally:
                self.spec -= 1
        return refs, sets

    def modset_pred(self, mods, st, env):
        """membership predicate (Python function Int term -> Bool) of a modifies clause evaluated in st:
        a in elems(L)  <=>  exists j in [0,n). is_ref(L[j]) and addr(L[j]) = a.
        (In the frame axioms this occurs negatively; E-matching handles it by skolemising the witness.
        A ghost inverse-index formulation was tried and dropped: idx(a) terms re-trigger every
        index-quantified invariant and give matching loops -- measured 20k instantiations.)"""
        refs, sets = self.modset(mods, st, env)

        def inmod(a):
            parts = [z3.And(g, Z.is_ref(v), Z.addr(v) == a) for (v, g) in refs]
            for (arr, n, lst, g) in sets:
                j = z3.Int('j!mod')
                e = z3.Select(arr, j)
                parts.append(z3.And(g, Z.is_ref(lst), z3.Exists([j], z3.And(j >= 0, j < n, Z.is_ref(e), Z.addr(e) == a))))
            return z3.Or(parts) if parts else z3.BoolVal(False)
        inmod.facts = []
        inmod.obligations = []
        return inmod

    def havoc_heap(self, st, mods, env):
        """heap after an unknown computation that may write only the objects in `mods` (and allocate):
        finite modifies sets -> point updates with fresh contents; element sets -> fresh arrays + frame axiom"""
        h = st.heap
        refs, sets = self.modset(mods, st, env)
        new_alloc = Z.fresh_int('alloc')
        facts = [new_alloc >= h.alloc]
        if not sets:
            upd = {}
            hf = Heap.fresh('Hc')
            isref = {k: (z3.is_true(z3.simplify(g)) and self.known(st, Z.is_ref(v))) for k, (v, g) in enumerate(refs)}
            for f in FIELDS:
                arr = getattr(h, f)
                for k, (v, g) in enumerate(refs):
                    if f in ('kind', 'klass'):
                        continue        # objects do not change kind or class
                    a = Z.addr(v)
                    upd_arr = z3.Store(arr, a, z3.Select(getattr(hf, f), a))
                    arr = upd_arr if isref[k] else z3.If(z3.And(g, Z.is_ref(v)), upd_arr, arr)
                upd[f] = arr
            upd['alloc'] = new_alloc
            return Heap(**upd), facts
        hf = Heap.fresh('Hc')
        inmod = self.modset_pred(mods, st, env)
        for ob in inmod.obligations:
            self.add_vc('callee-pre', 'objects in a modified element set are pairwise distinct', st, ob, clause=str(mods))
        facts += inmod.facts
        a = z3.Int('a!hv')
        for f in FIELDS:
            new, oldf = getattr(hf, f), getattr(h, f)
            keep = z3.And(a >= 0, a < h.alloc, z3.Not(inmod(a))) if f not in ('kind', 'klass') else z3.And(a >= 0, a < h.alloc)
            facts.append(Z.forall([a], z3.Implies(keep, z3.Select(new, a) == z3.Select(oldf, a)),
                                   patterns=[z3.Select(new, a)], qid='frame_' + f))
        upd = {f: getattr(hf, f) for f in FIELDS}
        upd['alloc'] = new_alloc
        return Heap(**upd), facts

    def apply_contract(self, con, env, st, node, order=None):
        """call by contract: check requires, havoc modifies, assume ensures; fork exsures"""
        outs = []
        label = con.ident.split('::')[-1]
        # 1. preconditions are obligations of the caller
        for k, cl in enumerate(con.requires):
            phi = self.spec_eval(cl, st, env=env)
            self.add_vc('callee-pre', "call %s requires[%d]" % (label, k), st, phi, clause=cl, node=node)
            st = st.assume(phi)
        # ghost names of the callee's contract (defined over its pre-state)
        if con.ghost:
            env = dict(env)
            for gname, gexpr in con.ghost.items():
                gtree = ast.parse(gexpr.strip(), mode='eval').body
                self.spec += 1
                try:
                    env[gname] = self.ev1(gtree, st.clone(env=env))
                finally:
                    self.spec -= 1
        # 2. heap effect
        if con.pure:
            h2, facts = st.heap, []
        else:
            h2, facts = self.havoc_heap(st, con.modifies, env)
        # 3. result
        if con.fn:
            args = [env[p] for p in (order or sorted(env)) if p in env and p != 'self']
            f = z3.Function(con.fn, *([Val] * len(args) + [Val]))
            res = f(*args) if args else z3.Const(con.fn, Val)
        else:
            res = Z.fresh_val('ret_' + label.replace('.', '_'))
        post = st.with_heap(h2).assume(*facts)
        old = (st.heap, env)
        ens = []
        for cl in con.ensures:
            ens.append(self.spec_eval(cl, post, env=env, result=res, old=old))
        normal = post.assume(*ens) if ens else post
        # vacuity guard: assuming a callee's postcondition must not make a live path contradictory
        if ens and not (self.pure or self.spec) and not (len(con.ensures) == 1 and con.ensures[0].strip() == 'False'):
            if normal.check() == z3.unsat and st.check() != z3.unsat:
                raise Unsupported("postcondition of callee %s contradicts the state at the call (contract error)" % label, node)
        if not (len(con.ensures) == 1 and con.ensures[0].strip() == 'False'):
            outs.append((normal.clone(env=st.env), res))
        # 4. exceptional exits
        for cls, cond in con.exsures.items():
            names = [c.strip() for c in cls.split(',')]
            for nm in names:
                c = Z.fresh_int('exc_cls')
                base = 'Exception' if nm == '*' else nm
                s_ex = post.assume(self.is_sub(c, base), c >= 1)
                conds = cond if isinstance(cond, (list, tuple)) else [cond]
                s_ex2, e = self.new_exception(s_ex.clone(env=st.env), None, cid_term=c)
                for cd in conds:
                    if cd and cd != 'True':
                        s_ex2 = s_ex2.assume(self.spec_eval(cd, s_ex2, env=dict(env, exc=e), old=old))
                if not (self.pure or self.spec):
                    self.throw(s_ex2.note("callee %s raised %s" % (label, nm)), e)
        return outs

    def add_vc(self, kind, name, st, goal, clause='', node=None, note=''):
        line = getattr(node, 'lineno', None)
        self.vcs.append(VC(name=name, kind=kind, pc=list(st.pc) + self.round_facts() + self.mul_facts() + list(self.extra_facts), goal=goal, path=self.path_counter,
                           note=note or (("line %s" % line) if line else ''), clause=clause, state=st))

    # ------------------------------------------------------------------ spec builtins (spec mode only)
    def inline_spec(self, node, st):
        params, body, _fn = api.SPEC_FUNCS[node.func.id]
        args = [self.ev1(a, st) for a in node.args]
        env = dict(st.env)
        for p, v in zip(params, args):
            env[p] = v
        was = self.spec
        self.spec += 1
        try:
            return self.ev1(body, st.clone(env=env))
        finally:
            self.spec = was

    def _sargs(self, node, st):
        return [self.ev1(a, st) for a in node.args]

    def spec_old(self, node, st):
        if st.old_heap is None:
            raise Unsupported("old() outside postcondition", node)
        env = dict(st.old_env) if st.old_env is not None else dict(st.env)
        for k, v in st.env.items():
            if k not in env:
                env[k] = v          # bound variables of enclosing quantifiers, ghost names
        s = st.clone(heap=st.old_heap, env=env)
        return self.ev1(node.args[0], s)

    def spec_pre(self, node, st):
        """pre(e): value of e at loop entry (inside loop invariants)"""
        lp = st.meta.get('loop_pre')
        if lp is None:
            raise Unsupported("pre() outside a loop invariant", node)
        env = dict(lp[1])
        for k, v in st.env.items():
            if k not in env:
                env[k] = v
        return self.ev1(node.args[0], st.clone(heap=lp[0], env=env))

    def spec_implies(self, node, st):
        a, b = node.args
        pa = self.truth(st, self.ev1(a, st))
        self.ctx.append(pa)
        pb = self.truth(st, self.ev1(b, st))
        self.ctx.pop()
        return Z.mk_b(z3.Implies(pa, pb))

    def spec_iff(self, node, st):
        a, b = self._sargs(node, st)
        return Z.mk_b(self.truth(st, a) == self.truth(st, b))

    def _quant(self, node, st, is_all):
        rng, lam = node.args
        if not isinstance(lam, ast.Lambda):
            raise Unsupported("forall/exists needs a lambda", node)
        names = [a.arg for a in lam.args.args]
        bound = [z3.Int('q!' + nme + '!' + str(node.lineno) + '_' + str(node.col_offset) + '_' + str(self.spec)) for nme in names]
        env = dict(st.env)
        # range forms: range(n) / range(a, b) / ints() / keys(d)
        if isinstance(rng, ast.Call) and isinstance(rng.func, ast.Name) and rng.func.id == 'range':
            ra = [self.ev1(a, st) for a in rng.args]
            lo, hi = (z3.IntVal(0), Z.ival(ra[0])) if len(ra) == 1 else (Z.ival(ra[0]), Z.ival(ra[1]))
            dom = z3.And([z3.And(b >= lo, b < hi) for b in bound])
            for nme, b in zip(names, bound):
                env[nme] = Z.mk_i(b)
        elif isinstance(rng, ast.Call) and isinstance(rng.func, ast.Name) and rng.func.id == 'ints':
            dom = z3.BoolVal(True)
            for nme, b in zip(names, bound):
                env[nme] = Z.mk_i(b)
        elif isinstance(rng, ast.Call) and isinstance(rng.func, ast.Name) and rng.func.id == 'reals':
            bound = [z3.Real('q!' + nme + '!' + str(node.lineno) + '_' + str(node.col_offset)) for nme in names]
            dom = z3.BoolVal(True)
            for nme, b in zip(names, bound):
                env[nme] = Z.mk_r(b)
        elif isinstance(rng, ast.Call) and isinstance(rng.func, ast.Name) and rng.func.id == 'vals':
            bound = [z3.Const('q!' + nme + '!' + str(node.lineno) + '_' + str(node.col_offset), Val) for nme in names]
            dom = z3.BoolVal(True)
            for nme, b in zip(names, bound):
                env[nme] = b
        elif isinstance(rng, ast.Call) and isinstance(rng.func, ast.Name) and rng.func.id == 'keys':
            d = self.ev1(rng.args[0], st)
            bound = [z3.Const('q!' + nme + '!' + str(node.lineno) + '_' + str(node.col_offset), Val) for nme in names]
            dom = z3.And([st.heap.has_key(Z.addr(d), b) for b in bound])
            for nme, b in zip(names, bound):
                env[nme] = b
        else:
            raise Unsupported("quantifier range " + ast.unparse(rng), node)
        body = self.truth(st, self.ev1(lam.body, st.clone(env=env)))
        if is_all:
            return Z.mk_b(z3.ForAll(bound, z3.Implies(dom, body), qid='spec_%s_%s' % ('_'.join(names), ''.join(ch if ch.isalnum() else '_' for ch in ast.unparse(lam.body)[:50]))))
        return Z.mk_b(z3.Exists(bound, z3.And(dom, body)))

    def spec_forall(self, node, st):
        return self._quant(node, st, True)

    def spec_exists(self, node, st):
        return self._quant(node, st, False)

    def spec_is_number(self, node, st):
        (v,) = self._sargs(node, st)
        return Z.mk_b(Z.is_num(v))

    def spec_is_real(self, node, st):
        (v,) = self._sargs(node, st)
        return Z.mk_b(Z.is_r(v))

    def spec_is_int(self, node, st):
        (v,) = self._sargs(node, st)
        return Z.mk_b(Z.is_i(v))

    def spec_is_intlike(self, node, st):
        (v,) = self._sargs(node, st)
        return Z.mk_b(Z.is_intlike(v))

    def spec_is_bool(self, node, st):
        (v,) = self._sargs(node, st)
        return Z.mk_b(Z.is_b(v))

    def spec_is_str(self, node, st):
        (v,) = self._sargs(node, st)
        return Z.mk_b(Z.is_s(v))

    def spec_is_none(self, node, st):
        (v,) = self._sargs(node, st)
        return Z.mk_b(Z.is_none(v))

    def spec_is_inf(self, node, st):
        (v,) = self._sargs(node, st)
        return Z.mk_b(z3.Or(Z.is_pinf(v), Z.is_ninf(v)))

    def spec_is_nan(self, node, st):
        (v,) = self._sargs(node, st)
        return Z.mk_b(Z.is_nan(v))

    def spec_is_pinf(self, node, st):
        (v,) = self._sargs(node, st)
        return Z.mk_b(Z.is_pinf(v))

    def spec_is_ninf(self, node, st):
        (v,) = self._sargs(node, st)
        return Z.mk_b(Z.is_ninf(v))

    def spec_is_callable(self, node, st):
        (v,) = self._sargs(node, st)
        return Z.mk_b(Z.is_fn(v))

    def _kindp(self, node, st, *kinds):
        (v,) = self._sargs(node, st)
        return Z.mk_b(self.is_kind(st, v, *kinds))

    def spec_is_list(self, node, st): return self._kindp(node, st, Z.K_LIST)
    def spec_is_tuple(self, node, st): return self._kindp(node, st, Z.K_TUPLE)
    def spec_is_seq(self, node, st): return self._kindp(node, st, Z.K_LIST, Z.K_TUPLE)
    def spec_is_dict(self, node, st): return self._kindp(node, st, Z.K_DICT)
    def spec_is_set(self, node, st): return self._kindp(node, st, Z.K_SET)
    def spec_is_object(self, node, st): return self._kindp(node, st, Z.K_OBJ)

    def spec_is_instance(self, node, st):
        v = self.ev1(node.args[0], st)
        return Z.mk_b(self.isinstance_pred(st, v, node.args[1], node))

    def spec_has_keys(self, node, st):
        """has_keys(d, 'a', 'b'): keys present"""
        d = self.ev1(node.args[0], st)
        ks = [self.nk(self.ev1(a, st)) for a in node.args[1:]]
        return Z.mk_b(z3.And([st.heap.has_key(Z.addr(d), k) for k in ks]))

    def spec_keys_exactly(self, node, st):
        """keys_exactly(d, 'a', 'b'): key set is exactly these"""
        d = self.ev1(node.args[0], st)
        ks = [self.nk(self.ev1(a, st)) for a in node.args[1:]]
        kq = z3.Const('k!ke', Val)
        keys = st.heap.keys(Z.addr(d))
        return Z.mk_b(z3.ForAll([kq], z3.Select(keys, kq) == z3.Or([kq == x for x in ks])))

    def spec_keys_subset(self, node, st):
        d = self.ev1(node.args[0], st)
        ks = [self.nk(self.ev1(a, st)) for a in node.args[1:]]
        k = z3.Const('k!ks', Val)
        return Z.mk_b(z3.ForAll([k], z3.Implies(st.heap.has_key(Z.addr(d), k), z3.Or([k == x for x in ks]))))

    def spec_keys(self, node, st):
        """keys(d): the key set of d as a spec-level value (only for == comparisons)"""
        (d,) = self._sargs(node, st)
        return st.heap.keys(Z.addr(d))

    def spec_fresh(self, node, st):
        (v,) = self._sargs(node, st)
        if st.old_heap is None:
            raise Unsupported("fresh() outside postcondition", node)
        return Z.mk_b(z3.And(Z.is_ref(v), Z.addr(v) >= st.old_heap.alloc, Z.addr(v) < st.heap.alloc))

    def spec_allocated(self, node, st):
        (v,) = self._sargs(node, st)
        return Z.mk_b(z3.And(Z.is_ref(v), Z.addr(v) >= 0, Z.addr(v) < st.heap.alloc))

    def spec_unchanged(self, node, st):
        """unchanged(x): the object x refers to has the same contents as in the pre-state (shallow)"""
        (v,) = self._sargs(node, st)
        return Z.mk_b(st.heap.same_at(st.old_heap, Z.addr(v)))

    def spec_same(self, node, st):
        a, b = self._sargs(node, st)
        return Z.mk_b(a == b)

    def spec_round4(self, node, st):
        (v,) = self._sargs(node, st)
        t = Z.round4(Z.num(v))
        self.note_round(Z.num(v), t)
        return Z.mk_r(t)

    def spec_has_attr(self, node, st):
        o = self.ev1(node.args[0], st)
        return Z.mk_b(z3.And([st.heap.has_key(Z.addr(o), Z.mk_s(a.value)) for a in node.args[1:]]))

    def spec_num(self, node, st):
        (v,) = self._sargs(node, st)
        return Z.mk_r(Z.num(v))

    def spec_int_pow(self, node, st):
        a, b = self._sargs(node, st)
        t = Z.PW(Z.num(a), Z.ival(b))
        self.pow_terms.append((Z.num(a), Z.ival(b), t))
        return Z.mk_r(t)

    def spec_real_pow(self, node, st):
        a, b = self._sargs(node, st)
        return Z.mk_r(Z.POW(Z.num(a), Z.num(b)))

    def spec_spec_sum(self, node, st):
        """spec_sum(L): sum of the numeric items of list L; spec_sum(L, n): of its first n items"""
        args = self._sargs(node, st)
        a = Z.addr(args[0])
        n = st.heap.len_of(a) if len(args) == 1 else Z.ival(args[1])
        self.sum_terms.append((st.heap.elems(a), n))
        return Z.mk_r(Z.SUMR(st.heap.elems(a), n))

    def spec_sum_over(self, node, st):
        """sum_over(n, lambda i: e) = sum_{0 <= i < n} num(e(i))"""
        n = Z.ival(self.ev1(node.args[0], st))
        lam = node.args[1]
        k = z3.Int('k!so_%d_%d' % (node.lineno, node.col_offset))
        env = dict(st.env)
        env[lam.args.args[0].arg] = Z.mk_i(k)
        body = self.ev1(lam.body, st.clone(env=env))
        arr = z3.Lambda([k], body)
        self.sum_terms.append((arr, n))
        return Z.mk_r(Z.SUMR(arr, n))

    def spec_range_sum(self, node, st):
        """range_sum('F', first, count, step) = sum_{k<count} num(F(first + k*step)) for the uninterpreted F"""
        name = node.args[0].value
        first, count, step = [Z.ival(self.ev1(a, st)) for a in node.args[1:4]]
        f = z3.Function(name, Val, Val)
        k = z3.Int('k!rs')
        arr = z3.Lambda([k], f(Z.mk_i(first + k * step)))
        self.sum_terms.append((arr, count))
        return Z.mk_r(Z.SUMR(arr, count))

    def spec_count_failures(self, node, st):
        """count_failures(results, k) = #{i < k : results[i]['ok'] is not True (by ==)}: uninterpreted CNT with its recurrence instantiated"""
        xs = self.ev1(node.args[0], st)
        k = Z.ival(self.ev1(node.args[1], st))
        h = st.heap
        arr = h.elems(Z.addr(xs))
        CNT = z3.Function('CNT_fail', Val, I, I)
        okv = lambda idx: z3.Select(z3.Select(st.old_heap.dv if st.old_heap is not None else h.dv, Z.addr(z3.Select(arr, idx))), Z.mk_s('ok'))
        bad = lambda idx: z3.Not(z3.And(Z.is_num(okv(idx)), Z.num(okv(idx)) == 1))
        if 'q!' not in k.sexpr():
            i = z3.Int('i!cnt')
            self.extra_facts += [CNT(xs, z3.IntVal(0)) == 0,
                                 z3.Implies(k >= 0, CNT(xs, k + 1) == CNT(xs, k) + z3.If(bad(k), 1, 0)),
                                 z3.Implies(k >= 1, CNT(xs, k) == CNT(xs, k - 1) + z3.If(bad(k - 1), 1, 0)),
                                 z3.Implies(k >= 0, z3.And(CNT(xs, k) >= 0, CNT(xs, k) <= k)),
                                 # monotone (instance of the induction-proved prefix-count lemma PC.mono with increments in {0, 1})
                                 Z.forall([i], z3.Implies(z3.And(i >= 0, i < k), z3.And(CNT(xs, i) >= 0, CNT(xs, i) + z3.If(bad(i), 1, 0) <= CNT(xs, k))),
                                          patterns=[CNT(xs, i)], qid='CNT_mono')]
        return Z.mk_i(CNT(xs, k))

    def spec_sum_field(self, node, st):
        """sum_field(L, 'k') = sum of L[i]['k'] over the list L"""
        lst = self.ev1(node.args[0], st)
        field = Z.mk_s(node.args[1].value)
        h = st.heap
        a = Z.addr(lst)
        arr = h.elems(a)
        k = z3.Int('k!sf')
        vals = z3.Lambda([k], z3.Select(z3.Select(h.dv, Z.addr(z3.Select(arr, k))), field))
        n = h.len_of(a)
        self.sum_terms.append((vals, n))
        return Z.mk_r(Z.SUMR(vals, n))

    def spec_prefix_count(self, node, st):
        """prefix_count(xs, k, 'field') = sum_{i<k} len(xs[i][field]): uninterpreted PC with instances of its recurrence
        and of the (induction-proved, lemmas.prove_builtin 'PC.mono') monotonicity fact"""
        xs = self.ev1(node.args[0], st)
        k = Z.ival(self.ev1(node.args[1], st))
        field = node.args[2].value
        a = Z.addr(xs)
        h = st.heap
        PC = z3.Function('PC_' + field, Val, I, I)
        arr = h.elems(a)
        sub = lambda idx: h.len_of(Z.addr(h.get(Z.addr(z3.Select(arr, idx)), Z.mk_s(field))))
        if 'q!' not in k.sexpr():
            i = z3.Int('i!pc')
            self.extra_facts += [PC(xs, z3.IntVal(0)) == 0,
                                 z3.Implies(k >= 0, PC(xs, k + 1) == PC(xs, k) + sub(k)),
                                 z3.Implies(k >= 1, PC(xs, k) == PC(xs, k - 1) + sub(k - 1)),
                                 z3.Implies(k >= 0, PC(xs, k) >= 0), sub(k) >= 0,
                                 Z.forall([i], z3.Implies(z3.And(i >= 0, i < k), z3.And(PC(xs, i) >= 0, sub(i) >= 0, PC(xs, i) + sub(i) <= PC(xs, k))),
                                          patterns=[PC(xs, i)], qid='PC_mono')]
        return Z.mk_i(PC(xs, k))

    def spec_class_is(self, node, st):
        v = self.ev1(node.args[0], st)
        name = node.args[1].id if isinstance(node.args[1], ast.Name) else node.args[1].value
        return Z.mk_b(z3.And(Z.is_ref(v), st.heap.class_of(Z.addr(v)) == self.ct.cid(name)))

    def spec_subclass_of(self, node, st):
        v = self.ev1(node.args[0], st)
        name = node.args[1].id if isinstance(node.args[1], ast.Name) else node.args[1].value
        return Z.mk_b(z3.And(Z.is_ref(v), self.is_sub(st.heap.class_of(Z.addr(v)), name)))

    def spec_msg_of(self, node, st):
        (v,) = self._sargs(node, st)
        return st.heap.get(Z.addr(v), Z.mk_s('__msg__'))

    def spec_ufn(self, node, st):
        """ufn('NAME', args...) : application of the uninterpreted function NAME: Val^n -> Val"""
        name = node.args[0].value
        args = [self.ev1(a, st) for a in node.args[1:]]
        f = z3.Function(name, *([Val] * len(args) + [Val]))
        return f(*args)

    def spec_upred(self, node, st):
        """upred('NAME', args...): uninterpreted *predicate* (a proper boolean, independent of the heap)"""
        name = node.args[0].value
        args = [self.ev1(a, st) for a in node.args[1:]]
        f = z3.Function('P_' + name, *([Val] * len(args) + [B]))
        return Z.mk_b(f(*args))

    def spec_uint(self, node, st):
        """uint('NAME', args...): uninterpreted integer-valued function"""
        name = node.args[0].value
        args = [self.ev1(a, st) for a in node.args[1:]]
        f = z3.Function('I_' + name, *([Val] * len(args) + [I]))
        return Z.mk_i(f(*args))

    def spec_ureal(self, node, st):
        """ureal('NAME', args...): uninterpreted real-valued function; integer-valued arguments are passed as Int terms"""
        name = node.args[0].value
        args = [self.ev1(a, st) for a in node.args[1:]]
        targs = []
        for a in args:
            # references (lists, objects) are passed as they are, every other argument by its numeric value (5 and 5.0 are the same argument)
            isref = z3.simplify(Z.is_ref(a))
            if z3.is_true(isref) or (not z3.is_false(isref) and st.implies(Z.is_ref(a))):
                targs.append(a)
            else:
                targs.append(Z.num(a))
        f = z3.Function('R_' + name, *([t.sort() for t in targs] + [z3.RealSort()]))
        return Z.mk_r(f(*targs))

    def spec_str_lower(self, node, st):
        (a,) = self._sargs(node, st)
        return Z.mk_s(Z.STR_LOWER(Z.sv(a)))

    def spec_str_replace(self, node, st):
        a, b, c = self._sargs(node, st)
        return Z.mk_s(Z.STR_REPLACE(Z.sv(a), Z.sv(b), Z.sv(c)))

    def spec_raised(self, node, st):
        """raised(Cls): inside exsures -- the escaping exception is an instance of Cls"""
        e = st.meta.get('raised_exc')
        if e is None:
            raise Unsupported("raised() outside exsures", node)
        name = node.args[0].id
        return Z.mk_b(self.is_sub(st.heap.class_of(Z.addr(e)), name))


from .state import State
State0 = State()
