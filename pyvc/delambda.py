"""
pyvc.delambda -- replace closed lambda terms by array constants with quantified definitions before a formula set is
handed to the solver.  A_L is *defined* by  forall k. A_L[k] = body(k)  (pattern A_L[k]); the transformation is an
equivalence, and z3 is markedly more robust on constants + definitions than on lambda terms inside uninterpreted
function arguments (measured: a single satisfiable equation with SUMR(lambda ...) ran into the timeout).
"""
import z3

_cache = {}      # ast id of lambda -> (const, definition)
_keep = []       # keep ASTs alive so ids are not reused


def _find_lambdas(e, out, seen, bound_depth=0):
    i = e.get_id()
    if i in seen:
        return
    seen.add(i)
    if z3.is_quantifier(e):
        if e.is_lambda():
            out.append(e)
            return               # inner lambdas are handled when the definition itself is processed
        _find_lambdas(e.body(), out, seen)
        return
    if z3.is_app(e):
        for c in e.children():
            _find_lambdas(c, out, seen)


def _is_closed(lam):
    """no de-Bruijn variables escaping the lambda (i.e. not nested under an outer binder's variables)"""
    n = lam.num_vars()

    def free_var(t, depth, seen):
        key = (t.get_id(), depth)
        if key in seen:
            return False
        seen.add(key)
        if z3.is_var(t):
            return z3.get_var_index(t) >= depth
        if z3.is_quantifier(t):
            return free_var(t.body(), depth + t.num_vars(), seen)
        if z3.is_app(t):
            return any(free_var(c, depth, seen) for c in t.children())
        return False
    return not free_var(lam.body(), n, set())


def prepare(assertions):
    """returns a new list of assertions without closed lambda terms, plus the definitions of the introduced constants"""
    todo = list(assertions)
    result = []
    defs = []
    done_defs = set()
    rounds = 0
    while todo and rounds < 6:
        rounds += 1
        lambdas = []
        seen = set()
        for a in todo:
            _find_lambdas(a, lambdas, seen)
        subs = []
        new_defs = []
        for lam in lambdas:
            if not _is_closed(lam):
                continue
            lid = lam.get_id()
            if lid not in _cache:
                name = 'LAM!%d' % len(_cache)
                const = z3.Const(name, lam.sort())
                vs = [z3.Const('lv!%d_%d' % (len(_cache), k), lam.var_sort(k)) for k in range(lam.num_vars())]
                body = z3.substitute_vars(lam.body(), *reversed(vs))
                sel = z3.Select(const, *vs)
                d = z3.ForAll(vs, sel == body, patterns=[sel], qid='def_' + name.replace('!', '_'))
                _cache[lid] = (const, d)
                _keep.append(lam)
            const, d = _cache[lid]
            subs.append((lam, const))
            if lid not in done_defs:
                done_defs.add(lid)
                new_defs.append(d)
        if not subs:
            result.extend(todo)
            todo = []
            break
        result_round = [z3.substitute(a, *subs) for a in todo]
        result.extend(result_round)
        todo = new_defs          # definitions may contain lambdas themselves
    result.extend(todo)
    return result
