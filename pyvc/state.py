"""
pyvc.state -- symbolic state (path condition, locals, heap) and solver helpers.
"""
import os
import z3
from . import z as Z
from .heap import Heap

QUERY_TIMEOUT_MS = int(os.environ.get("PYVC_QUERY_MS", "1500"))

STATS = {'queries': 0, 'query_s': 0.0}


_QCACHE = {}


def _quantified(e):
    k = e.get_id()
    v = _QCACHE.get(k)
    if v is None:
        t = e.sexpr()
        v = ('(forall ' in t) or ('(exists ' in t) or ('(lambda ' in t)
        if len(_QCACHE) > 200000:
            _QCACHE.clear()
        _QCACHE[k] = v
    return v


class State:
    __slots__ = ('pc', 'env', 'heap', 'old_heap', 'old_env', 'notes', '_solver', '_solver_n', 'meta')

    def __init__(self, pc=None, env=None, heap=None, old_heap=None, old_env=None, notes=None, meta=None):
        self.pc = pc if pc is not None else []
        self.env = env if env is not None else {}
        self.heap = heap
        self.old_heap = old_heap
        self.old_env = old_env
        self.notes = notes if notes is not None else []
        self.meta = meta if meta is not None else {}
        self._solver = None
        self._solver_n = 0

    def clone(self, **kw):
        st = State(pc=self.pc, env=self.env, heap=self.heap, old_heap=self.old_heap,
                   old_env=self.old_env, notes=self.notes, meta=self.meta)
        for k, v in kw.items():
            setattr(st, k, v)
        return st

    def assume(self, *phis):
        new = [p for p in phis if not z3.is_true(p)]
        if not new:
            return self
        return self.clone(pc=self.pc + new)

    def bind(self, name, val):
        env = dict(self.env)
        env[name] = val
        return self.clone(env=env)

    def unbind(self, name):
        env = dict(self.env)
        env.pop(name, None)
        return self.clone(env=env)

    def with_heap(self, heap):
        return self.clone(heap=heap)

    def note(self, text):
        return self.clone(notes=self.notes + [text])

    def with_meta(self, **kw):
        m = dict(self.meta)
        m.update(kw)
        return self.clone(meta=m)

    # ---- solver ----
    def _get_solver(self):
        if self._solver is None:
            s = z3.Solver()
            s.set('timeout', QUERY_TIMEOUT_MS)
            for p in self.pc:
                s.add(p)
            self._solver = s
            self._solver_n = len(self.pc)
        return self._solver

    def check(self, *extra, timeout_ms=None):
        """z3 result of pc /\\ extra"""
        import time
        # a fresh, non-incremental solver per query: z3's incremental mode (push/pop) is markedly
        # weaker on quantified / string problems (measured: unknown@4s vs unsat@0.25s on the same query)
        t0 = time.time()
        # E-matching only (smt.mbqi off, as Boogie/Dafny do): a satisfiable query with quantifiers then comes
        # back "unknown" in milliseconds instead of burning the timeout in model-based instantiation
        s = z3.Solver()
        s.set('timeout', timeout_ms or QUERY_TIMEOUT_MS)
        s.set('smt.mbqi', False)
        s.set('smt.arith.nl', False)      # path queries: products stay opaque (fewer deductions, never unsound for 'unsat')
        s.set('smt.qi.max_instances', int(os.environ.get('PYVC_QI_MAX', '3000')))
        from .delambda import prepare
        prepped = prepare(list(self.pc) + list(extra))
        for p_ in prepped:
            s.add(p_)
        r = s.check()
        if r == z3.unknown and not os.environ.get('PYVC_NO_QF'):
            # quantifier-free fallback: many path facts (type tags, lengths) already follow from the ground part of the path condition;
            # deciding them there does not depend on how far quantifier instantiation got within the time limit (unsat of a subset is unsat)
            qflags = [_quantified(p_) for p_ in prepped]
            if any(qflags) and not all(qflags):
                s0 = z3.Solver()
                s0.set('timeout', QUERY_TIMEOUT_MS)
                s0.set('smt.arith.nl', False)
                for p_, q_ in zip(prepped, qflags):
                    if not q_:
                        s0.add(p_)
                r0 = s0.check()
                if r0 == z3.unsat:
                    r = z3.unsat
                elif r0 == z3.unknown:
                    # z3's sequence (string) solver is not stable run to run on identical input: ask the ground question again with other seeds
                    for seed in (7, 23):
                        s1 = z3.Solver()
                        s1.set('timeout', timeout_ms or QUERY_TIMEOUT_MS)
                        s1.set('smt.arith.nl', False)
                        s1.set('random_seed', seed)
                        s1.set('smt.random_seed', seed)
                        for p_, q_ in zip(prepped, qflags):
                            if not q_:
                                s1.add(p_)
                        r1 = s1.check()
                        if r1 == z3.unsat:
                            r = z3.unsat
                            break
                        if r1 == z3.sat:
                            break
        STATS['queries'] += 1
        dt = time.time() - t0
        STATS['query_s'] += dt
        if dt > 1.0 and os.environ.get('PYVC_TRACE'):
            s2 = z3.Solver()
            for p_ in self.pc:
                s2.add(p_)
            for e in extra:
                s2.add(e)
            STATS.setdefault('dumps', 0)
            STATS['dumps'] += 1
            open('/tmp/slow_%d.smt2' % STATS['dumps'], 'w').write(s2.to_smt2())
            print("  [slow query %.1fs -> %s] pc=%d extra=%s" % (dt, r, len(self.pc), [str(e)[:300] for e in extra]))
        return r

    def feasible(self, phi=None, timeout_ms=None):
        """False only if pc /\\ phi is certainly unsatisfiable"""
        if phi is not None:
            sp = z3.simplify(phi)
            if z3.is_false(sp):
                return False
            if z3.is_true(sp) and not self.pc:
                return True
            return self.check(sp, timeout_ms=timeout_ms) != z3.unsat
        return self.check(timeout_ms=timeout_ms) != z3.unsat

    def implies(self, phi):
        """True only if pc certainly implies phi"""
        sp = z3.simplify(phi)
        if z3.is_true(sp):
            return True
        if z3.is_false(sp) and not self.pc:
            return False
        return self.check(z3.Not(sp)) == z3.unsat
