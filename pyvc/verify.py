"""
pyvc.verify -- verify one function against its contract: build the entry state, run the symbolic
executor on the real AST, collect and discharge the verification conditions.
"""
import ast
import time
import os
import traceback
import z3

from . import z as Z
from .z import Val, I
from .heap import Heap, FIELDS
from .state import State
from . import api, source as SRC
from .symex import Exec as _ExecBase, Unsupported, VC, VTuple, Closure
from .calls import CallsMixin
from .loops import LoopsMixin
from . import lemmas as LEM


class Exec(CallsMixin, LoopsMixin, _ExecBase):
    pass


VC_TIMEOUT_MS = 20000


class FuncResult:
    def __init__(self, ident):
        self.ident = ident
        self.status = None          # PROVED | REFUTED | UNDECIDED | UNSUPPORTED | ERROR
        self.obligations = {}       # name -> dict(status, kind, clause, paths, time, backend, model)
        self.paths = 0
        self.vcs = 0
        self.time = 0.0
        self.detail = ''
        self.assumptions = []
        self.sha = ''
        self.lineno = 0
        self.notes = []

    def to_json(self):
        return {'ident': self.ident, 'status': self.status, 'paths': self.paths, 'vcs': self.vcs,
                'time_s': round(self.time, 3), 'detail': self.detail, 'assumptions': sorted(self.assumptions),
                'source_sha': self.sha, 'line': self.lineno,
                'obligations': {k: {kk: vv for kk, vv in v.items() if kk not in ('model_obj', 'vc')}
                                for k, v in self.obligations.items()}}


def closed_heap_facts(h):
    """every reference stored in a live object points to a live object (true of real heaps)"""
    a, j = z3.Int('a!cl'), z3.Int('j!cl')
    k = z3.Const('k!cl', Val)
    e = z3.Select(z3.Select(h.elem, a), j)
    d = z3.Select(z3.Select(h.dv, a), k)
    return [Z.forall([a, j], z3.Implies(z3.And(a >= 0, a < h.alloc, Z.is_ref(e)),
                                         z3.And(Z.addr(e) >= 0, Z.addr(e) < h.alloc)), patterns=[e], qid='closed_elem'),
            Z.forall([a, k], z3.Implies(z3.And(a >= 0, a < h.alloc, Z.is_ref(d)),
                                         z3.And(Z.addr(d) >= 0, Z.addr(d) < h.alloc)), patterns=[d], qid='closed_dv')]


def entry_state(ex, con, fs):
    h0 = Heap.fresh('H0')
    args = fs.node.args
    env = {}
    facts = [h0.alloc >= 0]
    params = [a.arg for a in args.args] + [a.arg for a in args.kwonlyargs]
    for p in params:
        v = Z.fresh_val('arg_' + p)
        env[p] = v
        facts.append(z3.Implies(Z.is_ref(v), z3.And(Z.addr(v) >= 0, Z.addr(v) < h0.alloc)))
    if args.vararg is not None:
        raise Unsupported("*args parameter", fs.node)
    if args.kwarg is not None:
        v = Z.fresh_val('arg_' + args.kwarg.arg)
        env[args.kwarg.arg] = v
        facts.append(z3.And(Z.is_ref(v), Z.addr(v) >= 0, Z.addr(v) < h0.alloc, h0.kind_of(Z.addr(v)) == Z.K_DICT))
    for _txt, gname in getattr(con, 'globals_read', {}).items():
        env[gname] = Z.fresh_val('glob_' + gname)      # a class-level / module-level value read by the function: arbitrary at entry (typed by requires)
    for gname in getattr(con, 'global_dicts', []):
        gv = Z.fresh_val('glob_' + gname)
        env[gname] = gv
        facts.append(z3.And(Z.is_ref(gv), Z.addr(gv) >= 0, Z.addr(gv) < h0.alloc, h0.kind_of(Z.addr(gv)) == Z.K_DICT, h0.size_of(Z.addr(gv)) >= 0))
    st = State(pc=[], env=env, heap=h0)
    if params and params[0] == 'self' and not fs.is_static:
        ex.static_cls['self'] = con.self_class
        sv = env['self']
        a = Z.addr(sv)
        facts += [Z.is_ref(sv), h0.kind_of(a) == Z.K_OBJ, ex.is_sub(h0.class_of(a), con.self_class)]
    if con.closed_heap:
        facts += closed_heap_facts(h0)
    st = st.assume(*facts)
    st = st.clone(old_heap=h0, old_env=dict(env))
    return st


_TIMING_SENSITIVE = ('unknown kind', 'not known to be', 'may be inf/nan', 'of unknown class', 'non-object')


def verify_function(ident, registry=None, keep_models=True, vc_timeout=None, case=None):
    """verify one function under contract.  'Unsupported' verdicts that stem from a path query left undecided within the short
    per-query budget (the executor could not establish the kind of a value in time) are retried once with a 4x budget: such
    verdicts must not depend on machine load."""
    from . import state as _state
    res = _verify_function(ident, registry, keep_models, vc_timeout, case)
    if res.status == 'UNSUPPORTED' and any(k in (res.detail or '') for k in _TIMING_SENSITIVE):
        saved = _state.QUERY_TIMEOUT_MS
        _state.QUERY_TIMEOUT_MS = saved * 4
        try:
            res2 = _verify_function(ident, registry, keep_models, vc_timeout, case)
        finally:
            _state.QUERY_TIMEOUT_MS = saved
        res2.time += res.time
        return res2
    return res


def _verify_function(ident, registry=None, keep_models=True, vc_timeout=None, case=None):
    reg = registry if registry is not None else api.REGISTRY
    con = reg[ident]
    res = FuncResult(ident)
    t0 = time.time()
    try:
        fs = SRC.find_function(ident)
    except Exception as e:
        res.status = 'UNSUPPORTED'
        res.detail = "source not found: %s" % e
        return res
    res.sha, res.lineno = fs.sha, fs.lineno
    if con.trusted:
        res.status = 'TRUSTED'
        res.detail = 'contract assumed, body not verified'
        return res
    ex = Exec(con, fs, reg)
    try:
        st = entry_state(ex, con, fs)
        # requires
        for cl in con.requires:
            st = st.assume(ex.spec_eval(cl, st))
        # pure abstract callees given as uninterpreted functions: their contract is an axiom about the function symbol
        for txt, cs in con.callees.items():
            if cs.get('fn') and cs.get('pure'):
                st = st.assume(*callee_fn_axioms(ex, st, cs))
        st = st.clone(old_heap=st.heap, old_env=dict(st.env))
        # vacuity guard: the precondition must be satisfiable
        ex.vcs.append(VC('requires is satisfiable (vacuity guard)', 'cover', list(st.pc), None, clause='requires'))
        for kk, cv in enumerate(con.covers):
            ex.vcs.append(VC('cover[%d] reachable' % kk, 'cover', list(st.pc) + [ex.spec_eval(cv, st)], None, clause=cv))
        cases = [(None, st)]
        if con.split:
            conds = [ex.spec_eval(c, st) for c in con.split]
            ex.add_vc('callee-pre', 'split cases cover the precondition', st, z3.Or(conds), clause=' | '.join(con.split))
            cases = [(c, st.assume(phi)) for c, phi in zip(con.split, conds)]
            if case is not None:
                # one split case per job (the runner distributes them over processes); the coverage obligation
                # and the vacuity guards are emitted with case 0 only
                if case != 0:
                    ex.vcs = []
                cases = cases[case:case + 1]
        res.paths = 0
        for ci, (cname, st_c) in enumerate(cases):
            # constructor-narrow the parameters: tags fixed by the precondition become syntactic
            env = dict(st_c.env)
            for k, v in list(env.items()):
                if z3.is_expr(v) and v.sort() == Val:
                    env[k] = ex.narrow(st_c, v)
                    if z3.is_true(z3.simplify(Z.is_r(env[k]))) and st_c.implies(z3.IsInt(Z.rv(env[k]))):
                        # an integer-valued float: name its integer, so that to_int/to_real round trips simplify away
                        kint = Z.fresh_int(k + '_int')
                        st_c = st_c.assume(z3.ToReal(kint) == Z.rv(env[k]))
                        env[k] = Z.mk_r(z3.ToReal(kint))
                    if con.split and z3.is_true(z3.simplify(Z.is_i(env[k]))):
                        # value narrowing for small enumerations named by the split (even_odd in {0,1,2} ...)
                        for lit in (0, 1, 2):
                            if st_c.implies(Z.iv(env[k]) == lit):
                                env[k] = Z.mk_i(lit)
                                break
            st_c = st_c.clone(env=env)
            # ghost names (evaluated once, after narrowing, so the clauses stay small)
            for name, expr in con.ghost.items():
                tree = ast.parse(expr.strip(), mode='eval').body
                ex.spec += 1
                try:
                    gv = ex.ev1(tree, st_c)
                finally:
                    ex.spec -= 1
                if z3.is_expr(gv) and gv.sort() == Val:
                    gv = z3.simplify(gv)
                st_c = st_c.bind(name, gv)
            env = dict(st_c.env)
            entry = st_c.clone(old_heap=st_c.heap, old_env=dict(env))
            run_case(ex, con, fs, entry, res, 10000 * ci)
        for sig in con.loops:
            if sig not in ex.loop_seen:
                # an invariant whose loop no longer exists: orphaned -> undecided, not a violation
                ex.vcs.append(VC("loop '%s' exists in the source" % sig, 'orphan', [], z3.BoolVal(False), clause=sig))
    except Unsupported as e:
        res.status = 'UNSUPPORTED'
        res.detail = str(e)
        res.time = time.time() - t0
        res.assumptions = sorted(ex.used_assumptions)
        return res
    except Exception as e:
        res.status = 'ERROR'
        res.detail = traceback.format_exc()[-1500:]
        res.time = time.time() - t0
        return res
    res.assumptions = sorted(ex.used_assumptions)
    discharge(ex, res, keep_models, vc_timeout or con.timeout or VC_TIMEOUT_MS)
    res.time = time.time() - t0
    return res


def run_case(ex, con, fs, entry, res, base):
    """execute the body from `entry` and emit the exit obligations"""
    st = entry
    fr = ex.push_frame(**{'return': True, 'raise': True})
    try:
        normal = ex.ex(fs.body(), st)
    finally:
        ex.pop_frame()
    returns = [(s, Z.NONE) for s in normal] + fr['return']
    raises = fr['raise']
    res.paths += len(returns) + len(raises)
    for pi, (s, rv) in enumerate(returns):
        ex.path_counter = base + 1000 + pi
        ex.sum_terms = []
        goals = [(kk, cl, ex.spec_eval(cl, s, result=rv, old=(entry.heap, entry.env))) for kk, cl in enumerate(con.ensures)]
        ex.sum_terms = list(s.meta.get('sums', [])) + ex.sum_terms     # sums of this path + sums named in the clauses
        s = LEM.apply(ex, con, s)       # after the clauses are translated: lemmas see the terms of both sides
        for kk, cl, phi in goals:
            ex.add_vc('ensures', 'ensures[%d]' % kk, s, phi, clause=cl)
        add_frame_vc(ex, con, entry, s, 'return')
    for pi, (s, e) in enumerate(raises):
        ex.path_counter = base + 2000 + pi
        s = LEM.apply(ex, con, s)
        c = s.heap.class_of(Z.addr(e))
        alts = []
        for cls, cond in con.exsures.items():
            for nm in [x.strip() for x in cls.split(',')]:
                basec = 'Exception' if nm == '*' else nm
                conds = cond if isinstance(cond, (list, tuple)) else [cond]
                s_m = s.with_meta(raised_exc=e)
                parts = [ex.is_sub(c, basec)]
                for cd in conds:
                    if cd and cd != 'True':
                        parts.append(ex.spec_eval(cd, s_m, env=dict(entry.env, **{'exc': e}), old=(entry.heap, entry.env)))
                alts.append(z3.And(parts))
        goal = z3.Or(alts) if alts else z3.BoolVal(False)
        why = '; '.join(s.notes[-2:])
        ex.add_vc('exsures', 'exsures (every escaping exception is declared)', s, goal,
                  clause=str(dict(con.exsures)) + ' <- ' + why, note=why)
        if con.exsures:
            add_frame_vc(ex, con, entry, s, 'raise')


def callee_fn_axioms(ex, st, cs):
    """forall args. requires(args) => ensures(args, F(args)) for a pure callee modelled by the function symbol F"""
    params = cs.get('params') or []
    bound = [z3.Const('ax!' + p, Val) for p in params]
    f = z3.Function(cs['fn'], *([Val] * len(bound) + [Val]))
    app = f(*bound) if bound else z3.Const(cs['fn'], Val)
    env = dict(zip(params, bound))
    if 'self' in st.env:
        env['self'] = st.env['self']
    pre = [ex.spec_eval(cl, st, env=env) for cl in cs.get('requires', [])]
    post = [ex.spec_eval(cl, st, env=env, result=app, old=(st.heap, env)) for cl in cs.get('ensures', [])]
    if not post:
        return []
    body = z3.Implies(z3.And(pre) if pre else z3.BoolVal(True), z3.And(post))
    return [Z.forall(bound, body, patterns=[app], qid='callee_' + cs['fn'])] if bound else [body]


def add_frame_vc(ex, con, entry, s, how):
    mods = con.modifies
    a = Z.fresh_int('a_frame')
    inmod = ex.modset_pred(mods or [], entry, dict(entry.env))
    same = s.heap.same_at(entry.heap, a)
    if z3.is_true(z3.simplify(same)):
        return
    goal = z3.Implies(z3.And(a >= 0, a < entry.heap.alloc, z3.Not(inmod(a))), same)
    ex.add_vc('frame', 'modifies (frame: nothing else is written) on %s' % how, s.assume(*inmod.facts), goal, clause=str(mods or 'nothing'))


def solve_vc(vc, timeout_ms):
    """returns (status, seconds, backend, model|None).  status: proved | refuted | unknown"""
    t0 = time.time()
    from .delambda import prepare
    orig_vc = vc
    prepped = prepare(list(vc.pc) + ([z3.Not(vc.goal)] if vc.goal is not None else []))
    vc = VC(vc.name, vc.kind, prepped[:-1] if orig_vc.goal is not None else prepped, None, vc.path, vc.note, vc.clause, vc.state)
    neg_goal = prepped[-1] if orig_vc.goal is not None else None
    has_q = any(_has_quant(p) for p in prepped)
    if has_q and vc.kind != 'cover':
        # portfolio, short budgets first: E-matching only / default configuration (MBQI) / cvc5 -- most obligations are decided by one of
        # them within a second, and which one varies; the full budget is spent only when all three short attempts were inconclusive
        short = min(int(os.environ.get('PYVC_SHORT_MS', '3000')), timeout_ms)
        for budget in ([short, timeout_ms] if timeout_ms > short else [timeout_ms]):
            s = z3.Solver()
            s.set('timeout', budget)
            s.set('smt.mbqi', False)
            for p in vc.pc:
                s.add(p)
            s.add(neg_goal)
            if s.check() == z3.unsat:
                return 'proved', time.time() - t0, 'z3', None
            if budget == timeout_ms:
                break
            s = z3.Solver()
            s.set('timeout', budget)
            for p in vc.pc:
                s.add(p)
            s.add(neg_goal)
            r = s.check()
            if r == z3.unsat:
                return 'proved', time.time() - t0, 'z3', None
            if r == z3.sat:
                return 'refuted', time.time() - t0, 'z3', s.model()
            try:
                from .backends import cvc5_check
                r2, _dt2 = cvc5_check(s, budget)
                if r2 == 'unsat':
                    return 'proved', time.time() - t0, 'cvc5', None
            except Exception:
                pass
    s = z3.Solver()
    s.set('timeout', timeout_ms)
    for p in vc.pc:
        s.add(p)
    if vc.kind == 'cover':
        s.set('timeout', min(timeout_ms, 5000))
        r = s.check()
        dt = time.time() - t0
        if r == z3.sat:
            return 'proved', dt, 'z3', None
        if r == z3.unsat:
            return 'refuted', dt, 'z3', None
        # quantified axioms (callee contracts, lemma facts) keep z3 from exhibiting a model: the cover then asks that the
        # quantifier-free part is satisfiable and that instantiation found no contradiction (E-matching pass above)
        s2 = z3.Solver()
        s2.set('timeout', min(timeout_ms, 5000))
        for p in vc.pc:
            if not _has_quant(p):
                s2.add(p)
        if s2.check() == z3.sat:
            return 'proved', time.time() - t0, 'z3(qf-part)', None
        return 'unknown', time.time() - t0, 'z3', None
    s.add(neg_goal)
    r = s.check()
    dt = time.time() - t0
    if r == z3.unsat:
        return 'proved', dt, 'z3', None
    if r == z3.sat:
        return 'refuted', dt, 'z3', s.model()
    # second opinion: cvc5 on the SMT-LIB text
    try:
        from .backends import cvc5_check
        r2, dt2 = cvc5_check(s, max(2000, timeout_ms // 2))
        if r2 == 'unsat':
            return 'proved', dt + dt2, 'cvc5', None
    except Exception:
        pass
    return 'unknown', time.time() - t0, 'z3', None


def _has_quant(e):
    t = e.sexpr()
    return '(forall' in t or '(exists' in t or '(lambda' in t


KIND_IS_CLAUSE = {'ensures', 'exsures', 'frame', 'callee-pre', 'lemma'}


def discharge(ex, res, keep_models, timeout_ms):
    groups = {}
    for vc in ex.vcs:
        groups.setdefault((vc.kind, vc.name), []).append(vc)
    res.vcs = len(ex.vcs)
    worst = 'PROVED'
    for (kind, name), vcs in groups.items():
        ob = {'kind': kind, 'clause': vcs[0].clause, 'paths': len(vcs), 'status': 'proved', 'time_s': 0.0,
              'backend': set(), 'note': ''}
        for vc in vcs:
            st, dt, be, model = solve_vc(vc, timeout_ms)
            ob['time_s'] += dt
            ob['backend'].add(be)
            if st == 'refuted':
                ob['status'] = 'refuted'
                ob['note'] = vc.note
                if keep_models and model is not None:
                    try:
                        from . import replay as RP
                        if vc.goal is not None:
                            m2 = RP.small_model(vc, ex, ex.c, ex.f, z3.Not(vc.goal))
                            if m2 is not None:
                                model = m2
                    except Exception:
                        pass
                    ob['model'] = model_summary(model, vc, ex)
                    try:
                        from . import replay as RP
                        ob['counterexample'] = RP.concretise(model, vc, ex, ex.c, ex.f)
                    except Exception as e:
                        ob['counterexample'] = None
                        ob['note'] += ' [concretise failed: %s]' % e
                break
            if st == 'unknown' and kind in KIND_IS_CLAUSE and not ex.c.ident.startswith('lemma::') and keep_models:
                # undecided: look for a candidate counter-model of the quantifier-free part and *replay* it on the
                # real code; only a reproduced concrete contract failure turns "undecided" into "refuted" (DESIGN 3.2)
                cand = candidate_refutation(vc, ex)
                if cand is not None:
                    ob['status'] = 'refuted'
                    ob['note'] = (vc.note + ' [refuted by replayed candidate model of the quantifier-free part]').strip()
                    ob['model'] = cand['model']
                    ob['counterexample'] = cand['counterexample']
                    ob['replayed'] = cand['replay']
                    break
            if st == 'unknown' and ob['status'] == 'proved':
                ob['status'] = 'unknown'
                ob['note'] = vc.note
        ob['backend'] = '+'.join(sorted(ob['backend']))
        ob['time_s'] = round(ob['time_s'], 3)
        res.obligations[name] = ob
    sts = [o['status'] for o in res.obligations.values()]
    clause_refuted = [n for n, o in res.obligations.items() if o['status'] == 'refuted' and o['kind'] in KIND_IS_CLAUSE]
    if clause_refuted:
        res.status = 'REFUTED'
        res.detail = 'refuted: ' + '; '.join(clause_refuted)
    elif any(s != 'proved' for s in sts):
        res.status = 'UNDECIDED'
        res.detail = 'not discharged: ' + '; '.join(n for n, o in res.obligations.items() if o['status'] != 'proved')
    else:
        res.status = 'PROVED'
    if not res.obligations:
        res.status = 'ERROR'
        res.detail = 'no obligations generated'


def candidate_refutation(vc, ex, tries=3):
    from . import replay as RP
    try:
        for attempt in range(tries):
            s = z3.Solver()
            s.set('timeout', 4000)
            s.set('random_seed', attempt)
            for p in vc.pc:
                if not _has_quant(p):
                    s.add(p)
            if _has_quant(vc.goal):
                return None
            s.add(z3.Not(vc.goal))
            if s.check() != z3.sat:
                return None
            m = s.model()
            cx = RP.concretise(m, vc, ex, ex.c, ex.f)
            if cx is None:
                return None
            out = RP.run(ex.c.ident, cx)
            if out.get('reproduced'):
                return {'model': model_summary(m, vc, ex), 'counterexample': cx, 'replay': out}
    except Exception:
        return None
    return None


def model_summary(model, vc, ex):
    """parameter values of the counter-model, as text (the concretiser in replay.py rebuilds objects)"""
    out = {}
    try:
        st = vc.state
        env = st.old_env if st is not None and st.old_env is not None else {}
        for name, term in env.items():
            if isinstance(term, (VTuple, Closure)):
                continue
            out[name] = str(model.eval(term, model_completion=True))
    except Exception as e:
        out['_error'] = str(e)
    return out


def verify_lemma(name, timeout_ms=None):
    """prove a spec-level lemma: forall vars. assumes => shows"""
    lem = api.LEMMAS[name]
    res = FuncResult('lemma::' + name)
    t0 = time.time()
    con = api.Contract('lemma::' + name)
    ex = Exec(con, None, api.REGISTRY)
    try:
        env = {}
        for v, sort in lem.vars.items():
            if sort == 'int':
                env[v] = Z.mk_i(Z.fresh_int(v))
            elif sort == 'real':
                env[v] = Z.mk_r(Z.fresh(v, Z.R))
            elif sort == 'str':
                env[v] = Z.mk_s(Z.fresh(v, Z.S))
            else:
                env[v] = Z.fresh_val(v)
        st = State(pc=[], env=env, heap=Heap.fresh('HL'))
        st = st.clone(old_heap=st.heap, old_env=dict(env))
        for cl in lem.assumes:
            st = st.assume(ex.spec_eval(cl, st))
        goals = [(cl, ex.spec_eval(cl, st)) for cl in lem.shows]
        if 'PW' in lem.uses:
            facts = []
            for (x, n, t) in ex.pow_terms:
                for (x2, n2, t2) in ex.pow_terms:
                    facts += LEM.pw_facts(x, n, n2) if x.eq(x2) else []
                facts += LEM.pw_facts(x, z3.IntVal(0), n)
            st = st.assume(*facts)
        ex.vcs.append(VC('assumptions are satisfiable (vacuity guard)', 'cover', list(st.pc), None, clause='assumes'))
        for k, (cl, g) in enumerate(goals):
            ex.add_vc('lemma', 'shows[%d]' % k, st, g, clause=cl)
    except Unsupported as e:
        res.status, res.detail = 'UNSUPPORTED', str(e)
        return res
    except Exception:
        res.status, res.detail = 'ERROR', traceback.format_exc()[-1500:]
        return res
    res.assumptions = sorted(ex.used_assumptions)
    discharge(ex, res, True, timeout_ms or VC_TIMEOUT_MS)
    if res.status == 'REFUTED':
        pass
    elif any(o['status'] == 'refuted' for o in res.obligations.values()):
        res.status = 'REFUTED'
    res.time = time.time() - t0
    return res
