"""
pyvc.heap -- functional heap: a bundle of z3 arrays indexed by address.

    kind  : Addr -> Int      object kind (K_LIST ...)
    klass : Addr -> Int      class id for instances / exceptions
    llen  : Addr -> Int      length of list/tuple
    elem  : Addr -> (Int -> Val)   list/tuple contents
    dk    : Addr -> (Val -> Bool)  dict/set/instance key (attribute) set
    dv    : Addr -> (Val -> Val)   dict values / instance attributes (keyed by s("name"))
    dsize : Addr -> Int      number of keys (ghost, maintained on insert/delete)
    alloc : Int              allocation frontier: every live address is < alloc
"""
import z3
from . import z as Z
from .z import I, Val, VArr, KSet, KMap

RESOLVER = [None]     # callable(addr1, addr2) -> True (equal) / False (distinct) / None (unknown) under the current path

FIELDS = ('kind', 'klass', 'llen', 'elem', 'dk', 'dv', 'dsize')
SORTS = {
    'kind': z3.ArraySort(I, I), 'klass': z3.ArraySort(I, I), 'llen': z3.ArraySort(I, I),
    'elem': z3.ArraySort(I, VArr), 'dk': z3.ArraySort(I, KSet), 'dv': z3.ArraySort(I, KMap),
    'dsize': z3.ArraySort(I, I),
}


class Heap:
    __slots__ = FIELDS + ('alloc',)

    def __init__(self, **kw):
        for f in FIELDS:
            setattr(self, f, kw[f])
        self.alloc = kw['alloc']

    @staticmethod
    def fresh(prefix='H'):
        kw = {f: Z.fresh(prefix + '_' + f, SORTS[f]) for f in FIELDS}
        kw['alloc'] = Z.fresh(prefix + '_alloc', I)
        return Heap(**kw)

    def copy(self, **upd):
        kw = {f: getattr(self, f) for f in FIELDS}
        kw['alloc'] = self.alloc
        kw.update(upd)
        return Heap(**kw)

    # ---- reads ----
    # reads are simplified at once: select-over-store and select-over-lambda (beta) reduce syntactically, which keeps
    # terms small and gives E-matching the ground terms it needs.  Stores at *symbolic* addresses (allocations after a
    # havoc) are peeled with the help of the current path condition (RESOLVER, set by the executor).
    def _rd(self, arr, a):
        t = z3.simplify(z3.Select(arr, a))
        if RESOLVER[0] is not None and z3.is_app(t) and t.decl().kind() == z3.Z3_OP_SELECT:
            base, idx = t.arg(0), t.arg(1)
            changed = False
            while z3.is_app(base) and base.decl().kind() == z3.Z3_OP_STORE:
                r = RESOLVER[0](base.arg(1), idx)
                if r is False:          # certainly a different address: skip this store
                    base = base.arg(0)
                    changed = True
                elif r is True:         # certainly the same address
                    return z3.simplify(base.arg(2))
                else:
                    break
            if changed:
                t = z3.simplify(z3.Select(base, idx))
        return t

    def kind_of(self, a): return self._rd(self.kind, a)
    def class_of(self, a): return self._rd(self.klass, a)
    def len_of(self, a): return self._rd(self.llen, a)
    def elems(self, a): return self._rd(self.elem, a)
    def item(self, a, i): return z3.simplify(z3.Select(self._rd(self.elem, a), i))
    def keys(self, a): return self._rd(self.dk, a)
    def vals(self, a): return self._rd(self.dv, a)
    def has_key(self, a, k): return z3.simplify(z3.Select(self._rd(self.dk, a), k))
    def get(self, a, k): return z3.simplify(z3.Select(self._rd(self.dv, a), k))
    def size_of(self, a): return self._rd(self.dsize, a)

    # ---- allocation ----
    def new(self, kind, **init):
        """allocate a fresh address; returns (heap', addr_term)"""
        a = self.alloc
        upd = {'kind': z3.Store(self.kind, a, z3.IntVal(kind)), 'alloc': self.alloc + 1}
        for f, v in init.items():
            upd[f] = z3.Store(getattr(self, f), a, v)
        return self.copy(**upd), a

    def new_list(self, arr, n, kind=Z.K_LIST):
        return self.new(kind, elem=arr, llen=n)

    def new_dict(self, keys, vals, size, kind=Z.K_DICT):
        return self.new(kind, dk=keys, dv=vals, dsize=size)

    # ---- writes ----
    def set_item(self, a, i, v):
        return self.copy(elem=z3.Store(self.elem, a, z3.Store(self.elems(a), i, v)))

    def set_list(self, a, arr, n):
        return self.copy(elem=z3.Store(self.elem, a, arr), llen=z3.Store(self.llen, a, n))

    def set_key(self, a, k, v):
        had = self.has_key(a, k)
        return self.copy(dk=z3.Store(self.dk, a, z3.Store(self.keys(a), k, z3.BoolVal(True))),
                         dv=z3.Store(self.dv, a, z3.Store(self.vals(a), k, v)),
                         dsize=z3.Store(self.dsize, a, self.size_of(a) + z3.If(had, 0, 1)))

    def del_key(self, a, k):
        had = self.has_key(a, k)
        return self.copy(dk=z3.Store(self.dk, a, z3.Store(self.keys(a), k, z3.BoolVal(False))),
                         dsize=z3.Store(self.dsize, a, self.size_of(a) - z3.If(had, 1, 0)))

    def set_dict(self, a, keys, vals, size):
        return self.copy(dk=z3.Store(self.dk, a, keys), dv=z3.Store(self.dv, a, vals),
                         dsize=z3.Store(self.dsize, a, size))

    # ---- relations between heaps ----
    def same_at(self, other, a):
        """object at address a has identical contents in self and other"""
        return z3.And([z3.Select(getattr(self, f), a) == z3.Select(getattr(other, f), a) for f in FIELDS])

    def terms(self):
        return [getattr(self, f) for f in FIELDS] + [self.alloc]


def empty_keys():
    return z3.K(Val, z3.BoolVal(False))


def keyset_of(consts):
    """key set containing exactly the given Val terms"""
    ks = empty_keys()
    for c in consts:
        ks = z3.Store(ks, c, z3.BoolVal(True))
    return ks
