"""pyvc.backends -- second-opinion solvers for obligations z3 leaves open."""
import subprocess, tempfile, time, os


def cvc5_check(solver, timeout_ms):
    """run /usr/bin/cvc5 on the solver's assertions; returns ('unsat'|'sat'|'unknown', seconds)"""
    t0 = time.time()
    text = solver.to_smt2()
    with tempfile.NamedTemporaryFile('w', suffix='.smt2', delete=False) as f:
        f.write("(set-logic ALL)\n" + text)
        path = f.name
    try:
        p = subprocess.run(['/usr/bin/cvc5', '--strings-exp', '--tlimit=%d' % timeout_ms, path],
                           capture_output=True, text=True, timeout=timeout_ms / 1000 + 5)
        out = p.stdout.strip().split('\n')[0] if p.stdout.strip() else 'unknown'
    except Exception:
        out = 'unknown'
    finally:
        os.unlink(path)
    return (out if out in ('sat', 'unsat') else 'unknown'), time.time() - t0
