"""
pyvc.z -- z3 sorts and primitive operations for the Python value / heap model.

Val is a flat datatype (DESIGN 2.2 / 2.10):
    none | b(Bool) | i(Int) | r(Real) | s(String) | ref(Int) | pinf | ninf | nan | cls(Int) | fn(Int)
Python float is modelled as a mathematical real plus three special values (assumption A1).
The heap is a bundle of z3 arrays indexed by address (Heap class in heap.py).
"""
import z3

z3.set_param('model.compact', False)

Val = z3.Datatype('Val')
Val.declare('none')
Val.declare('b', ('bv', z3.BoolSort()))
Val.declare('i', ('iv', z3.IntSort()))
Val.declare('r', ('rv', z3.RealSort()))
Val.declare('s', ('sv', z3.StringSort()))
Val.declare('ref', ('addr', z3.IntSort()))
Val.declare('pinf')
Val.declare('ninf')
Val.declare('nan')
Val.declare('cls', ('cid', z3.IntSort()))
Val.declare('fn', ('fid', z3.IntSort()))
Val = Val.create()

I = z3.IntSort()
R = z3.RealSort()
B = z3.BoolSort()
S = z3.StringSort()
VArr = z3.ArraySort(I, Val)          # list contents: index -> Val
KSet = z3.ArraySort(Val, B)          # dict key set
KMap = z3.ArraySort(Val, Val)        # dict values

# heap object kinds
K_LIST, K_TUPLE, K_DICT, K_SET, K_OBJ, K_OPAQUE = 1, 2, 3, 4, 5, 6
KIND_NAMES = {1: 'list', 2: 'tuple', 3: 'dict', 4: 'set', 5: 'object', 6: 'opaque'}

NONE = Val.none
PINF, NINF, NAN = Val.pinf, Val.ninf, Val.nan


def mk_b(x):
    return Val.b(x)


def mk_i(x):
    return Val.i(x if z3.is_expr(x) else z3.IntVal(x))


def mk_r(x):
    return Val.r(x if z3.is_expr(x) else z3.RealVal(x))


def mk_s(x):
    return Val.s(x if z3.is_expr(x) else z3.StringVal(x))


def mk_ref(a):
    return Val.ref(a if z3.is_expr(a) else z3.IntVal(a))


# ---- tag tests and accessors, distributed over if-then-else ---------------------------------------------
# Values are often ite-terms whose leaves are constructor applications (If(c, r(x), i(y))).  Applying a tester
# or accessor to the ite as a whole hides the tags from the simplifier and piles up nested case analyses, so
# testers/accessors are pushed to the leaves, where they reduce syntactically.

_CTOR_NAMES = ('none', 'b', 'i', 'r', 's', 'ref', 'pinf', 'ninf', 'nan', 'cls', 'fn')


def _lift(v, f, depth=8):
    if depth > 0 and z3.is_app(v) and v.decl().kind() == z3.Z3_OP_ITE:
        c, a, b = v.children()
        la, lb = _lift(a, f, depth - 1), _lift(b, f, depth - 1)
        if la.eq(lb):
            return la
        return z3.If(c, la, lb)
    r = f(v)
    if z3.is_app(v) and v.decl().name() in _CTOR_NAMES and v.decl().kind() != z3.Z3_OP_UNINTERPRETED:
        return z3.simplify(r)
    return r


def is_none(v): return _lift(v, Val.is_none)
def is_b(v): return _lift(v, Val.is_b)
def is_i(v): return _lift(v, Val.is_i)
def is_r(v): return _lift(v, Val.is_r)
def is_s(v): return _lift(v, Val.is_s)
def is_ref(v): return _lift(v, Val.is_ref)
def is_cls(v): return _lift(v, Val.is_cls)
def is_fn(v): return _lift(v, Val.is_fn)
def is_pinf(v): return _lift(v, Val.is_pinf)
def is_ninf(v): return _lift(v, Val.is_ninf)
def is_nan(v): return _lift(v, Val.is_nan)
def bv(v): return _lift(v, Val.bv)
def iv(v): return _lift(v, Val.iv)
def rv(v): return _lift(v, Val.rv)
def sv(v): return _lift(v, Val.sv)
def addr(v): return _lift(v, Val.addr)
def cid(v): return _lift(v, Val.cid)


def is_intlike(v):
    """int or bool (bool is a subclass of int in Python)"""
    return _lift(v, lambda x: z3.Or(Val.is_i(x), Val.is_b(x)))


def is_num(v):
    """finite number: bool, int or (finite) float"""
    return _lift(v, lambda x: z3.Or(Val.is_i(x), Val.is_r(x), Val.is_b(x)))


def is_special(v):
    return _lift(v, lambda x: z3.Or(Val.is_pinf(x), Val.is_ninf(x), Val.is_nan(x)))


def is_floatlike(v):
    """a Python float (finite or special)"""
    return _lift(v, lambda x: z3.Or(Val.is_r(x), Val.is_pinf(x), Val.is_ninf(x), Val.is_nan(x)))


def ival(v):
    """integer value of an int-like Val"""
    return _lift(v, lambda x: z3.If(Val.is_i(x), Val.iv(x), z3.If(Val.bv(x), z3.IntVal(1), z3.IntVal(0))))


def num(v):
    """real value of a finite numeric Val"""
    return _lift(v, lambda x: z3.If(Val.is_i(x), z3.ToReal(Val.iv(x)),
                                    z3.If(Val.is_b(x), z3.If(Val.bv(x), z3.RealVal(1), z3.RealVal(0)), Val.rv(x))))


def simp(e):
    return z3.simplify(e)


_fresh_counter = [0]


def fresh_name(prefix):
    _fresh_counter[0] += 1
    return "%s!%d" % (prefix, _fresh_counter[0])


def fresh(prefix, sort):
    return z3.Const(fresh_name(prefix), sort)


def fresh_val(prefix='v'):
    return fresh(prefix, Val)


def fresh_int(prefix='n'):
    return fresh(prefix, I)


# ---- uninterpreted / axiomatised helpers ------------------------------------

# round(x, 4): abstract; axioms instantiated per occurrence (assumption A2)
round4 = z3.Function('round4', R, R)
# float(int) etc. are identity on the value in the real model
# x ** y for symbolic exponents
POW = z3.Function('POW', R, R, R)
# string helpers (assumption A6: uninterpreted)
STR_OF = z3.Function('STR_OF', Val, S)            # str(x)
STR_REPLACE = z3.Function('STR_REPLACE', S, S, S, S)
STR_LOWER = z3.Function('STR_LOWER', S, S)
STR_STRIP = z3.Function('STR_STRIP', S, S)
STR_JOIN = z3.Function('STR_JOIN', S, Val, S)     # sep.join(ref)
FORMAT1 = z3.Function('FORMAT1', S, Val, S)
FORMAT2 = z3.Function('FORMAT2', S, Val, Val, S)
FORMAT3 = z3.Function('FORMAT3', S, Val, Val, Val, S)
TYPE_STR = z3.Function('TYPE_STR', Val, Val)
NAME_OF = z3.Function('NAME_OF', Val, S)      # x.__name__: some text (A6)
# sums over list contents: SUMR(arr, n) = sum_{k<n} num(arr[k]).  Uninterpreted in verification conditions (a recursive
# definition makes z3 unfold on symbolic n without end -- measured); its defining equations
#     SUMR(a, n) = 0 for n <= 0,   SUMR(a, n+1) = SUMR(a, n) + num(a[n]) for n >= 0
# are used only inside the induction proofs of the lemma library (lemmas.prove_builtin) and for literal lengths.
SUMR = z3.Function('SUMR', VArr, I, R)


def sumr_def(a, n):
    """the defining equations instantiated at (a, n)"""
    return [z3.Implies(n <= 0, SUMR(a, n) == 0),
            z3.Implies(n >= 0, SUMR(a, n + 1) == SUMR(a, n) + num(z3.Select(a, n)))]


# x ** n for integer n >= 0 in the reals (assumption A1): PW(x, 0) = 1, PW(x, n+1) = x * PW(x, n).
# Uninterpreted in verification conditions; the defining equations are used in the lemma library's inductions.
PW = z3.Function('PW', R, I, R)


def pw_def(x, n):
    return [z3.Implies(n <= 0, PW(x, n) == 1), z3.Implies(n >= 0, PW(x, n + 1) == x * PW(x, n))]


# abstract multiplication for quantifier-heavy contexts (contract option nonlinear='abstract'):
# x * y between two non-literal reals becomes MUL(x, y) with the instantiated facts of mul_facts();
# every fact is a theorem of real arithmetic (checked once per run by lemmas.prove_builtin with z3's NRA)
MUL = z3.Function('MUL', R, R, R)


DIVR = z3.Function('DIVR', R, R, R)


def div_facts(x, y, t):
    """facts about t = x / y for y > 0 (theorems of real arithmetic, re-proved each run)"""
    pos = y > 0
    return [z3.Implies(pos, (t >= 0) == (x >= 0)), z3.Implies(pos, (t > 0) == (x > 0)),
            z3.Implies(pos, (t >= 1) == (x >= y)), z3.Implies(pos, (t <= 1) == (x <= y)),
            z3.Implies(pos, (t == 0) == (x == 0)), z3.Implies(pos, (t == 1) == (x == y)),
            z3.Implies(y == 1, t == x)]


def mul_facts(x, y, t):
    return [z3.Implies(z3.Or(x == 0, y == 0), t == 0),
            z3.Implies(x == 1, t == y), z3.Implies(y == 1, t == x),
            z3.Implies(z3.And(x >= 0, y >= 0), t >= 0),
            z3.Implies(z3.And(x > 0, y > 0), t > 0),
            z3.Implies(z3.And(x >= 0, y >= 0, y <= 1), t <= x),
            z3.Implies(z3.And(x >= 0, y >= 0, x <= 1), t <= y),
            z3.Implies(z3.And(x > 0, y >= 0, y < 1), t < x),
            z3.Implies(z3.And(x > 0, y > 0, y < 1), z3.And(t > 0, t < x))]


def forall(vs, body, patterns=None, qid=""):
    """ForAll with patterns when z3 accepts them, without otherwise"""
    if patterns:
        try:
            return z3.ForAll(vs, body, patterns=patterns, qid=qid)
        except z3.Z3Exception:
            pass
    return z3.ForAll(vs, body, qid=qid)
