"""
pyvc.lemmas -- named lemma instantiators.  A contract cites lemmas by name (lemmas=[...]); the facts a
lemma adds to a path are recorded.  Each lemma is either proved separately (prove_all: z3 induction
schema) or is a trusted mathematical axiom listed in evidence (TRUSTED).
"""
import z3
from . import z as Z

TRUSTED = {}

LEMMAS = {}


def lemma(name):
    def deco(fn):
        LEMMAS[name] = fn
        return fn
    return deco


def apply(ex, con, st):
    for name in con.lemmas:
        fn = LEMMAS.get(name)
        if fn is None:
            raise KeyError("unknown lemma " + name)
        st = fn(ex, st)
        ex.lemma_log.append(name)
    return st


@lemma('pow_unit_interval')
def pow_unit_interval(ex, st):
    facts = []
    # instances of the facts proved by induction in prove_builtin() below
    for (x, n, t) in ex.pow_terms:
        unit = z3.And(x >= 0, x <= 1, n >= 0)
        facts.append(z3.Implies(n == 0, t == 1))
        facts.append(z3.Implies(n == 1, t == x))
        facts.append(z3.Implies(unit, z3.And(t >= 0, t <= 1)))
        facts.append(z3.Implies(z3.And(unit, n >= 1), t <= x))
        for (x2, n2, t2) in ex.pow_terms:
            if t2 is not t:
                facts.append(z3.Implies(z3.And(unit, x2 == x, n2 >= n), t2 <= t))
    return st.assume(*facts)


@lemma('sum_ext')
def sum_ext(ex, st):
    """extensionality of SUMR (proved by induction in prove_builtin): equal length and pointwise equal numeric
    values give equal sums.  Instantiated for every pair of sums on the path / in the clause."""
    facts = []
    k = z3.Int('k!se')
    terms = ex.sum_terms
    for i in range(len(terms)):
        for j in range(i + 1, len(terms)):
            (a1, n1), (a2, n2) = terms[i], terms[j]
            if a1.eq(a2) and n1.eq(n2):
                continue
            pw = z3.ForAll([k], z3.Implies(z3.And(k >= 0, k < n1), Z.num(z3.Select(a1, k)) == Z.num(z3.Select(a2, k))))
            facts.append(z3.Implies(z3.And(n1 == n2, pw), Z.SUMR(a1, n1) == Z.SUMR(a2, n2)))
            facts.append(z3.Implies(z3.And(n1 <= 0, n2 <= 0), Z.SUMR(a1, n1) == Z.SUMR(a2, n2)))
    return st.assume(*facts)


@lemma('sum_pad')
def sum_pad(ex, st):
    """sum of a list extended by k copies of the constant c in {-1, 0} (induction-proved: SUMR.pad.*), and
    0 <= SUMR <= n for lists of numbers in [0, 1] (SUMR.bounds.*).  Instantiated for the sums on the path / in the clauses."""
    facts = []
    i = z3.Int('i!sp')
    terms = ex.sum_terms
    for (a, n) in terms:
        facts.append(z3.Implies(z3.And(n >= 0, z3.ForAll([i], z3.Implies(z3.And(i >= 0, i < n), z3.And(Z.num(z3.Select(a, i)) >= 0, Z.num(z3.Select(a, i)) <= 1)))),
                                z3.And(Z.SUMR(a, n) >= 0, Z.SUMR(a, n) <= z3.ToReal(n))))
        facts.append(z3.Implies(n <= 0, Z.SUMR(a, n) == 0))
    for (a1, n1) in terms:
        for (a2, n2) in terms:
            if a1.eq(a2) and n1.eq(n2):
                continue
            same_prefix = z3.ForAll([i], z3.Implies(z3.And(i >= 0, i < n1), Z.num(z3.Select(a2, i)) == Z.num(z3.Select(a1, i))))
            for c in (-1, 0):
                tail = z3.ForAll([i], z3.Implies(z3.And(i >= n1, i < n2), Z.num(z3.Select(a2, i)) == c))
                facts.append(z3.Implies(z3.And(n1 >= 0, n2 >= n1, same_prefix, tail),
                                        Z.SUMR(a2, n2) == Z.SUMR(a1, n1) + c * z3.ToReal(n2 - n1)))
    return st.assume(*facts)


def pw_facts(x, m, n):
    """the instantiated statement of the PW lemma for 0<=x<=1, 0<=m<=n (used by spec-level lemmas)"""
    return [z3.Implies(n == 0, Z.PW(x, n) == 1), z3.Implies(n == 1, Z.PW(x, n) == x), z3.Implies(z3.And(x >= 0, x <= 1, m >= 0, n >= m),
                       z3.And(Z.PW(x, n) >= 0, Z.PW(x, n) <= Z.PW(x, m), Z.PW(x, m) <= 1))]


def prove_builtin(timeout_ms=10000):
    """Induction proofs (base + step as separate z3 queries) of the facts the instantiators above use, from the
    defining equations of PW / SUMR.  The induction schema itself (base /\\ step => forall n) is what is trusted."""
    import time
    out = []
    x = z3.Real('x')
    n, m = z3.Ints('n m')
    PW = Z.PW
    unit = z3.And(x >= 0, x <= 1)

    def prove(name, hyps, goal):
        s = z3.Solver()
        s.set('timeout', timeout_ms)
        for h in hyps:
            s.add(h)
        s.add(z3.Not(goal))
        t0 = time.time()
        r = s.check()
        out.append({'name': name, 'status': 'proved' if r == z3.unsat else ('refuted' if r == z3.sat else 'unknown'),
                    'time_s': round(time.time() - t0, 3), 'backend': 'z3'})

    D = lambda *pairs: [f for (xx, nn) in pairs for f in Z.pw_def(xx, nn)]
    # P(n): 0 <= PW(x,n) <= 1
    prove('PW.bounds.base', [unit] + D((x, z3.IntVal(0))), z3.And(PW(x, 0) >= 0, PW(x, 0) <= 1))
    prove('PW.bounds.step', [unit, n >= 0, PW(x, n) >= 0, PW(x, n) <= 1] + D((x, n)),
          z3.And(PW(x, n + 1) >= 0, PW(x, n + 1) <= 1))
    # Q(n): PW(x,n+1) <= PW(x,n)   (from P(n))
    prove('PW.decr', [unit, n >= 0, PW(x, n) >= 0, PW(x, n) <= 1] + D((x, n)), PW(x, n + 1) <= PW(x, n))
    # M(n): m <= n => PW(x,n) <= PW(x,m), by induction on n starting at m
    prove('PW.mono.base', [unit, m >= 0, n == m], PW(x, n) <= PW(x, m))
    prove('PW.mono.step', [unit, m >= 0, n >= m, PW(x, n) <= PW(x, m), PW(x, n + 1) <= PW(x, n)], PW(x, n + 1) <= PW(x, m))
    prove('PW.one', D((x, z3.IntVal(0))), PW(x, 1) == x)
    # SUMR extensionality, by induction on n: E(n) := (forall k<n. num a[k] = num b[k]) => SUMR(a,n) = SUMR(b,n)
    a, b2 = z3.Consts('a b', Z.VArr)
    prove('SUMR.ext.base', [n <= 0] + Z.sumr_def(a, n) + Z.sumr_def(b2, n), Z.SUMR(a, n) == Z.SUMR(b2, n))
    prove('SUMR.ext.step', [n >= 0, Z.SUMR(a, n) == Z.SUMR(b2, n), Z.num(z3.Select(a, n)) == Z.num(z3.Select(b2, n))]
          + Z.sumr_def(a, n) + Z.sumr_def(b2, n), Z.SUMR(a, n + 1) == Z.SUMR(b2, n + 1))
    # padding: SUMR(b, n+k) = SUMR(a, n) + c*k when b agrees with a below n and is the constant c on [n, n+k)  (c = -1, 0)
    kk = z3.Int('kk')
    for c in (-1, 0):
        prove('SUMR.pad.base[c=%d]' % c, [n >= 0, Z.SUMR(b2, n) == Z.SUMR(a, n)], Z.SUMR(b2, n + 0) == Z.SUMR(a, n) + c * 0)
        prove('SUMR.pad.step[c=%d]' % c, [n >= 0, kk >= 0, Z.SUMR(b2, n + kk) == Z.SUMR(a, n) + c * z3.ToReal(kk),
                                          Z.num(z3.Select(b2, n + kk)) == c] + Z.sumr_def(b2, n + kk),
              Z.SUMR(b2, n + kk + 1) == Z.SUMR(a, n) + c * z3.ToReal(kk + 1))
    # bounds: entries in [0,1] => 0 <= SUMR(a, n) <= n
    prove('SUMR.bounds.base', Z.sumr_def(a, z3.IntVal(0)), z3.And(Z.SUMR(a, 0) >= 0, Z.SUMR(a, 0) <= 0))
    prove('SUMR.bounds.step', [n >= 0, Z.SUMR(a, n) >= 0, Z.SUMR(a, n) <= z3.ToReal(n), Z.num(z3.Select(a, n)) >= 0, Z.num(z3.Select(a, n)) <= 1]
          + Z.sumr_def(a, n), z3.And(Z.SUMR(a, n + 1) >= 0, Z.SUMR(a, n + 1) <= z3.ToReal(n + 1)))
    # prefix counts PC(k) = sum_{i<k} L(i) with L >= 0: monotone -- i < k => PC(i) + L(i) <= PC(k), by induction on k
    PCf = z3.Function('PCf', Z.I, Z.I)
    Lf = z3.Function('Lf', Z.I, Z.I)
    i = z3.Int('i')
    rec = lambda kk: PCf(kk + 1) == PCf(kk) + Lf(kk)
    prove('PC.mono.base', [n == 0, i >= 0, i < n], PCf(i) + Lf(i) <= PCf(n))
    prove('PC.mono.step', [n >= 0, i >= 0, i < n + 1, Lf(n) >= 0, rec(n), z3.Implies(i < n, PCf(i) + Lf(i) <= PCf(n))], PCf(i) + Lf(i) <= PCf(n + 1))
    # the instantiated facts used for abstract multiplication are theorems of real arithmetic
    y = z3.Real('y')
    for k, f in enumerate(Z.mul_facts(x, y, x * y)):
        prove('MUL.fact%d' % k, [], f)
    q = z3.Real('q')
    for k, f in enumerate(Z.div_facts(x, y, q)):
        prove('DIV.fact%d' % k, [z3.Implies(y != 0, q * y == x)], f)
    return out
