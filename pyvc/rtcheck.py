"""
pyvc.rtcheck -- run-time contract checking on the real code: the bounded stand-in tier and the replay of
counter-models.  A contract's clauses (same text as for the proof) are evaluated by CPython around a call
of the real function from the repository working tree.
"""
import os
import sys
import copy
import importlib
import traceback

from . import api, specrt, source as SRC

_loaded = {}


def real_module(rel):
    """import the repository module at rel ('mitxgraders/x.py') from the tree under verification"""
    repo = SRC.REPO
    if repo not in sys.path:
        sys.path.insert(0, repo)
    if '/repo' not in sys.path:
        sys.path.append('/repo')          # vendored voluptuous when REPO is a partial scratch copy
    name = rel[:-3].replace('/', '.')
    if name not in _loaded:
        _loaded[name] = importlib.import_module(name)
    return _loaded[name]


def real_function(ident):
    rel, qual = ident.split('::')
    obj = real_module(rel)
    owner = None
    for part in qual.split('.'):
        owner = obj
        obj = getattr(obj, part)
    return obj, owner


class Outcome:
    def __init__(self):
        self.status = None       # ok | violated | skipped | error
        self.failed = []         # clause texts that evaluated to False
        self.detail = ''
        self.result = None
        self.raised = None


def check_call(ident, args, ufns=None, call=None):
    """args: ordered dict param -> value (including self for methods). Returns Outcome."""
    con = api.REGISTRY[ident]
    out = Outcome()
    fn, owner = real_function(ident)
    env = dict(args)
    rel = ident.split('::')[0]
    for gname in getattr(con, 'global_dicts', []):
        env[gname] = getattr(real_module(rel), gname)
    for txt, gname in getattr(con, 'globals_read', {}).items():
        if gname not in env:
            env[gname] = eval(txt, vars(real_module(rel)))
    specrt.set_vals_pool(list(env.values()))
    for name, f in (ufns or {}).items():
        specrt.bind_ufn(name, f)
    try:
        for cl in con.requires:
            if not specrt.eval_clause(cl, env):
                out.status = 'skipped'
                out.detail = 'requires not met: ' + cl
                return out
        for g, expr in con.ghost.items():
            try:
                env[g] = eval(compile(expr.strip(), '<ghost>', 'eval'), specrt.namespace(env))
            except specrt.Unevaluable:
                raise
            except Exception:
                env[g] = specrt.Undefined()
    except specrt.Unevaluable as e:
        out.status = 'skipped'
        out.detail = 'precondition not executable: %s' % e
        return out
    specrt.track(env)
    old_env = specrt.snapshot(env)
    try:
        if call is not None:
            res = call(fn, args)
        else:
            res = fn(*list(args.values()))
        out.result = res
    except Exception as e:          # noqa: the exceptional exit is what exsures talks about
        out.raised = e
        ok = False
        try:
            for cls, cond in con.exsures.items():
                for nm in [x.strip() for x in cls.split(',')]:
                    k = Exception if nm == '*' else _exc_class(nm)
                    if k is not None and isinstance(e, k):
                        conds = cond if isinstance(cond, (list, tuple)) else [cond]
                        if all((not c or c == 'True' or _safe_eval(c, dict(env, exc=e), old_env)) for c in conds):
                            ok = True
        except specrt.Unevaluable:
            ok = True
        out.status = 'ok' if ok else 'violated'
        if not ok:
            out.failed.append('exsures: %s raised (%s)' % (type(e).__name__, str(e)[:200]))
        return out
    specrt.set_vals_pool(list(env.values()) + [res])
    env2 = dict(env) if 'result' in args else dict(env, result=res)   # a parameter called `result` keeps its name
    for cl in con.ensures:
        try:
            if not specrt.eval_clause(cl, env2, old_env):
                out.failed.append(cl)
        except (specrt.Unevaluable, NameError):
            continue          # (a NameError is a gap in the run-time vocabulary, not a property failure)
        except Exception as e:
            out.failed.append(cl + '   [evaluation raised %s: %s]' % (type(e).__name__, e))
    out.status = 'violated' if out.failed else 'ok'
    return out


def _safe_eval(clause, env, old_env):
    try:
        return specrt.eval_clause(clause, env, old_env)
    except specrt.Unevaluable:
        return True


def _exc_class(name):
    import builtins
    if hasattr(builtins, name):
        return getattr(builtins, name)
    for modname in ('mitxgraders.exceptions', 'mitxgraders.helpers.calc.exceptions', 'mitxgraders.helpers.calc.math_array',
                    'mitxgraders.helpers.calc.specify_domain', 'mitxgraders.formulagrader.integralgrader'):
        try:
            real_module(modname.replace('.', '/') + '.py')
            m = sys.modules[modname]
            if hasattr(m, name):
                return getattr(m, name)
        except Exception:
            continue
    return None
