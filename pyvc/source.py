"""
pyvc.source -- acquire the real source on every run.

Functions are located by "relative/path.py::Qual.name" in the repository working tree
(REPO, default /repo).  Nothing is copied or rewritten: the AST of the real file is what the
symbolic executor walks.  The only thing dropped is a function's docstring.

Also builds the class table (name -> bases, methods, class-level attributes) from the `class`
statements of every module under mitxgraders/, used for method resolution, isinstance and the
exception hierarchy.
"""
import ast
import os
import hashlib

REPO = os.environ.get('VERIF_REPO', '/repo')

_cache = {}


def repo_path(rel):
    return os.path.join(REPO, rel)


def load_module(rel):
    path = repo_path(rel)
    key = (path, os.path.getmtime(path))
    if key not in _cache:
        with open(path, encoding='utf-8') as f:
            text = f.read()
        _cache[key] = (ast.parse(text, filename=path), text)
    return _cache[key]


class FuncSrc:
    def __init__(self, rel, qual, node, cls_node, text):
        self.rel, self.qual, self.node, self.cls_node, self.text = rel, qual, node, cls_node, text
        self.name = node.name
        self.cls_name = cls_node.name if cls_node is not None else None
        seg = ast.get_source_segment(text, node) or ''
        self.sha = hashlib.sha256(seg.encode()).hexdigest()[:16]
        self.lineno = node.lineno
        self.decorators = [ast.unparse(d) for d in node.decorator_list]

    @property
    def is_static(self):
        return 'staticmethod' in self.decorators

    @property
    def is_classmethod(self):
        return 'classmethod' in self.decorators

    def body(self):
        b = self.node.body
        if b and isinstance(b[0], ast.Expr) and isinstance(getattr(b[0], 'value', None), ast.Constant) \
                and isinstance(b[0].value.value, str):
            b = b[1:]   # docstring dropped
        return b


def find_function(ident):
    """ident = 'mitxgraders/x.py::Class.method' or '...::func' or '...::outer.<locals>.inner' not supported"""
    rel, qual = ident.split('::')
    tree, text = load_module(rel)
    parts = qual.split('.')
    scope = tree.body
    cls_node = None
    node = None
    for k, p in enumerate(parts):
        found = None
        for n in scope:
            if isinstance(n, (ast.FunctionDef, ast.ClassDef)) and n.name == p:
                found = n
                # prefer the last definition, as Python would
        if found is None:
            raise KeyError("cannot find %s in %s" % (qual, rel))
        if isinstance(found, ast.ClassDef):
            cls_node = found
            scope = found.body
        else:
            node = found
            scope = found.body
    if node is None:
        raise KeyError("%s is not a function" % ident)
    # import aliases of classes (from m import MathArrayShapeError as ShapeError): the function is read with the real class names
    aliases = {}
    for n in tree.body:
        if isinstance(n, ast.ImportFrom):
            for a in n.names:
                if a.asname and a.asname != a.name:
                    aliases[a.asname] = a.name
    if aliases:
        import copy
        bound = {a.arg for a in ast.walk(node) if isinstance(a, ast.arg)} | {t.id for t in ast.walk(node) if isinstance(t, ast.Name) and isinstance(t.ctx, ast.Store)}
        use = {k: v for k, v in aliases.items() if k not in bound}
        if any(isinstance(t, ast.Name) and t.id in use for t in ast.walk(node)):
            node = copy.deepcopy(node)
            for t in ast.walk(node):
                if isinstance(t, ast.Name) and t.id in use:
                    t.id = use[t.id]
    return FuncSrc(rel, qual, node, cls_node, text)


# ---- class table --------------------------------------------------------------

BUILTIN_EXC = {
    'BaseException': [], 'Exception': ['BaseException'], 'ArithmeticError': ['Exception'],
    'ZeroDivisionError': ['ArithmeticError'], 'OverflowError': ['ArithmeticError'],
    'FloatingPointError': ['ArithmeticError'],
    'LookupError': ['Exception'], 'KeyError': ['LookupError'], 'IndexError': ['LookupError'],
    'TypeError': ['Exception'], 'ValueError': ['Exception'], 'AttributeError': ['Exception'],
    'AssertionError': ['Exception'], 'RuntimeError': ['Exception'], 'StopIteration': ['Exception'],
    'NotImplementedError': ['RuntimeError'], 'RecursionError': ['RuntimeError'],
    'NameError': ['Exception'], 'UnicodeError': ['ValueError'],
    # third-party exceptions the repository catches by name
    'MultipleInvalid': ['Invalid'], 'Invalid': ['Error'], 'Error': ['Exception'],
    'ParseException': ['Exception'], 'LinAlgError': ['ValueError'],
    'object': [],
}


class ClassInfo:
    def __init__(self, name, bases, rel=None, node=None):
        self.name, self.bases, self.rel, self.node = name, bases, rel, node
        self.methods = {}
        self.attrs = {}
        if node is not None:
            for n in node.body:
                if isinstance(n, ast.FunctionDef):
                    self.methods[n.name] = n
                elif isinstance(n, ast.Assign) and len(n.targets) == 1 and isinstance(n.targets[0], ast.Name):
                    self.attrs[n.targets[0].id] = n.value


class ClassTable:
    def __init__(self):
        self.classes = {}
        for name, bases in BUILTIN_EXC.items():
            self.classes[name] = ClassInfo(name, bases)
        walk = list(os.walk(repo_path('mitxgraders')))
        # the vendored voluptuous validators are under contract too (C20); mitxgraders' own names win on a clash
        vol = repo_path('voluptuous')
        if os.path.isdir(vol):
            walk.append((vol, [], ['error.py', 'validators.py']))
        for dirpath, _dirs, files in walk:
            for fn in sorted(files):
                if not fn.endswith('.py'):
                    continue
                rel = os.path.relpath(os.path.join(dirpath, fn), REPO)
                try:
                    tree, _ = load_module(rel)
                except SyntaxError:
                    continue
                for n in tree.body:
                    if isinstance(n, ast.ClassDef):
                        bases = []
                        for b in n.bases:
                            if isinstance(b, ast.Name):
                                bases.append(b.id)
                            elif isinstance(b, ast.Attribute):
                                bases.append(b.attr)
                        if not bases:
                            bases = ['object']
                        # a later definition with the same name in another module would clash;
                        # the repository has none for the classes used here
                        self.classes.setdefault(n.name, ClassInfo(n.name, bases, rel, n))
        self.names = sorted(self.classes)
        self.ids = {n: k + 1 for k, n in enumerate(self.names)}

    def cid(self, name):
        return self.ids[name]

    def ancestors(self, name):
        seen = []
        todo = [name]
        while todo:
            c = todo.pop(0)
            if c in seen or c not in self.classes:
                continue
            seen.append(c)
            todo.extend(self.classes[c].bases)
        return seen

    def is_subclass(self, name, base):
        return base in self.ancestors(name)

    def descendants(self, base):
        return [n for n in self.names if self.is_subclass(n, base)]

    def resolve_method(self, cls, meth, after=None):
        """MRO lookup (single inheritance chain as in the repository).  after=C: start after class C (super)."""
        chain = self.ancestors(cls)
        if after is not None:
            chain = chain[chain.index(after) + 1:]
        for c in chain:
            ci = self.classes.get(c)
            if ci is not None and meth in ci.methods:
                return ci
        return None

    def resolve_attr(self, cls, attr):
        for c in self.ancestors(cls):
            ci = self.classes.get(c)
            if ci is not None and attr in ci.attrs:
                return ci, ci.attrs[attr]
        return None, None


_ct = None


def class_table():
    global _ct
    if _ct is None:
        _ct = ClassTable()
    return _ct
