"""
pyvc.specrt -- CPython meaning of the spec vocabulary (DESIGN 2.7): the same clause text that the
executor translates to z3 is evaluated concretely here (replay of counter-models, bounded stand-ins,
engine cross-check).  `old(e)` is handled by AST rewriting in eval_clause.
"""
import ast
import copy
import math
import numbers
import builtins

# id(copy) -> original object, filled by snapshot(); lets same(x, old(y)) compare identities across the snapshot
COPY_OF = {}


class Unevaluable(Exception):
    pass


class Undefined:
    """value of a ghost expression that has no value on this input (e.g. int(inf)); any use is Unevaluable"""

    def _u(self, *a, **k):
        raise Unevaluable("ghost value undefined on this input")
    __eq__ = __ne__ = __lt__ = __le__ = __gt__ = __ge__ = __add__ = __radd__ = __sub__ = __rsub__ = _u
    __mul__ = __rmul__ = __truediv__ = __floordiv__ = __mod__ = __neg__ = __bool__ = __int__ = __float__ = __index__ = _u
    __hash__ = None


def implies(a, b):
    return (not a) or bool(b)


def iff(a, b):
    return bool(a) == bool(b)


def forall(rng, fn):
    return all(fn(i) for i in rng)


def exists(rng, fn):
    return any(fn(i) for i in rng)


def is_number(x):
    return isinstance(x, (int, float)) and not isinstance(x, complex) and not (isinstance(x, float) and (math.isinf(x) or math.isnan(x)))


def is_real(x):
    return isinstance(x, float) and not (math.isinf(x) or math.isnan(x))


def is_int(x):
    return isinstance(x, int) and not isinstance(x, bool)


def is_intlike(x):
    return isinstance(x, int)


def is_bool(x):
    # numpy comparisons return numpy.bool_: a boolean for every purpose of the contracts
    return isinstance(x, bool) or type(x).__name__ in ('bool_', 'bool')


def is_str(x):
    return isinstance(x, str)


def is_none(x):
    return x is None


def is_inf(x):
    return isinstance(x, float) and math.isinf(x)


def sum_over(n, fn):
    return sum(fn(i) for i in range(n))


def is_nan(x):
    return isinstance(x, float) and math.isnan(x)


def is_pinf(x):
    return isinstance(x, float) and math.isinf(x) and x > 0


def is_ninf(x):
    return isinstance(x, float) and math.isinf(x) and x < 0


def is_callable(x):
    return callable(x)


def is_list(x):
    return isinstance(x, list)


def is_tuple(x):
    return isinstance(x, tuple)


def is_seq(x):
    return isinstance(x, (list, tuple))


def is_dict(x):
    return isinstance(x, dict)


def is_set(x):
    return isinstance(x, (set, frozenset))


def is_object(x):
    return hasattr(x, '__dict__')


def is_instance(x, t):
    return isinstance(x, t)


def has_keys(d, *ks):
    return all(k in d for k in ks)


def keys_exactly(d, *ks):
    return set(d.keys()) == set(ks)


def keys_subset(d, *ks):
    return set(d.keys()) <= set(ks)


def keys(d):
    return frozenset(d.keys())


def has_attr(o, *names):
    return all(hasattr(o, n) for n in names)


def _orig(x):
    return COPY_OF.get(id(x), x)


def same(a, b):
    """identity for objects (through the pre-state snapshot), value-and-type identity for scalars"""
    if isinstance(a, (bool, int, float, str, type(None))) or isinstance(b, (bool, int, float, str, type(None))):
        if type(a) is not type(b):
            # ints and floats of equal value are different objects; True is not 1
            return False
        return a == b or (a != a and b != b)
    return _orig(a) is _orig(b)


def allocated(x):
    return True


def fresh(x):
    # not one of the objects reachable from the arguments before the call (those are kept alive by track())
    return id(x) not in _LIVE


def unchanged(x):
    raise Unevaluable("unchanged() needs the snapshot; use deep equality clauses")


def round4(x):
    return round(float(x), 4)


def num(x):
    return float(x)


def int_pow(x, n):
    return float(x) ** n


def real_pow(x, y):
    return float(x) ** float(y)


def spec_sum(xs, n=None):
    return math.fsum(xs if n is None else xs[:n])


def count_failures(xs, k):
    # failures are counted on the results as they were handed over (the returned one may get its ok recomputed)
    olds = xs
    for cp_id, orig in COPY_OF.items():
        if orig is xs and cp_id in _COPIES:
            olds = _COPIES[cp_id]
    return sum(1 for x in olds[:k] if not (x['ok'] == True))


_COPIES = {}


_OLD_RESULTS = {}


def sum_field(xs, key):
    return math.fsum(x[key] for x in xs)


def prefix_count(xs, k, field):
    return sum(len(x[field]) for x in xs[:k])


_VALS_POOL = []


def vals():
    """run-time stand-in for 'all values': every dict key / scalar reachable from the arguments and the result, plus a few foreign ones"""
    return list(_VALS_POOL) + ['__no_such_key__', 0, 1, None]


def set_vals_pool(objs):
    seen, pool = set(), []

    def walk(o, depth=0):
        if id(o) in seen or depth > 4:
            return
        seen.add(id(o))
        if isinstance(o, dict):
            for k, v in o.items():
                if k not in pool:
                    pool.append(k)
                walk(v, depth + 1)
        elif isinstance(o, (list, tuple, set)):
            for x in o:
                walk(x, depth + 1)
        elif isinstance(o, (str, int, float)) and o not in pool:
            pool.append(o)
    walk(objs)
    _VALS_POOL[:] = pool[:200]


def ints():
    return range(-6, 7)


def msg_of(e):
    return str(e)


def subclass_of(e, cls):
    return isinstance(e, cls)


def class_is(e, cls):
    return type(e) is cls


def range_sum(name, first, count, step):
    return sum(ufn(name, first + k * step) for k in range(max(0, int(count))))


_UFN = {}


def ufn(name, *args):
    f = _UFN.get(name)
    if f is None:
        raise Unevaluable("uninterpreted function %s has no concrete binding" % name)
    return f(*args)


def upred(name, *args):
    return bool(ufn(name, *args))


def uint(name, *args):
    return int(ufn(name, *args))


def ureal(name, *args):
    return ufn(name, *args)


def bind_ufn(name, fn):
    _UFN[name] = fn


def str_lower(a):
    return a.lower()


def str_replace(a, b, c):
    return a.replace(b, c)


_PRE_IDS = set()


def snapshot(objs):
    """deep copy of the argument objects before the call; remembers which copy stands for which original"""
    COPY_OF.clear()
    _PRE_IDS.clear()
    memo = {}
    snap = copy.deepcopy(objs, memo)
    _COPIES.clear()
    for oid, cp in memo.items():
        if isinstance(cp, (list, dict, set)) or hasattr(cp, '__dict__'):
            COPY_OF[id(cp)] = _find(oid)
            _COPIES[id(cp)] = cp
    for oid in list(memo):
        _PRE_IDS.add(oid)
    return snap


_LIVE = {}


def _find(oid):
    return _LIVE.get(oid)


def track(objs):
    """register live objects reachable from objs so snapshot() can map copies back (ids -> objects)"""
    _LIVE.clear()
    seen = set()

    def walk(o):
        if id(o) in seen:
            return
        seen.add(id(o))
        if isinstance(o, (list, tuple, set, frozenset)):
            _LIVE[id(o)] = o
            for x in o:
                walk(x)
        elif isinstance(o, dict):
            _LIVE[id(o)] = o
            for k, v in o.items():
                walk(k)
                walk(v)
        elif hasattr(o, '__dict__'):
            _LIVE[id(o)] = o
            walk(o.__dict__)
    walk(objs)


class LazyImplies(ast.NodeTransformer):
    """implies(a, b) -> ((not a) or b): Python evaluates call arguments eagerly, implication must not"""

    def visit_Call(self, node):
        self.generic_visit(node)
        if isinstance(node.func, ast.Name) and node.func.id == 'implies' and len(node.args) == 2:
            return ast.copy_location(ast.BoolOp(op=ast.Or(), values=[ast.UnaryOp(op=ast.Not(), operand=node.args[0]), node.args[1]]), node)
        return node


class FloatEq(ast.NodeTransformer):
    """a == b / a != b -> feq(a, b) / not feq(a, b): contracts treat floats as reals (A1), so at run time two floating-point
    numbers that differ only by rounding (relative 1e-12) are the same real number; everything else compares with Python's =="""

    def visit_Compare(self, node):
        self.generic_visit(node)
        if len(node.ops) == 1 and isinstance(node.ops[0], (ast.Eq, ast.NotEq)):
            call = ast.Call(func=ast.Name(id='feq', ctx=ast.Load()), args=[node.left, node.comparators[0]], keywords=[])
            out = call if isinstance(node.ops[0], ast.Eq) else ast.UnaryOp(op=ast.Not(), operand=call)
            return ast.copy_location(out, node)
        return node


def feq(a, b):
    import numbers
    if (isinstance(a, numbers.Number) and isinstance(b, numbers.Number) and not isinstance(a, bool) and not isinstance(b, bool)
            and (isinstance(a, (float, complex)) or isinstance(b, (float, complex)) or type(a).__module__ == 'numpy' or type(b).__module__ == 'numpy')):
        try:
            if a == b:
                return True
            import cmath
            return cmath.isclose(complex(a), complex(b), rel_tol=1e-12, abs_tol=0.0)
        except (TypeError, ValueError, OverflowError):
            return a == b
    r = (a == b)
    return r


class _OldRewriter(ast.NodeTransformer):
    def __init__(self):
        self.olds = []

    def visit_Call(self, node):
        if isinstance(node.func, ast.Name) and node.func.id == 'old' and len(node.args) == 1:
            self.olds.append(node.args[0])
            return ast.copy_location(ast.Call(func=ast.Name(id='__old__', ctx=ast.Load()),
                                              args=[ast.Constant(len(self.olds) - 1)], keywords=[]), node)
        return self.generic_visit(node)


def namespace(extra=None):
    from . import api
    ns = {k: v for k, v in globals().items() if not k.startswith('_')}
    try:
        import numpy as _numpy
        ns['np'] = _numpy
    except ImportError:
        pass
    for name, (_params, _body, fn) in api.SPEC_FUNCS.items():
        ns[name] = fn
    ns.update(extra or {})
    return ns


def eval_clause(clause, env, old_env=None, extra=None):
    """evaluate a spec clause concretely. env: names in the post-state; old_env: names in the pre-state snapshot"""
    tree = ast.parse(clause.strip(), mode='eval')
    rw = _OldRewriter()
    tree = LazyImplies().visit(tree)
    tree = FloatEq().visit(tree)
    tree = rw.visit(tree)
    ast.fix_missing_locations(tree)
    ns = namespace(extra)
    ns.update(env)

    def make_old(post_frame_locals=None):
        def __old__(k):
            e = ast.Expression(rw.olds[k])
            ast.fix_missing_locations(e)
            ns_old = namespace(extra)
            ns_old.update(old_env if old_env is not None else env)
            # bound variables of enclosing lambdas are looked up dynamically
            ns_old.update(_BOUND[-1] if _BOUND else {})
            return eval(compile(e, '<old>', 'eval'), ns_old)
        return __old__

    ns['__old__'] = make_old()
    # make lambda-bound variables visible to old(): wrap forall/exists to push bindings
    def _forall(rng, fn):
        names = fn.__code__.co_varnames[:fn.__code__.co_argcount]
        for i in rng:
            _BOUND.append(dict(_BOUND[-1] if _BOUND else {}, **{names[0]: i}))
            try:
                if not fn(i):
                    return False
            finally:
                _BOUND.pop()
        return True

    def _exists(rng, fn):
        names = fn.__code__.co_varnames[:fn.__code__.co_argcount]
        for i in rng:
            _BOUND.append(dict(_BOUND[-1] if _BOUND else {}, **{names[0]: i}))
            try:
                if fn(i):
                    return True
            finally:
                _BOUND.pop()
        return False

    ns['forall'] = _forall
    ns['exists'] = _exists
    allspec = __import__('pyvc.api', fromlist=['SPEC_FUNCS']).SPEC_FUNCS
    for name, (_params, _body, fn) in allspec.items():
        # spec functions resolve the vocabulary (and each other) through their module globals
        fn.__globals__.update({k: v for k, v in ns.items() if k in ('forall', 'exists')})
        for n2, (_p, _b, f2) in allspec.items():
            fn.__globals__.setdefault(n2, f2)
    return bool(eval(compile(tree, '<clause>', 'eval'), ns))


_BOUND = []


def install_vocabulary(module_globals):
    """make the vocabulary importable by contract modules (spec functions are real Python functions)"""
    for k, v in globals().items():
        if not k.startswith('_') and k not in ('ast', 'copy', 'math', 'numbers', 'builtins'):
            module_globals.setdefault(k, v)
