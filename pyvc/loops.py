"""
pyvc.loops -- iteration views, for/while loops by invariant, comprehensions.
"""
import ast
import z3

from . import z as Z
from .z import Val, I, R, B, S, VArr
from .heap import Heap, empty_keys, FIELDS
from .symex import Unsupported, VTuple, IterView, Closure, VC


def loop_signature(node):
    if isinstance(node, ast.For):
        return "for %s in %s" % (ast.unparse(node.target), ast.unparse(node.iter))
    return "while %s" % ast.unparse(node.test)


def assigned_names(stmts):
    """local names (re)bound anywhere in the statements (syntactic write set)"""
    names = set()

    def tgt(t):
        if isinstance(t, ast.Name):
            names.add(t.id)
        elif isinstance(t, (ast.Tuple, ast.List)):
            for e in t.elts:
                tgt(e)
        elif isinstance(t, ast.Starred):
            tgt(t.value)

    for s in stmts:
        for n in ast.walk(s):
            if isinstance(n, ast.Assign):
                for t in n.targets:
                    tgt(t)
            elif isinstance(n, (ast.AugAssign, ast.AnnAssign)):
                tgt(n.target)
            elif isinstance(n, ast.For):
                tgt(n.target)
            elif isinstance(n, ast.With):
                for it in n.items:
                    if it.optional_vars is not None:
                        tgt(it.optional_vars)
            elif isinstance(n, ast.ExceptHandler) and n.name:
                names.add(n.name)
            elif isinstance(n, ast.FunctionDef):
                names.add(n.name)
            elif isinstance(n, ast.NamedExpr):
                tgt(n.target)
            elif isinstance(n, ast.Delete):
                for t in n.targets:
                    tgt(t)
    return names


def writes_heap(stmts):
    """conservative syntactic test: may the statements write to / allocate on the heap?"""
    for s in stmts:
        for n in ast.walk(s):
            if isinstance(n, (ast.Assign, ast.AugAssign)):
                tgts = n.targets if isinstance(n, ast.Assign) else [n.target]
                for t in tgts:
                    for x in ast.walk(t):
                        if isinstance(x, (ast.Subscript, ast.Attribute)):
                            return True
                if isinstance(n, ast.AugAssign):
                    return True
            elif isinstance(n, (ast.Call, ast.List, ast.Dict, ast.Set, ast.ListComp, ast.DictComp, ast.SetComp,
                                ast.Tuple, ast.Delete, ast.Raise, ast.GeneratorExp)):
                return True
    return False


class LoopsMixin:

    # ------------------------------------------------------------------ iteration views
    def iter_view(self, node, st):
        """list of (state, IterView) for an iterable expression"""
        if isinstance(node, ast.Call) and isinstance(node.func, ast.Name) and node.func.id not in st.env:
            fn = node.func.id
            if fn == 'range':
                outs = []
                for (s, pos, kw) in self.eval_args(node, st):
                    ok = z3.And([Z.is_intlike(p) for p in pos])
                    s2 = self.guard(s, ok, 'TypeError', 'range() of non-int')
                    if s2 is None:
                        continue
                    if len(pos) == 1:
                        lo, hi, step = z3.IntVal(0), Z.ival(pos[0]), z3.IntVal(1)
                    elif len(pos) == 2:
                        lo, hi, step = Z.ival(pos[0]), Z.ival(pos[1]), z3.IntVal(1)
                    else:
                        lo, hi, step = Z.ival(pos[0]), Z.ival(pos[1]), Z.ival(pos[2])
                        stp = z3.simplify(step)
                        if not (z3.is_int_value(stp) and stp.as_long() > 0) and not self.known(s2, step > 0):
                            raise Unsupported("range step must be known positive", node)
                    n = z3.simplify(z3.If(hi > lo, (hi - lo + step - 1) / step, z3.IntVal(0)))
                    outs.append((s2, IterView(n, lambda i, lo=lo, step=step: Z.mk_i(lo + i * step), what='range')))
                return outs
            if fn == 'enumerate' and len(node.args) == 1:
                return [(s, IterView(v.n, lambda i, v=v: VTuple([Z.mk_i(i), v.get(i)]), v.facts, 'enumerate'))
                        for (s, v) in self.iter_view(node.args[0], st)]
            if fn == 'zip':
                outs = [(st, [])]
                for a in node.args:
                    nxt = []
                    for (s, views) in outs:
                        for (s2, v) in self.iter_view(a, s):
                            nxt.append((s2, views + [v]))
                    outs = nxt
                res = []
                for (s, views) in outs:
                    n = views[0].n
                    for v in views[1:]:
                        n = z3.If(v.n < n, v.n, n)
                    facts = [f for v in views for f in v.facts]
                    res.append((s, IterView(z3.simplify(n), lambda i, views=views: VTuple([v.get(i) for v in views]), facts, 'zip')))
                return res
            if fn in ('list', 'tuple', 'sorted_copy') and len(node.args) == 1 and not node.keywords:
                return self.iter_view(node.args[0], st)
            if fn == 'reversed' and len(node.args) == 1:
                return [(s, IterView(v.n, lambda i, v=v: v.get(v.n - 1 - i), v.facts, 'reversed'))
                        for (s, v) in self.iter_view(node.args[0], st)]
        if isinstance(node, (ast.ListComp, ast.GeneratorExp)):
            return self.comp_view(node, st)
        if isinstance(node, ast.Call) and isinstance(node.func, ast.Attribute) and node.func.attr in ('items', 'keys', 'values') \
                and not node.args:
            outs = []
            for (s, d) in self.ev(node.func.value, st):
                if not self.known(s, self.is_kind(s, d, Z.K_DICT)):
                    raise Unsupported("items()/keys() of non-dict", node)
                outs.append((s, self.dict_view(s, d, node.func.attr)))
            return outs
        if isinstance(node, (ast.Tuple, ast.List)) and not (self.pure or self.spec):
            outs = []
            for (s, vals) in self.ev_seq(node.elts, st):
                vals2 = []
                for v in vals:
                    s, v = self.materialize(s, v)
                    vals2.append(v)
                arr = z3.K(I, Z.NONE)
                for k, v in enumerate(vals2):
                    arr = z3.Store(arr, k, v)
                outs.append((s, IterView(z3.IntVal(len(vals2)), lambda i, arr=arr: z3.Select(arr, i), what='literal')))
            return outs
        outs = []
        for (s, v) in self.ev(node, st):
            outs.append((s, self.value_view(s, v, node)))
        return outs

    def value_view(self, st, v, node=None):
        if isinstance(v, VTuple):
            arr = None
            items = v.items
            if any(isinstance(x, VTuple) for x in items):
                raise Unsupported("nested virtual tuple iteration", node)
            arr = z3.K(I, Z.NONE)
            for k, x in enumerate(items):
                arr = z3.Store(arr, k, x)
            return IterView(z3.IntVal(len(items)), lambda i: z3.Select(arr, i), what='tuple')
        h = st.heap
        a = Z.addr(v)
        if self.known(st, self.is_kind(st, v, Z.K_LIST, Z.K_TUPLE)) or self.spec:
            arr = h.elems(a)   # snapshot of the contents at loop entry
            n = h.len_of(a)
            return IterView(n, lambda i: z3.simplify(z3.Select(arr, i)), [n >= 0], 'list')
        if self.known(st, self.is_kind(st, v, Z.K_DICT, Z.K_SET)):
            return self.dict_view(st, v, 'keys')
        raise Unsupported("iteration over value of unknown kind" + (": " + ast.unparse(node) if node is not None else ''), node)

    def dict_view(self, st, d, what):
        """some duplicate-free enumeration of the key set (A5: order not modelled)"""
        self.used_assumptions.add('A5')
        h = st.heap
        a = Z.addr(d)
        n = h.size_of(a)
        en = Z.fresh('enum', VArr)
        pos = z3.Function(Z.fresh_name('pos'), Val, I)
        j = z3.Int('j!dv')
        k = z3.Const('k!dv', Val)
        keys = h.keys(a)
        vals = h.vals(a)
        facts = [n >= 0,
                 # (keys of the model's dicts are kept normalised -- True/1/1.0 collapse to the int key -- by every insertion)
                 Z.forall([j], z3.Implies(z3.And(j >= 0, j < n),
                                           z3.And(z3.Select(keys, z3.Select(en, j)), pos(z3.Select(en, j)) == j,
                                                  z3.Not(Z.is_b(z3.Select(en, j))),
                                                  z3.Not(z3.And(Z.is_r(z3.Select(en, j)), z3.IsInt(Z.rv(z3.Select(en, j))))))),
                           patterns=[z3.Select(en, j)]),
                 z3.ForAll([k], z3.Implies(z3.Select(keys, k),
                                           z3.And(pos(k) >= 0, pos(k) < n, z3.Select(en, pos(k)) == k)),
                           patterns=[z3.Select(keys, k)])]
        if what == 'keys':
            get = lambda i: z3.Select(en, i)
        elif what == 'values':
            get = lambda i: z3.Select(vals, z3.Select(en, i))
        else:
            get = lambda i: VTuple([z3.Select(en, i), z3.Select(vals, z3.Select(en, i))])
        return IterView(n, get, facts, 'dict.' + what)

    # ------------------------------------------------------------------ comprehensions
    def comp_view(self, node, st):
        """[elt for x in xs if c] as an IterView (no allocation in elt)"""
        if len(node.generators) != 1:
            raise Unsupported("nested comprehension", node)
        gen = node.generators[0]
        if gen.is_async:
            raise Unsupported("async comprehension", node)
        outs = []
        for (s, src) in self.iter_view(gen.iter, st):
            s = s.assume(*src.facts)

            def body_at(idx, which, s=s, src=src):
                env = dict(s.env)
                self._bind_target_env(env, gen.target, src.get(idx), s)
                # idx is a fresh constant standing for an arbitrary index in range: facts proved about it
                # under this assumption hold for every element
                inner = s.clone(env=env).assume(idx >= 0, idx < src.n)
                self.pure += 1
                side0 = len(self.side)
                try:
                    v = self.ev1(which, inner)
                finally:
                    self.pure -= 1
                conds = self.side[side0:]
                del self.side[side0:]
                return v, conds

            j = z3.Int('j!comp%d' % node.col_offset)
            rng = z3.And(j >= 0, j < src.n)
            # definedness of the element/filter expressions for every index is an obligation
            v_j, conds = body_at(j, node.elt)
            filt = None
            if gen.ifs:
                fconds = []
                fparts = []
                for cnd in gen.ifs:
                    fv, fc = body_at(j, cnd)
                    fparts.append(self.truth(s, fv))
                    fconds.extend(fc)
                filt_j = z3.And(fparts)
                # element expression only evaluated where the filter holds
                conds = [(ctx + [filt_j], ok, cls, what) for (ctx, ok, cls, what) in conds] + fconds
                filt = filt_j
            s2 = s
            for (ctx, ok, cls, what) in conds:
                goal = z3.ForAll([j], z3.Implies(z3.And(rng, *ctx), ok))
                if not self.known(s2, goal):
                    s2 = self.guard_q(s2, goal, cls, 'in comprehension: ' + what)
                    if s2 is None:
                        break
            if s2 is None:
                continue
            if filt is None:
                get = lambda i, j=j, v_j=v_j: z3.substitute(v_j, (j, i)) if not isinstance(v_j, VTuple) else \
                    VTuple([z3.substitute(x, (j, i)) for x in v_j.items])
                outs.append((s2, IterView(src.n, get, [], 'comprehension')))
            else:
                # filtered: fresh length m and strictly increasing index map phi
                m = Z.fresh_int('m')
                phi = z3.Function(Z.fresh_name('phi'), I, I)
                inv = z3.Function(Z.fresh_name('phinv'), I, I)
                a, b = z3.Int('a!phi'), z3.Int('b!phi')
                P = lambda i: z3.substitute(filt, (j, i))
                facts = [m >= 0, m <= src.n,
                         z3.ForAll([a], z3.Implies(z3.And(a >= 0, a < m),
                                                   z3.And(phi(a) >= 0, phi(a) < src.n, P(phi(a)), inv(phi(a)) == a)),
                                   patterns=[phi(a)]),
                         z3.ForAll([a, b], z3.Implies(z3.And(a >= 0, a < b, b < m), phi(a) < phi(b)), patterns=[z3.MultiPattern(phi(a), phi(b))]),
                         z3.ForAll([a], z3.Implies(z3.And(a >= 0, a < src.n, P(a)),
                                                   z3.And(inv(a) >= 0, inv(a) < m, phi(inv(a)) == a)),
                                   patterns=[inv(a)])]
                if isinstance(v_j, VTuple):
                    get = lambda i: VTuple([z3.substitute(x, (j, phi(i))) for x in v_j.items])
                else:
                    get = lambda i: z3.substitute(v_j, (j, phi(i)))
                view = IterView(m, get, facts, 'filtered comprehension')
                view.phi, view.inv, view.src_n, view.filter = phi, inv, src.n, P
                outs.append((s2, view))
        return outs

    def guard_q(self, st, goal, cls, what):
        if st.feasible(z3.Not(goal)):
            self.throw_new(st.assume(z3.Not(goal)), cls, what)
        return st.assume(goal)

    def _bind_target_env(self, env, target, val, st):
        if isinstance(target, ast.Name):
            env[target.id] = val
        elif isinstance(target, (ast.Tuple, ast.List)):
            if isinstance(val, VTuple):
                if len(val.items) != len(target.elts):
                    raise Unsupported("unpack arity", target)
                for t, v in zip(target.elts, val.items):
                    self._bind_target_env(env, t, v, st)
            else:
                a = Z.addr(val)
                for k, t in enumerate(target.elts):
                    self._bind_target_env(env, t, st.heap.item(a, k), st)
        else:
            raise Unsupported("comprehension target", target)

    def ev_ListComp(self, node, st):
        outs = []
        for (s, view) in self.comp_view(node, st):
            s = s.assume(*view.facts)
            k = z3.Int('k!lc')
            v = view.get(k)
            if isinstance(v, VTuple):
                raise Unsupported("list of tuples from comprehension", node)
            h2, a = s.heap.new_list(z3.Lambda([k], v), view.n)
            s2 = s.with_heap(h2)
            if hasattr(view, 'phi'):
                s2 = s2.with_meta(**{'filtered_%s' % a.sexpr(): view})
            outs.append((s2, Z.mk_ref(a)))
        return outs

    def ev_GeneratorExp(self, node, st):
        raise Unsupported("generator expression outside all/any/sum/max/min/tuple/list", node)

    def ev_DictComp(self, node, st):
        """{k: v for k, v in d.items() if cond(k)}: key-preserving filter/map of a dict"""
        if len(node.generators) != 1:
            raise Unsupported("nested dict comprehension", node)
        gen = node.generators[0]
        it = gen.iter
        if isinstance(it, (ast.List, ast.Tuple)) and all(isinstance(e, ast.Constant) for e in it.elts) and isinstance(gen.target, ast.Name) \
                and isinstance(node.key, ast.Name) and node.key.id == gen.target.id and not gen.ifs:
            # {k: f(k) for k in ['a', 'b', ...]}: unrolled over the literal keys
            states = [(st, [])]
            for e in it.elts:
                nxt = []
                for (s, vals) in states:
                    kv = self.ev1(e, s)
                    for (s2, v) in self.ev(node.value, s.bind(gen.target.id, kv)):
                        s2, v = self.materialize(s2, v)
                        nxt.append((s2.clone(env=s.env), vals + [(kv, v)]))
                states = nxt
            outs = []
            for (s, kvs) in states:
                keys = empty_keys()
                vals = z3.K(Val, Z.NONE)
                size = z3.IntVal(0)
                for kv, v in kvs:
                    kk = self.nk(kv)
                    size = size + z3.If(z3.Select(keys, kk), 0, 1)
                    keys = z3.Store(keys, kk, z3.BoolVal(True))
                    vals = z3.Store(vals, kk, v)
                h2, r = s.heap.new_dict(keys, vals, z3.simplify(size))
                outs.append((s.with_heap(h2), Z.mk_ref(r)))
            return outs
        if not (isinstance(it, ast.Call) and isinstance(it.func, ast.Attribute) and it.func.attr == 'items' and not it.args
                and isinstance(gen.target, ast.Tuple) and len(gen.target.elts) == 2
                and all(isinstance(e, ast.Name) for e in gen.target.elts)
                and isinstance(node.key, ast.Name) and node.key.id == gen.target.elts[0].id):
            raise Unsupported("dict comprehension form " + ast.unparse(node), node)
        kname, vname = gen.target.elts[0].id, gen.target.elts[1].id
        outs = []
        for (s, d) in self.ev(it.func.value, st):
            if not self.known(s, self.is_kind(s, d, Z.K_DICT)):
                raise Unsupported("dict comprehension over non-dict", node)
            h = s.heap
            a = Z.addr(d)
            kq = z3.Const('k!dc', Val)
            env = dict(s.env)
            env[kname] = kq
            env[vname] = z3.Select(h.vals(a), kq)
            inner = s.clone(env=env)
            self.pure += 1
            side0 = len(self.side)
            try:
                conds = [self.truth(inner, self.ev1(c, inner)) for c in gen.ifs]
                val = self.ev1(node.value, inner)
            finally:
                self.pure -= 1
            if len(self.side) > side0:
                del self.side[side0:]
                raise Unsupported("partial operations inside dict comprehension", node)
            keys = z3.Lambda([kq], z3.And(z3.Select(h.keys(a), kq), *conds))
            vals = z3.Lambda([kq], val)
            size = Z.fresh_int('dsize')
            h2, r = h.new_dict(keys, vals, size)
            facts = [size >= 0, size <= h.size_of(a)]
            if not gen.ifs:
                facts.append(size == h.size_of(a))
            outs.append((s.with_heap(h2).assume(*facts), Z.mk_ref(r)))
        return outs

    # ------------------------------------------------------------------ loops
    def loop_spec(self, node):
        sig = loop_signature(node)
        spec = self.c.loops.get(sig)
        if spec is None:
            # allow ordinal disambiguation "sig #2"
            for k, v in self.c.loops.items():
                if k.split(' #')[0] == sig and k not in self.loop_seen:
                    spec, sig = v, k
                    break
        if spec is not None:
            self.loop_seen.add(sig)
        return sig, spec

    def ex_For(self, node, st):
        if node.orelse:
            raise Unsupported("for-else", node)
        sig, spec = self.loop_spec(node)
        outs = []
        for (s, view) in self.iter_view(node.iter, st):
            s = s.assume(*view.facts)
            n = z3.simplify(view.n)
            if spec is None and z3.is_int_value(n) and n.as_long() <= 8:
                outs.extend(self.unroll_for(node, s, view, n.as_long()))
            elif spec is None:
                raise Unsupported("loop without invariant: " + sig, node)
            else:
                outs.extend(self.loop_by_invariant(node, s, sig, spec, view))
        return outs

    def unroll_for(self, node, st, view, n):
        states = [st]
        done = []
        for k in range(n):
            nxt = []
            for s in states:
                for s1 in self.assign(node.target, view.get(z3.IntVal(k)), s):
                    fr = self.push_frame(**{'break': True, 'continue': True})
                    try:
                        normal = self.ex(node.body, s1)
                    finally:
                        self.pop_frame()
                    nxt.extend(normal)
                    nxt.extend(fr['continue'])
                    done.extend(fr['break'])
            states = nxt
        return states + done

    def ex_While(self, node, st):
        if node.orelse:
            raise Unsupported("while-else", node)
        sig, spec = self.loop_spec(node)
        if spec is None:
            raise Unsupported("loop without invariant: " + sig, node)
        return self.loop_by_invariant(node, st, sig, spec, None)

    def loop_by_invariant(self, node, st, sig, spec, view):
        """Hoare rule: check Inv at entry; havoc the write set; assume Inv /\\ cond; run body; check Inv.
        Continue after the loop from Inv /\\ not cond (and from every break)."""
        invs = spec.get('invariant', [])
        if isinstance(invs, str):
            invs = [invs]
        mods = spec.get('modifies', None)
        decr = spec.get('decreases')
        is_for = view is not None
        entry = st
        K0 = z3.IntVal(0)

        def inv_terms(s, k, pre):
            env = dict(s.env)
            if is_for:
                env['K'] = Z.mk_i(k)
                env['N'] = Z.mk_i(view.n)
            # old(e): value at function entry; pre(e): value at loop entry; fresh(x): allocated since function entry
            s2 = s.clone(env=env).with_meta(loop_pre=(pre.heap, dict(pre.env, **({'K': Z.mk_i(k), 'N': Z.mk_i(view.n)} if is_for else {}))))
            return [self.spec_eval(cl, s2, env=env, old=(s.old_heap, s.old_env)) for cl in invs]

        # 1. entry
        for kk, (cl, phi) in enumerate(zip(invs, inv_terms(entry, K0, entry))):
            self.add_vc('loop-entry', "loop '%s' invariant[%d] holds on entry" % (sig, kk), entry, phi, clause=cl, node=node)
        # 2. arbitrary iteration: havoc write set
        wnames = assigned_names(node.body) | (assigned_names([ast.Assign(targets=[node.target], value=ast.Constant(0))]) if is_for else set())
        env = dict(entry.env)
        for nme in sorted(wnames):
            if nme in env:
                env[nme] = Z.fresh_val('lv_' + nme)
            # names first bound inside the loop are unbound at the head
        heapw = writes_heap(node.body) or (not is_for and writes_heap([ast.Expr(node.test)]))
        facts = []
        if heapw:
            h2, facts = self.havoc_heap(entry, mods or [], dict(entry.env))
        else:
            h2 = entry.heap
        head = entry.clone(env=env, heap=h2).assume(*facts)
        k = Z.fresh_int('K')
        if is_for:
            head = head.assume(k >= 0, k <= view.n)
        head = head.assume(*inv_terms(head, k, entry))
        # vacuity guard: the entry state itself satisfies the invariant (K = 0), so the arbitrary-iteration state is satisfiable
        if head.check() == z3.unsat and entry.check() != z3.unsat:
            raise Unsupported("invariant of loop '%s' is contradictory at the loop head (contract error)" % sig, node)
        # 3. body
        exits = []
        if is_for:
            body_start = head.assume(k < view.n)
            starts = self.assign(node.target, view.get(k), body_start)
        else:
            starts = []
            for (s, c) in self.ev(node.test, head):
                st_t, st_f = self.branch(s, self.truth(s, c))
                if st_t is not None:
                    starts.append(st_t)
                if st_f is not None:
                    exits.append(st_f)
        ends = []
        for s1 in starts:
            if decr is not None:
                s1 = s1.with_meta(decr0=self.spec_value(decr, s1, k if is_for else None, view))
            fr = self.push_frame(**{'break': True, 'continue': True})
            try:
                normal = self.ex(node.body, s1)
            finally:
                self.pop_frame()
            ends.extend(normal)
            ends.extend(fr['continue'])
            exits.extend(fr['break'])
        for s_end in ends:
            self.path_counter += 1
            k1 = k + 1 if is_for else k
            for kk, (cl, phi) in enumerate(zip(invs, inv_terms(s_end, k1, entry))):
                self.add_vc('loop-preserve', "loop '%s' invariant[%d] preserved" % (sig, kk), s_end, phi, clause=cl, node=node)
            if heapw:
                # frame of the loop: objects allocated before the loop and outside `modifies` are untouched
                a = Z.fresh_int('a_frame')
                inmod = self.modset_pred(mods or [], entry, dict(entry.env))
                goal = z3.Implies(z3.And(a >= 0, a < entry.heap.alloc, z3.Not(inmod(a))), s_end.heap.same_at(head.heap, a))
                self.add_vc('loop-frame', "loop '%s' writes only its modifies set" % sig, s_end.assume(*inmod.facts), goal, clause=str(mods), node=node)
            if decr is not None:
                d0 = s_end.meta['decr0']
                d1 = self.spec_value(decr, s_end, k1 if is_for else None, view)
                self.add_vc('loop-variant', "loop '%s' variant decreases and is bounded" % sig, s_end,
                            z3.And(Z.num(d1) < Z.num(d0), Z.num(d0) >= 0), clause=decr, node=node)
        # 4. after the loop
        if is_for:
            after = head.assume(k == view.n)
            # loop variable keeps its last value (unknown here); K not visible
            exits.append(after)
        return [e.clone(meta={kk: vv for kk, vv in e.meta.items() if kk != 'decr0'}) for e in exits]

    def spec_value(self, expr, st, k, view):
        env = dict(st.env)
        if k is not None:
            env['K'] = Z.mk_i(k)
            env['N'] = Z.mk_i(view.n)
        tree = ast.parse(expr.strip(), mode='eval').body
        self.spec += 1
        try:
            return self.ev1(tree, st.clone(env=env))
        finally:
            self.spec -= 1
