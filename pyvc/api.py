"""
pyvc.api -- the contract registry used by the sidecar files under /verif/contracts.

contract(ident, ...) attaches a specification to the real function `ident`
("mitxgraders/x.py::Class.method").  All clauses are Python expressions (strings) in the spec
vocabulary (DESIGN 2.7): they are translated to z3 by the executor and, where executable,
evaluated by CPython in replay / run-time checks.

    requires : list of expressions over the parameters (pre-state)
    ensures  : list of expressions over parameters, `result`, old(e)  (normal exit)
    exsures  : {ExceptionClass: expression}  exceptional exits allowed, with condition on the state
               ('*' = any exception class); a raise not covered is a failed obligation
    modifies : list of expressions denoting the objects (refs) that may be written; everything else
               allocated before the call keeps its contents (frame obligation).  elems(L) = all
               objects stored in list L.  None = not checked (heap-free functions)
    loops    : {loop signature: {invariant: [...], modifies: [...], decreases: expr}}
    callees  : {call text: contract dict}   contracts for calls through values (callables in config,
               abstract methods) -- assumptions about callers' arguments (A15) stated explicitly
    pure     : the function neither writes nor allocates (calls to it leave the heap unchanged)
    fn       : name of an uninterpreted function symbol: result == fn(args) at call sites (deterministic)
    inline   : small helper: callers execute the body instead of using the contract
    lemmas   : names of lemma instantiators to apply (pyvc.lemmas)
    props    : property ids this contract serves
    self_class: static class of `self` (defaults to the class in ident)
    trusted  : True = contract is assumed, body not verified (listed in evidence)
"""

REGISTRY = {}
ORDER = []


class Contract:
    def __init__(self, ident, **kw):
        self.ident = ident
        self.requires = _lst(kw.pop('requires', []))
        self.ensures = _lst(kw.pop('ensures', []))
        self.exsures = kw.pop('exsures', {})
        self.modifies = kw.pop('modifies', None)
        if isinstance(self.modifies, str):
            self.modifies = [self.modifies]
        self.loops = kw.pop('loops', {})
        self.callees = kw.pop('callees', {})
        self.pure = kw.pop('pure', False)
        self.fn = kw.pop('fn', None)
        self.inline = kw.pop('inline', False)
        self.lemmas = _lst(kw.pop('lemmas', []))
        self.props = _lst(kw.pop('props', []))
        self.self_class = kw.pop('self_class', None)
        self.trusted = kw.pop('trusted', False)
        self.ghost = kw.pop('ghost', {})          # name -> expression, bound after requires
        self.note = kw.pop('note', '')
        self.hints = kw.pop('hints', {})          # param -> kind hint
        self.covers = _lst(kw.pop('covers', []))  # expressions that must be satisfiable with requires
        self.replay = kw.pop('replay', None)      # name of concretiser in contracts/_replay.py
        self.closed_heap = kw.pop('closed_heap', False)
        self.bounded = kw.pop('bounded', None)
        self.timeout = kw.pop('timeout', None)
        self.split = _lst(kw.pop('split', []))             # case split of the precondition (coverage is an obligation)
        self.skip = kw.pop('skip', None)                 # reason: contract drafted but not part of the checks (listed in evidence)
        self.globals_read = dict(kw.pop('globals_read', {}) or {})   # expression text (e.g. 'MathArray._negative_powers') -> name of a symbolic entry value
        self.global_dicts = _lst(kw.pop('global_dicts', []))   # module-level dict objects the function reads (allocated before entry)
        self.consts = kw.pop('consts', {})               # module-level sentinel names -> description
        self.merge = kw.pop('merge', True)                # join straight-line if-branches into one state
        self.nonlinear = kw.pop('nonlinear', 'native')   # 'abstract': x*y -> MUL(x, y) + instantiated facts
        if kw:
            raise TypeError("unknown contract keys %s for %s" % (sorted(kw), ident))
        if self.self_class is None and '::' in ident:
            q = ident.split('::')[1].split('.')
            if len(q) >= 2:
                self.self_class = q[-2]

    @property
    def short(self):
        return self.ident.split('/')[-1]


def _lst(x):
    if x is None:
        return []
    if isinstance(x, str):
        return [x]
    return list(x)


def contract(ident, **kw):
    c = Contract(ident, **kw)
    if ident in REGISTRY:
        raise KeyError("duplicate contract for " + ident)
    REGISTRY[ident] = c
    ORDER.append(ident)
    return c


# spec functions: pure, single-expression Python functions usable in clauses; inlined by the translator
SPEC_FUNCS = {}


def spec(fn):
    """decorator: register a spec function defined as `def f(args): return <expr>` (source kept for inlining)"""
    import inspect, ast, textwrap
    src = textwrap.dedent(inspect.getsource(fn))
    tree = ast.parse(src)
    fdef = tree.body[0]
    body = [s for s in fdef.body if not (isinstance(s, ast.Expr) and isinstance(s.value, ast.Constant))]
    if len(body) != 1 or not isinstance(body[0], ast.Return):
        raise TypeError("spec function %s must be a single return expression" % fn.__name__)
    from . import specrt
    specrt.install_vocabulary(fn.__globals__)
    # the run-time version has lazy implication: implies(a, b) -> ((not a) or b)
    import copy
    rt_tree = specrt.FloatEq().visit(specrt.LazyImplies().visit(copy.deepcopy(tree)))
    rt_tree.body[0].decorator_list = []
    ast.fix_missing_locations(rt_tree)
    code = compile(rt_tree, '<spec %s>' % fn.__name__, 'exec')
    ns = {}
    exec(code, fn.__globals__, ns)
    rt_fn = ns[fn.__name__]
    SPEC_FUNCS[fn.__name__] = ([a.arg for a in fdef.args.args], body[0].value, rt_fn)
    fn.__globals__[fn.__name__] = rt_fn
    return rt_fn


def find_by_name(name, cls=None):
    """contracts whose qualified name ends with .name / ::name"""
    out = []
    for ident in ORDER:
        q = ident.split('::')[1]
        if q == name or q.endswith('.' + name):
            out.append(REGISTRY[ident])
    return out


# ---- lemmas over contract predicates / spec functions (proved by z3 from the spec text) -------------
LEMMAS = {}


class Lemma:
    def __init__(self, name, props, vars, assumes, shows, uses=(), note=''):
        self.name, self.props, self.vars = name, _lst(props), dict(vars)
        self.assumes, self.shows, self.uses, self.note = _lst(assumes), _lst(shows), list(uses), note


def lemma(name, props=(), vars=None, assumes=(), shows=(), uses=(), note=''):
    """lemma(name, vars={'a': 'int', 'x': 'real', 'v': 'val'}, assumes=[...], shows=[...])"""
    LEMMAS[name] = Lemma(name, props, vars or {}, assumes, shows, uses, note)
    return LEMMAS[name]


# ---- static obligations: nullary facts decided by inspecting the real source (AST / class table) on every run -----------
STATICS = {}


def static(name, props=(), note=''):
    """decorator: fn() -> (ok: bool, detail: str).  Counted as one obligation, back end 'ast-scan' (exhaustive: the fact has no inputs)."""
    def deco(fn):
        STATICS[name] = (list(props) if not isinstance(props, str) else [props], fn, note)
        return fn
    return deco
