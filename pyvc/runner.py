"""
pyvc.runner -- per-property check driver: verify all functions/lemmas under contract for a property,
run its bounded stand-ins, compare with the committed baseline of obligations, replay counter-models,
decide the verdict, write evidence.

Exit codes (DESIGN 3.1): 0 held / 1 violation (VIOLATION line printed) / 2 undecided with no stand-in / 3 checker error.
"""
import os
import sys
import json
import time
import glob
import importlib
import traceback
import multiprocessing as mp

ROOT = os.path.dirname(os.path.dirname(os.path.abspath(__file__)))
sys.path.insert(0, ROOT)

CONTRACT_MODULES = None


def load_contracts():
    global CONTRACT_MODULES
    if CONTRACT_MODULES is None:
        CONTRACT_MODULES = []
        for path in sorted(glob.glob(os.path.join(ROOT, 'contracts', '*.py'))):
            name = os.path.basename(path)[:-3]
            if name == '__init__':
                continue
            CONTRACT_MODULES.append(importlib.import_module('contracts.' + name))
    from pyvc import api
    return api


def _verify_one(job):
    kind, name = job
    try:
        load_contracts()
        from pyvc import verify
        if kind == 'fn':
            r = verify.verify_function(name)
        else:
            r = verify.verify_lemma(name)
        out = r.to_json()
        # counter-models: keep the textual parameter assignment; replay rebuilds objects from it
        return out
    except Exception:
        return {'ident': name, 'status': 'ERROR', 'detail': traceback.format_exc()[-2000:], 'obligations': {},
                'paths': 0, 'vcs': 0, 'time_s': 0, 'assumptions': [], 'source_sha': '', 'line': 0}


def run_verification(pid, nproc=None):
    api = load_contracts()
    jobs = [('fn', ident) for ident in api.ORDER if pid in api.REGISTRY[ident].props]
    jobs += [('lemma', n) for n, l in api.LEMMAS.items() if pid in l.props]
    trusted = [ident for ident in api.ORDER if pid in api.REGISTRY[ident].props and api.REGISTRY[ident].trusted]
    nproc = nproc or min(16, max(1, len(jobs)))
    t0 = time.time()
    if len(jobs) <= 1:
        results = [_verify_one(j) for j in jobs]
    else:
        ctx = mp.get_context('fork')
        with ctx.Pool(nproc) as pool:
            results = pool.map(_verify_one, jobs, chunksize=1)
    return results, time.time() - t0
