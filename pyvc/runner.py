"""
pyvc.runner -- per-property check driver: verify all functions/lemmas under contract for a property,
run its bounded stand-ins, compare with the committed baseline of obligations, replay counter-models,
decide the verdict, write evidence.

Exit codes (DESIGN 3.1): 0 held / 1 violation (VIOLATION line printed) / 2 undecided with no stand-in / 3 checker error.
"""
import os
import sys
import json
import time
import glob
import importlib
import traceback
import multiprocessing as mp

ROOT = os.path.dirname(os.path.dirname(os.path.abspath(__file__)))
sys.path.insert(0, ROOT)

CONTRACT_MODULES = None


def load_contracts():
    global CONTRACT_MODULES
    if CONTRACT_MODULES is None:
        CONTRACT_MODULES = []
        for path in sorted(glob.glob(os.path.join(ROOT, 'contracts', '*.py'))):
            name = os.path.basename(path)[:-3]
            if name == '__init__':
                continue
            CONTRACT_MODULES.append(importlib.import_module('contracts.' + name))
    from pyvc import api
    return api


def _verify_one(job):
    kind, name = job[0], job[1]
    try:
        load_contracts()
        from pyvc import verify
        if kind == 'static':
            from pyvc import api as _api
            t0 = time.time()
            props, fn, note = _api.STATICS[name]
            try:
                ok, detail = fn()
                # a scan that does not find its pattern is *undecided* (the code may have been refactored harmlessly): the bounded tier decides
                status = 'proved' if ok else 'unknown'
            except Exception:
                ok, detail, status = False, traceback.format_exc()[-600:], 'unknown'
            return {'ident': 'static::' + name, 'status': 'PROVED' if status == 'proved' else 'UNDECIDED',
                    'detail': detail[:600], 'paths': 0, 'vcs': 1, 'time_s': round(time.time() - t0, 3), 'assumptions': [], 'source_sha': '', 'line': 0,
                    'obligations': {name: {'kind': 'ensures', 'clause': note or name, 'paths': 1, 'status': status, 'time_s': round(time.time() - t0, 3),
                                           'backend': 'ast-scan', 'note': detail[:400]}}}
        if kind == 'fn':
            r = verify.verify_function(name, case=job[2] if len(job) > 2 else None)
        else:
            r = verify.verify_lemma(name)
        out = r.to_json()
        # counter-models: keep the textual parameter assignment; replay rebuilds objects from it
        return out
    except Exception:
        return {'ident': name, 'status': 'ERROR', 'detail': traceback.format_exc()[-2000:], 'obligations': {},
                'paths': 0, 'vcs': 0, 'time_s': 0, 'assumptions': [], 'source_sha': '', 'line': 0}


def run_verification(pid, nproc=None):
    api = load_contracts()
    jobs = []
    for ident in api.ORDER:
        c = api.REGISTRY[ident]
        if pid in c.props and not (c.skip and not os.environ.get('PYVC_ALL')):
            if c.split and not c.trusted:
                jobs += [('fn', ident, k) for k in range(len(c.split))]
            else:
                jobs.append(('fn', ident))
    jobs += [('lemma', n) for n, l in api.LEMMAS.items() if pid in l.props]
    jobs += [('static', n) for n, (props, _fn, _note) in api.STATICS.items() if pid in props]
    trusted = [ident for ident in api.ORDER if pid in api.REGISTRY[ident].props and api.REGISTRY[ident].trusted]
    nproc = nproc or min(16, max(1, len(jobs)))
    t0 = time.time()
    results = run_jobs(jobs, nproc)
    return merge_cases(results), time.time() - t0


JOB_MEM_BYTES = int(os.environ.get('PYVC_JOB_MEM_GB', '10')) * (1 << 30)     # address-space limit per verification job
JOB_WALL_S = int(os.environ.get('PYVC_JOB_WALL_S', '1500'))                   # wall-clock limit per verification job


def _child(job, conn):
    try:
        import resource
        resource.setrlimit(resource.RLIMIT_AS, (JOB_MEM_BYTES, JOB_MEM_BYTES))
    except Exception:
        pass
    try:
        out = _verify_one(job)
    except MemoryError:
        out = {'ident': job[1], 'status': 'RESOURCE', 'detail': 'memory limit reached', 'obligations': {}, 'paths': 0, 'vcs': 0, 'time_s': 0,
               'assumptions': [], 'source_sha': '', 'line': 0}
    try:
        conn.send(out)
    finally:
        conn.close()


def run_jobs(jobs, nproc):
    """one process per job, at most nproc at a time, each under a memory and a wall-clock limit.  z3 occasionally (and not reproducibly)
    runs away on a query -- tens of GB, ignoring its timeout; such a job is killed and run once more; if it fails again the function
    is reported UNDECIDED (resource limit), never as a violation, and the run goes on"""
    ctx = mp.get_context('fork')
    results = [None] * len(jobs)
    attempts = [0] * len(jobs)
    pending = list(range(len(jobs)))
    running = {}          # index -> (process, parent_conn, start)

    def resource_result(k, why):
        job = jobs[k]
        ident = ('static::' + job[1]) if job[0] == 'static' else job[1]
        return {'ident': ident, 'status': 'UNDECIDED', 'detail': 'resource limit: %s (twice)' % why, 'obligations': {}, 'paths': 0, 'vcs': 0,
                'time_s': 0, 'assumptions': [], 'source_sha': '', 'line': 0}
    while pending or running:
        while pending and len(running) < nproc:
            k = pending.pop(0)
            pc, cc = ctx.Pipe(duplex=False)
            p = ctx.Process(target=_child, args=(jobs[k], cc))
            p.start()
            cc.close()
            attempts[k] += 1
            running[k] = (p, pc, time.time())
        time.sleep(0.05)
        for k in list(running):
            p, pc, st = running[k]
            out = None
            why = None
            if pc.poll():
                try:
                    out = pc.recv()
                except EOFError:
                    why = 'worker died'
            elif not p.is_alive():
                why = 'worker died (killed or out of memory)'
            elif time.time() - st > JOB_WALL_S:
                p.kill()
                why = 'wall-clock limit %d s' % JOB_WALL_S
            if out is None and why is None:
                continue
            p.join(timeout=5)
            pc.close()
            del running[k]
            if out is not None and out.get('status') == 'RESOURCE':
                why, out = out['detail'], None
            if out is not None and out.get('status') == 'ERROR' and ('MemoryError' in out.get('detail', '') or 'out of memory' in out.get('detail', '')):
                why, out = 'z3 out of memory', None
            if out is not None:
                results[k] = out
            elif attempts[k] < 2:
                pending.append(k)
            else:
                results[k] = resource_result(k, why)
    return results


_RANK = {'PROVED': 0, 'TRUSTED': 0, 'UNDECIDED': 1, 'UNSUPPORTED': 2, 'ERROR': 3, 'REFUTED': 4}
_ORANK = {'proved': 0, 'unknown': 1, 'refuted': 2}


def merge_cases(results):
    """results of the split cases of one function are merged into one record (worst status wins, obligations by name)"""
    out, byid = [], {}
    for r in results:
        if r['ident'] not in byid:
            byid[r['ident']] = r
            out.append(r)
            continue
        m = byid[r['ident']]
        if _RANK.get(r['status'], 3) > _RANK.get(m['status'], 3):
            m['status'], m['detail'] = r['status'], r.get('detail', '')
        m['paths'] += r.get('paths', 0)
        m['vcs'] += r.get('vcs', 0)
        m['time_s'] = round(m['time_s'] + r.get('time_s', 0), 3)
        m['assumptions'] = sorted(set(m.get('assumptions', [])) | set(r.get('assumptions', [])))
        for name, o in r.get('obligations', {}).items():
            if name not in m['obligations']:
                m['obligations'][name] = o
                continue
            mo = m['obligations'][name]
            mo['paths'] += o.get('paths', 0)
            mo['time_s'] = round(mo['time_s'] + o.get('time_s', 0), 3)
            if _ORANK[o['status']] > _ORANK[mo['status']]:
                for k in ('status', 'note', 'model', 'counterexample'):
                    if k in o:
                        mo[k] = o[k]
    return out
