"""pyvc -- a small contract-based deductive verifier for a Python subset (see DESIGN.md section 2)."""
