"""
pyvc.symex -- forward symbolic execution of real Python ASTs against contracts.

One Exec instance verifies one function: it walks the function's real AST (pyvc.source), splits
paths at symbolic branches, models Python's failure modes as exceptional paths, treats calls by the
callee's contract, loops by their invariants, and emits verification conditions (VCs).
Anything outside the modelled subset raises Unsupported: the function is then out of reach
(reported, never silently skipped).
"""
import ast
import os
import z3
from fractions import Fraction

from . import z as Z
from .z import Val, I, R, B, S, VArr
from .heap import Heap, empty_keys, keyset_of, FIELDS
from .state import State
from . import api
from . import source as SRC


class Unsupported(Exception):
    def __init__(self, what, node=None):
        self.what = what
        self.node = node
        line = getattr(node, 'lineno', '?')
        Exception.__init__(self, "%s (line %s)" % (what, line))


class VC:
    __slots__ = ('name', 'kind', 'pc', 'goal', 'path', 'note', 'clause', 'state')

    def __init__(self, name, kind, pc, goal, path=0, note='', clause='', state=None):
        self.name, self.kind, self.pc, self.goal = name, kind, pc, goal
        self.path, self.note, self.clause, self.state = path, note, clause, state


# virtual (unallocated) tuple of values, e.g. elements of enumerate()/zip()/items()
class VTuple:
    def __init__(self, items):
        self.items = list(items)


class IterView:
    """a finite iteration: length n (Int term) and getter i -> Val | VTuple"""

    def __init__(self, n, get, facts=(), what=''):
        self.n, self.get, self.facts, self.what = n, get, list(facts), what


class Closure:
    def __init__(self, node, env):
        self.node, self.env = node, env


BUILTIN_TYPE_NAMES = {'str', 'list', 'tuple', 'dict', 'set', 'int', 'float', 'bool', 'complex', 'object',
                      'Number', 'type', 'frozenset'}


class Exec:
    def __init__(self, contract, fsrc=None, registry=None):
        self.c = contract
        self.f = fsrc
        self.ct = SRC.class_table()
        self.reg = registry if registry is not None else api.REGISTRY
        self.vcs = []
        self.frames = []
        self.pure = 0
        self.spec = 0
        self.side = []
        self.ctx = []          # guard context in pure mode (list of Bool)
        self.closures = {}     # fid -> Closure
        self.ddicts = set()    # address terms of defaultdict(int) objects allocated in this function
        self.path_counter = 0
        self.loop_seen = set()
        self.used_assumptions = set()
        self.unsupported = None
        self.lemma_log = []
        self.static_cls = {}   # local name -> class name (for method resolution)
        self.round_terms = []  # occurrences of round4 for axiom instantiation
        self.pow_terms = []
        self.mul_terms = []
        self.extra_facts = []
        self.use_resolver = False      # solver-aided peeling of stores at symbolic addresses: correct but slow (kept off)
        self.sum_terms = []

    # ------------------------------------------------------------------ sinks
    def push_frame(self, **kinds):
        fr = {k: [] for k in kinds if kinds[k]}
        self.frames.append(fr)
        return fr

    def pop_frame(self):
        return self.frames.pop()

    def emit(self, kind, item):
        for fr in reversed(self.frames):
            if kind in fr:
                fr[kind].append(item)
                return
        raise Unsupported("no handler frame for " + kind)

    def throw(self, st, exc):
        self.emit('raise', (st, exc))

    def new_exception(self, st, clsname, msg=None, cid_term=None):
        h = st.heap
        keys = keyset_of([Z.mk_s('__msg__')])
        vals = z3.Store(z3.K(Val, Z.NONE), Z.mk_s('__msg__'), msg if msg is not None else Z.mk_s(Z.fresh('exc_msg', S)))
        c = cid_term if cid_term is not None else z3.IntVal(self.ct.cid(clsname))
        h2, a = h.new(Z.K_OBJ, klass=c, dk=keys, dv=vals, dsize=z3.IntVal(1))
        return st.with_heap(h2), Z.mk_ref(a)

    def throw_new(self, st, clsname, what=''):
        st2, e = self.new_exception(st, clsname)
        self.throw(st2.note("raise %s: %s" % (clsname, what)), e)

    def guard(self, st, ok, clsname, what=''):
        """continue where `ok` holds; fork an exceptional path where it may fail. Returns state or None."""
        if self.spec:
            return st
        if self.pure:
            self.side.append((list(self.ctx), ok, clsname, what))
            return st
        ok = z3.simplify(ok)
        if z3.is_true(ok):
            return st
        if z3.is_false(ok):
            if st.feasible():
                self.throw_new(st, clsname, what)
            return None
        if st.feasible(z3.Not(ok)):
            self.throw_new(st.assume(z3.Not(ok)), clsname, what)
            return st.assume(ok)
        return st.assume(ok)   # redundant but helps later queries

    def branch(self, st, cond):
        c = z3.simplify(cond)
        if z3.is_true(c):
            return st, None
        if z3.is_false(c):
            return None, st
        t = st.feasible(c)
        f = st.feasible(z3.Not(c))
        return (st.assume(c) if t else None), (st.assume(z3.Not(c)) if f else None)

    def is_sub(self, c, base):
        """class-id term c denotes a subclass of the named class.  Known ids by table; unknown ids
        (symbolic exceptions from abstract callees) through an uninterpreted predicate."""
        ids = [self.ct.cid(n) for n in self.ct.descendants(base)]
        known = z3.Or([c == k for k in ids]) if ids else z3.BoolVal(False)
        if z3.is_int_value(c):
            return z3.simplify(known)
        allids = z3.And(c >= 1, c <= len(self.ct.names))
        # a class unknown to the table is below `base` iff it is flagged below base or one of base's known descendants
        # (so "below InvalidInput" implies "below MITxError" and "below Exception")
        flags = [z3.Function('USUB_' + d, I, B)(c) for d in self.ct.descendants(base)]
        return z3.If(allids, known, z3.Or(flags) if flags else z3.BoolVal(False))

    # ------------------------------------------------------------------ value helpers
    def truth(self, st, v):
        if isinstance(v, VTuple):
            return z3.BoolVal(len(v.items) > 0)
        if z3.is_bool(v):
            return v
        h = st.heap
        a = Z.addr(v)
        k = h.kind_of(a)
        return z3.simplify(
            z3.If(Z.is_b(v), Z.bv(v),
            z3.If(Z.is_i(v), Z.iv(v) != 0,
            z3.If(Z.is_r(v), Z.rv(v) != 0,
            z3.If(Z.is_s(v), z3.Length(Z.sv(v)) > 0,
            z3.If(Z.is_none(v), z3.BoolVal(False),
            z3.If(Z.is_ref(v),
                  z3.If(z3.Or(k == Z.K_LIST, k == Z.K_TUPLE), h.len_of(a) > 0,
                  z3.If(z3.Or(k == Z.K_DICT, k == Z.K_SET), h.size_of(a) > 0, z3.BoolVal(True))),
                  z3.BoolVal(True))))))))

    def known(self, st, pred):
        """True if pc implies pred (syntactically or by solver)"""
        p = z3.simplify(pred)
        if z3.is_true(p):
            return True
        if z3.is_false(p):
            return False
        if self.spec:
            return False
        r = st.implies(p)
        if not r and os.environ.get('PYVC_DUMP_UNKNOWN'):
            sv = z3.Solver()
            for q in st.pc:
                sv.add(q)
            sv.add(z3.Not(p))
            self._dumpn = getattr(self, '_dumpn', 0) + 1
            open('/tmp/unk_%d.smt2' % self._dumpn, 'w').write(sv.to_smt2())
        return r

    def is_kind(self, st, v, *kinds):
        a = Z.addr(v)
        return z3.And(Z.is_ref(v), z3.Or([st.heap.kind_of(a) == k for k in kinds]))

    def materialize(self, st, v):
        """turn a virtual tuple into an allocated tuple object"""
        if isinstance(v, VTuple):
            arr = z3.K(I, Z.NONE)
            for k, it in enumerate(v.items):
                st, itv = self.materialize(st, it)
                arr = z3.Store(arr, k, itv)
            h2, a = st.heap.new_list(arr, z3.IntVal(len(v.items)), kind=Z.K_TUPLE)
            return st.with_heap(h2), Z.mk_ref(a)
        if isinstance(v, Closure):
            fid = len(self.closures) + 1000
            self.closures[fid] = v
            return st, Val.fn(z3.IntVal(fid))
        return st, v

    def nk(self, k):
        """normalise a dict key: 1 == 1.0 == True hash alike"""
        return z3.simplify(
            z3.If(Z.is_b(k), Z.mk_i(Z.ival(k)),
                  z3.If(z3.And(Z.is_r(k), z3.IsInt(Z.rv(k))), Z.mk_i(z3.ToInt(Z.rv(k))), k)))

    def py_eq(self, st, a, b, node=None):
        """Python == on Vals (containers: identity only; deep equality is unsupported)"""
        if isinstance(a, VTuple) or isinstance(b, VTuple):
            if isinstance(a, VTuple) and isinstance(b, VTuple) and len(a.items) == len(b.items):
                return z3.And([self.py_eq(st, x, y, node) for x, y in zip(a.items, b.items)])
            raise Unsupported("== on tuples", node)
        if z3.is_expr(a) and a.sort() != Val:
            return a == b          # spec-level values of other sorts (key sets, ...)
        both_ref = z3.And(Z.is_ref(a), Z.is_ref(b), Z.addr(a) != Z.addr(b))
        sb = z3.simplify(both_ref)
        if not z3.is_false(sb) and not self.spec:
            h = st.heap
            cont = z3.And(sb, h.kind_of(Z.addr(a)) != Z.K_OBJ, h.kind_of(Z.addr(a)) == h.kind_of(Z.addr(b)))
            if st.feasible(cont):
                # two sequences of scalars (shapes, index tuples): equal iff same kind, same length, equal items
                aa, ab = Z.addr(a), Z.addr(b)
                seqs = z3.And(Z.is_ref(a), Z.is_ref(b), z3.Or(h.kind_of(aa) == Z.K_TUPLE, h.kind_of(aa) == Z.K_LIST),
                              z3.Or(h.kind_of(ab) == Z.K_TUPLE, h.kind_of(ab) == Z.K_LIST))
                j = Z.fresh_int('jdeq')
                ea, eb = z3.Select(h.elems(aa), j), z3.Select(h.elems(ab), j)
                flat = z3.ForAll([j], z3.And(z3.Implies(z3.And(j >= 0, j < h.len_of(aa)), z3.Not(Z.is_ref(ea))),
                                             z3.Implies(z3.And(j >= 0, j < h.len_of(ab)), z3.Not(Z.is_ref(eb)))))
                if not (self.known(st, seqs) and st.implies(flat)):
                    raise Unsupported("== between two containers (deep equality)", node)
                item_eq = z3.If(z3.And(Z.is_num(ea), Z.is_num(eb)), Z.num(ea) == Z.num(eb), ea == eb)
                return z3.Or(aa == ab, z3.And(h.kind_of(aa) == h.kind_of(ab), h.len_of(aa) == h.len_of(ab),
                                              z3.ForAll([j], z3.Implies(z3.And(j >= 0, j < h.len_of(aa)), item_eq))))
        return z3.simplify(
            z3.If(z3.And(Z.is_num(a), Z.is_num(b)), self.num_cmp(a, b, lambda x, y: x == y),
                  z3.And(a == b, z3.Not(Z.is_nan(a)))))

    def num_cmp(self, a, b, rel):
        """numeric comparison: on integers when both sides are (syntactically) int-like, on reals otherwise"""
        both_int = z3.simplify(z3.And(Z.is_intlike(a), Z.is_intlike(b)))
        if z3.is_true(both_int):
            return rel(Z.ival(a), Z.ival(b))
        if z3.is_false(both_int):
            return rel(Z.num(a), Z.num(b))
        return z3.If(both_int, rel(Z.ival(a), Z.ival(b)), rel(Z.num(a), Z.num(b)))

    def num_result(self, a, b, fi, fr):
        """int op int -> int, otherwise real"""
        return z3.simplify(z3.If(z3.And(Z.is_intlike(a), Z.is_intlike(b)),
                                 Z.mk_i(fi(Z.ival(a), Z.ival(b))),
                                 Z.mk_r(fr(Z.num(a), Z.num(b)))))

    CTORS = ('none', 'b', 'i', 'r', 's', 'ref', 'pinf', 'ninf', 'nan', 'cls', 'fn')

    def narrow(self, st, v, numeric_only=False):
        """if the path condition fixes the constructor of v, return v in constructor form (i(iv v), r(rv v), ...):
        later tag tests then simplify syntactically instead of piling up If-chains"""
        if isinstance(v, (VTuple, Closure)) or self.spec or not z3.is_expr(v) or v.sort() != Val:
            return v
        sv = z3.simplify(v)
        if z3.is_app(sv) and sv.decl().name() in self.CTORS and sv.decl().name() != 'if':
            if sv.num_args() == 0 or not (z3.is_app(sv) and sv.decl().name() == 'if'):
                if sv.decl().name() in self.CTORS:
                    return sv
        key = v.get_id()
        cache = st.meta.get('_narrow')
        if cache is not None and key in cache:
            return cache[key]
        tests = [(Z.is_i, lambda x: Z.mk_i(Z.iv(x))), (Z.is_r, lambda x: Z.mk_r(Z.rv(x))),
                 (Val.is_pinf, lambda x: Z.PINF), (Val.is_ninf, lambda x: Z.NINF), (Z.is_b, lambda x: Z.mk_b(Z.bv(x)))]
        if not numeric_only:
            tests += [(Z.is_s, lambda x: Z.mk_s(Z.sv(x))), (Z.is_ref, lambda x: Z.mk_ref(Z.addr(x))), (Z.is_none, lambda x: Z.NONE)]
        out = v
        for pred, mk in tests:
            if st.implies(pred(v)):
                out = mk(v)
                break
        return out

    def real_mul(self, x, y):
        """real multiplication; abstracted to MUL(x, y) when the contract asks for it and neither side is a literal"""
        if getattr(self.c, 'nonlinear', 'native') != 'abstract':
            return x * y
        sx, sy = z3.simplify(x), z3.simplify(y)
        if z3.is_rational_value(sx) or z3.is_rational_value(sy) or z3.is_int_value(sx) or z3.is_int_value(sy):
            return x * y
        t = Z.MUL(sx, sy)
        for (x2, y2, t2) in self.mul_terms:
            if t2.eq(t):
                return t
        self.mul_terms.append((sx, sy, t))
        self.used_assumptions.add('MUL-abstract')
        return t

    def real_div(self, x, y):
        """real division; abstracted to DIVR(x, y) in 'abstract' mode when the divisor is not a literal"""
        if getattr(self.c, 'nonlinear', 'native') != 'abstract':
            return x / y
        sy = z3.simplify(y)
        if z3.is_rational_value(sy) or z3.is_int_value(sy):
            return x / y
        self.div_used = True
        self.used_assumptions.add('MUL-abstract')
        return Z.DIVR(z3.simplify(x), sy)

    def mul_facts(self):
        out = []
        if getattr(self, 'div_used', False):
            x, y = z3.Reals('x!div y!div')
            t = Z.DIVR(x, y)
            out.append(Z.forall([x, y], z3.And(Z.div_facts(x, y, t)), patterns=[t], qid='DIV_facts'))
        if not self.mul_terms:
            return out
        x, y = z3.Reals('x!mul y!mul')
        t = Z.MUL(x, y)
        return out + [Z.forall([x, y], z3.And(Z.mul_facts(x, y, t)), patterns=[t], qid='MUL_facts')]

    def _unused_mul_facts(self):
        if not self.mul_terms:
            return []
        x, y = z3.Reals('x!mul y!mul')
        t = Z.MUL(x, y)
        return [Z.forall([x, y], z3.And(Z.mul_facts(x, y, t)), patterns=[t], qid='MUL_facts')]

    def lt(self, a, b, strict=True):
        """ordering on numbers extended by +-inf; strings lexicographic"""
        fin = z3.And(Z.is_num(a), Z.is_num(b))
        cmpf = self.num_cmp(a, b, (lambda x, y: x < y) if strict else (lambda x, y: x <= y))
        ext = z3.And(z3.Or(Z.is_num(a), Z.is_pinf(a), Z.is_ninf(a)),
                     z3.Or(Z.is_num(b), Z.is_pinf(b), Z.is_ninf(b)))
        if strict:
            inf_case = z3.Or(z3.And(Z.is_ninf(a), z3.Not(Z.is_ninf(b))),
                             z3.And(Z.is_pinf(b), z3.Not(Z.is_pinf(a))))
        else:
            inf_case = z3.Or(Z.is_ninf(a), Z.is_pinf(b))
        strs = z3.And(Z.is_s(a), Z.is_s(b))
        scmp = (Z.sv(a) < Z.sv(b)) if strict else (Z.sv(a) <= Z.sv(b))
        return z3.simplify(z3.If(fin, cmpf, z3.If(ext, inf_case, z3.If(strs, scmp, z3.BoolVal(False)))))

    def orderable(self, a, b):
        numlike = lambda v: z3.Or(Z.is_num(v), Z.is_special(v))
        return z3.Or(z3.And(numlike(a), numlike(b)), z3.And(Z.is_s(a), Z.is_s(b)))

    def add_round_axioms(self, st, x, t):
        """A2: |round4(x)-x| <= 5e-5, monotone, fixed points 0 and 1 (instantiated per occurrence)"""
        self.note_round(x, t)
        return st.assume(*self.round_facts())

    def note_round(self, x, t):
        self.used_assumptions.add('A2')
        for (x2, t2) in self.round_terms:
            if t2.eq(t):
                return
        self.round_terms.append((x, t))

    def round_facts(self):
        half = z3.RealVal('1/20000')
        facts = []
        for k, (x, t) in enumerate(self.round_terms):
            facts += [t - x <= half, x - t <= half,
                      z3.Implies(x == 0, t == 0), z3.Implies(x == 1, t == 1),
                      z3.Implies(x >= 0, t >= 0), z3.Implies(x <= 1, t <= 1),
                      z3.Implies(x <= 0, t <= 0), z3.Implies(x >= 1, t >= 1)]
            for (x2, t2) in self.round_terms[:k]:
                facts.append(z3.Implies(x <= x2, t <= t2))
                facts.append(z3.Implies(x2 <= x, t2 <= t))
        return facts

    # ------------------------------------------------------------------ expressions
    def set_resolver(self, st):
        from . import heap as HP
        cache = st.meta.get('_addr_cmp')
        if cache is None:
            cache = {}

        def cmp(a1, a2, st=st, cache=cache):
            if a1.eq(a2):
                return True
            key = (a1.get_id(), a2.get_id(), len(st.pc))
            if key in cache:
                return cache[key]
            d = z3.simplify(a1 == a2)
            if z3.is_true(d):
                r = True
            elif z3.is_false(d):
                r = False
            elif st.implies(a1 != a2):
                r = False
            elif st.implies(a1 == a2):
                r = True
            else:
                r = None
            cache[key] = r
            return r
        HP.RESOLVER[0] = cmp

    def ev(self, node, st):
        """evaluate expression; returns list of (state, value)"""
        if self.use_resolver:
            self.set_resolver(st)
        m = getattr(self, 'ev_' + type(node).__name__, None)
        if m is None:
            raise Unsupported("expression " + type(node).__name__, node)
        return m(node, st)

    def ev1(self, node, st):
        """pure/spec evaluation: exactly one outcome"""
        outs = self.ev(node, st)
        if len(outs) != 1:
            raise Unsupported("expression forks in pure context: " + ast.unparse(node), node)
        return outs[0][1]

    def ev_seq(self, nodes, st):
        """evaluate a list of expressions left to right: list of (state, [values])"""
        outs = [(st, [])]
        for n in nodes:
            nxt = []
            for (s, vals) in outs:
                for (s2, v) in self.ev(n, s):
                    nxt.append((s2, vals + [v]))
            outs = nxt
        return outs

    def ev_Constant(self, node, st):
        v = node.value
        if v is None:
            return [(st, Z.NONE)]
        if isinstance(v, bool):
            return [(st, Z.mk_b(z3.BoolVal(v)))]
        if isinstance(v, int):
            return [(st, Z.mk_i(v))]
        if isinstance(v, float):
            self.used_assumptions.add('A1')
            return [(st, Z.mk_r(z3.RealVal(str(Fraction(repr(v))))))]
        if isinstance(v, str):
            return [(st, Z.mk_s(v))]
        raise Unsupported("constant %r" % (v,), node)

    def ev_Name(self, node, st):
        n = node.id
        if n in st.env:
            return [(st, st.env[n])]
        if self.spec and n == 'result' and 'result' in st.meta:
            return [(st, st.meta['result'])]
        if n in getattr(self.c, 'consts', {}) and self.c.consts[n] == 'str':
            # a module-level text constant (e.g. __version__): some fixed text
            return [(st, Z.mk_s(z3.String('CONST_' + n)))]
        if n in getattr(self.c, 'consts', {}):
            # module-level sentinel objects named by the contract: distinct opaque values (never numbers)
            return [(st, Val.fn(z3.IntVal(-100 - sorted(self.c.consts).index(n))))]
        if n in self.ct.classes:
            return [(st, Val.cls(z3.IntVal(self.ct.cid(n))))]
        if n in ('inf',):
            return [(st, Z.PINF)]
        _BUILTIN_FNS = ('str', 'int', 'float', 'bool', 'list', 'dict', 'tuple', 'set', 'len', 'abs', 'repr', 'sorted', 'type')
        if n in _BUILTIN_FNS:
            # a builtin passed as a value (map(str, xs)): an opaque callable
            return [(st, Val.fn(z3.IntVal(-900 - _BUILTIN_FNS.index(n))))]
        raise Unsupported("unbound name " + n, node)

    def ev_Tuple(self, node, st):
        out = []
        for (s, vals) in self.ev_seq(node.elts, st):
            if self.spec or self.pure:
                out.append((s, VTuple(vals)))
            else:
                s2, v = self.materialize(s, VTuple(vals))
                out.append((s2, v))
        return out

    def ev_List(self, node, st):
        out = []
        for (s, vals) in self.ev_seq(node.elts, st):
            if self.pure or self.spec:
                raise Unsupported("list display in pure context", node)
            arr = z3.K(I, Z.NONE)
            for k, it in enumerate(vals):
                s, it = self.materialize(s, it)
                arr = z3.Store(arr, k, it)
            h2, a = s.heap.new_list(arr, z3.IntVal(len(vals)))
            out.append((s.with_heap(h2), Z.mk_ref(a)))
        return out

    def ev_Dict(self, node, st):
        if any(k is None for k in node.keys):
            raise Unsupported("dict unpacking", node)
        out = []
        n = len(node.keys)
        for (s, kv) in self.ev_seq(list(node.keys) + list(node.values), st):
            if self.pure or self.spec:
                raise Unsupported("dict display in pure context", node)
            ks, vs = kv[:n], kv[n:]
            keys = empty_keys()
            vals = z3.K(Val, Z.NONE)
            size = z3.IntVal(0)
            for k, v in zip(ks, vs):
                k = self.nk(k)
                s, v = self.materialize(s, v)
                size = size + z3.If(z3.Select(keys, k), 0, 1)
                keys = z3.Store(keys, k, z3.BoolVal(True))
                vals = z3.Store(vals, k, v)
            h2, a = s.heap.new_dict(keys, vals, z3.simplify(size))
            out.append((s.with_heap(h2), Z.mk_ref(a)))
        return out

    def ev_Set(self, node, st):
        out = []
        for (s, vals) in self.ev_seq(node.elts, st):
            keys = empty_keys()
            size = z3.IntVal(0)
            for k in vals:
                k = self.nk(k)
                size = size + z3.If(z3.Select(keys, k), 0, 1)
                keys = z3.Store(keys, k, z3.BoolVal(True))
            h2, a = s.heap.new_dict(keys, z3.K(Val, Z.NONE), z3.simplify(size), kind=Z.K_SET)
            out.append((s.with_heap(h2), Z.mk_ref(a)))
        return out

    def ev_JoinedStr(self, node, st):
        return [(st, Z.mk_s(Z.fresh('fstring', S)))]

    def ev_UnaryOp(self, node, st):
        out = []
        for (s, v) in self.ev(node.operand, st):
            if not (self.spec or self.pure) and not isinstance(node.op, ast.Not):
                v = self.narrow(s, v, numeric_only=True)
            if isinstance(node.op, ast.Not):
                out.append((s, Z.mk_b(z3.Not(self.truth(s, v)))))
            elif isinstance(node.op, ast.USub):
                s2 = self.guard(s, z3.Or(Z.is_num(v), Z.is_special(v)), 'TypeError', 'unary minus')
                if s2 is not None:
                    r = z3.If(Z.is_intlike(v), Z.mk_i(-Z.ival(v)),
                              z3.If(Z.is_r(v), Z.mk_r(-Z.rv(v)),
                                    z3.If(Z.is_pinf(v), Z.NINF, z3.If(Z.is_ninf(v), Z.PINF, Z.NAN))))
                    out.append((s2, z3.simplify(r)))
            elif isinstance(node.op, ast.UAdd):
                out.append((s, v))
            else:
                raise Unsupported("unary op", node)
        return out

    def ev_BoolOp(self, node, st):
        is_and = isinstance(node.op, ast.And)
        if self.pure or self.spec:
            # no forking: build If-chain; right operands evaluated under guard context
            v = self.ev1(node.values[0], st)
            ctx_added = 0
            for nxt in node.values[1:]:
                t = self.truth(st, v)
                self.ctx.append(t if is_and else z3.Not(t))
                ctx_added += 1
                w = self.ev1(nxt, st)
                if self.spec:
                    tw = self.truth(st, w)
                    v = Z.mk_b(z3.And(t, tw) if is_and else z3.Or(t, tw))
                else:
                    v = z3.If(t, w, v) if is_and else z3.If(t, v, w)
            for _ in range(ctx_added):
                self.ctx.pop()
            return [(st, v)]
        outs = self.ev(node.values[0], st)
        for nxt in node.values[1:]:
            new = []
            for (s, v) in outs:
                t = self.truth(s, v)
                st_t, st_f = self.branch(s, t)
                go, stop = (st_t, st_f) if is_and else (st_f, st_t)
                if stop is not None:
                    new.append((stop, v))
                if go is not None:
                    new.extend(self.ev(nxt, go))
            outs = new
        return outs

    def ev_IfExp(self, node, st):
        if self.pure or self.spec:
            c = self.truth(st, self.ev1(node.test, st))
            self.ctx.append(c)
            a = self.ev1(node.body, st)
            self.ctx.pop()
            self.ctx.append(z3.Not(c))
            b = self.ev1(node.orelse, st)
            self.ctx.pop()
            if isinstance(a, VTuple) or isinstance(b, VTuple):
                raise Unsupported("tuple-valued conditional in pure context", node)
            return [(st, z3.If(c, a, b))]
        out = []
        for (s, c) in self.ev(node.test, st):
            st_t, st_f = self.branch(s, self.truth(s, c))
            if st_t is not None:
                out.extend(self.ev(node.body, st_t))
            if st_f is not None:
                out.extend(self.ev(node.orelse, st_f))
        return out

    def ev_Compare(self, node, st):
        # x == [c1, ..., cn] / x != [...] against a list literal of scalar constants: a list of that length with equal items
        if len(node.ops) == 1 and isinstance(node.ops[0], (ast.Eq, ast.NotEq)):
            lit, other = (node.comparators[0], node.left) if isinstance(node.comparators[0], ast.List) else (node.left, node.comparators[0])
            if isinstance(lit, ast.List) and not isinstance(other, ast.List) and all(isinstance(e, ast.Constant) for e in lit.elts):
                out = []
                for (s, x) in self.ev(other, st):
                    if isinstance(x, VTuple):
                        out.append((s, Z.mk_b(isinstance(node.ops[0], ast.NotEq))))
                        continue
                    a = Z.addr(x)
                    conj = [self.is_kind(s, x, Z.K_LIST), s.heap.len_of(a) == len(lit.elts)]
                    for k, e in enumerate(lit.elts):
                        conj.append(self.py_eq(s, s.heap.item(a, z3.IntVal(k)), self.ev1(e, s), node))
                    c = z3.And(conj)
                    out.append((s, Z.mk_b(c if isinstance(node.ops[0], ast.Eq) else z3.Not(c))))
                return out
        # chains a < b < c evaluated left to right (each operand once)
        operands = [node.left] + list(node.comparators)
        out = []
        for (s, vals) in self.ev_seq(operands, st):
            conj = []
            ok = True
            for k, op in enumerate(node.ops):
                r = self.compare(s, op, vals[k], vals[k + 1], node)
                if r is None:
                    ok = False
                    break
                s, c = r
                conj.append(c)
            if ok:
                out.append((s, Z.mk_b(z3.simplify(z3.And(conj)) if len(conj) > 1 else conj[0])))
        return out

    def compare(self, st, op, a, b, node):
        """returns (state, Bool) or None if only exceptional outcomes"""
        if isinstance(op, (ast.Eq, ast.NotEq)):
            e = self.py_eq(st, a, b, node)
            return st, (e if isinstance(op, ast.Eq) else z3.Not(e))
        if isinstance(op, (ast.Is, ast.IsNot)):
            if isinstance(a, VTuple) or isinstance(b, VTuple):
                raise Unsupported("is on tuple", node)
            e = (a == b)
            return st, (e if isinstance(op, ast.Is) else z3.Not(e))
        if isinstance(op, (ast.Lt, ast.LtE, ast.Gt, ast.GtE)):
            if isinstance(a, VTuple) or isinstance(b, VTuple):
                raise Unsupported("ordering on tuple", node)
            if not (self.spec or self.pure):
                a, b = self.narrow(st, a, True), self.narrow(st, b, True)
            st2 = self.guard(st, self.orderable(a, b), 'TypeError', 'unorderable operands')
            if st2 is None:
                return None
            if isinstance(op, ast.Lt):
                return st2, self.lt(a, b, True)
            if isinstance(op, ast.LtE):
                return st2, self.lt(a, b, False)
            if isinstance(op, ast.Gt):
                return st2, self.lt(b, a, True)
            return st2, self.lt(b, a, False)
        if isinstance(op, (ast.In, ast.NotIn)):
            r = self.contains(st, b, a, node)
            if r is None:
                return None
            st2, c = r
            return st2, (c if isinstance(op, ast.In) else z3.Not(c))
        raise Unsupported("comparison operator", node)

    def contains(self, st, cont, x, node):
        """x in cont"""
        if isinstance(cont, VTuple):
            return st, z3.Or([self.py_eq(st, x, it, node) for it in cont.items]) if cont.items else z3.BoolVal(False)
        if isinstance(x, VTuple):
            raise Unsupported("tuple in container", node)
        h = st.heap
        a = Z.addr(cont)
        if self.spec:
            # specifications are total: dispatch on the container's kind symbolically (text first: substring test)
            is_txt = z3.simplify(Z.is_s(cont))
            if z3.is_true(is_txt):
                return st, z3.Contains(Z.sv(cont), Z.sv(x))
            j = Z.fresh_int('j')
            arr, n = h.elems(a), h.len_of(a)
            e = lambda y: z3.If(z3.And(Z.is_num(x), Z.is_num(y)), Z.num(x) == Z.num(y), x == y)
            in_seq = z3.Exists([j], z3.And(j >= 0, j < n, e(z3.Select(arr, j))))
            is_seq = z3.simplify(self.is_kind(st, cont, Z.K_LIST, Z.K_TUPLE))
            if z3.is_true(is_seq):
                return st, in_seq
            if z3.is_false(is_seq):
                return st, h.has_key(a, self.nk(x))
            if st.implies(is_seq):
                return st, in_seq
            if not z3.is_false(is_txt) and st.implies(Z.is_s(cont)):
                return st, z3.Contains(Z.sv(cont), Z.sv(x))
            if st.implies(z3.Not(is_seq)):
                return st, z3.If(Z.is_s(cont), z3.Contains(Z.sv(cont), Z.sv(x)), h.has_key(a, self.nk(x)))
            return st, z3.If(is_seq, in_seq, z3.If(Z.is_s(cont), z3.Contains(Z.sv(cont), Z.sv(x)), h.has_key(a, self.nk(x))))
        if self.known(st, Z.is_s(cont)):
            st2 = self.guard(st, Z.is_s(x), 'TypeError', 'in <string> requires string')
            if st2 is None:
                return None
            return st2, z3.Contains(Z.sv(cont), Z.sv(x))
        if self.known(st, self.is_kind(st, cont, Z.K_DICT, Z.K_SET)):
            return st, h.has_key(a, self.nk(x))
        if self.known(st, self.is_kind(st, cont, Z.K_LIST, Z.K_TUPLE)):
            j = Z.fresh_int('j')
            arr = h.elems(a)
            n = h.len_of(a)
            # membership by Python equality for scalars (numbers compare by value), identity for refs
            e = lambda y: z3.If(z3.And(Z.is_num(x), Z.is_num(y)), Z.num(x) == Z.num(y), x == y)
            return st, z3.Exists([j], z3.And(j >= 0, j < n, e(z3.Select(arr, j))))
        if self.known(st, self.is_kind(st, cont, Z.K_OBJ)) or self.spec:
            return st, h.has_key(a, self.nk(x))
        raise Unsupported("'in' on value of unknown kind: " + ast.unparse(node), node)

    def ev_BinOp(self, node, st):
        out = []
        for (s, (a, b)) in [(s, tuple(v)) for (s, v) in self.ev_seq([node.left, node.right], st)]:
            out.extend(self.binop(s, node.op, a, b, node))
        return out

    def binop(self, st, op, a, b, node):
        if isinstance(a, VTuple) or isinstance(b, VTuple):
            raise Unsupported("arithmetic on tuple", node)
        if not (self.spec or self.pure):
            a, b = self.narrow(st, a), self.narrow(st, b)
            # IEEE specials: inf/nan arithmetic is modelled for + - % //, anything else is out of the subset
            # (never a made-up TypeError: a modelled failure Python does not have would be a false alarm)
            spec_a, spec_b = z3.simplify(Z.is_special(a)), z3.simplify(Z.is_special(b))
            if not (z3.is_false(spec_a) and z3.is_false(spec_b)):
                q_special = z3.And(z3.Or(spec_a, spec_b), z3.Or(Z.is_num(a), Z.is_special(a)), z3.Or(Z.is_num(b), Z.is_special(b)))
                may = st.feasible(q_special)
                if may:
                    # "unknown" within the short budget must not decide this (the special-value path is mostly unsupported):
                    # ask once more with a long budget before concluding that inf/nan can reach the operator
                    may = st.feasible(q_special, timeout_ms=10000)
                if may:
                    return self.binop_special(st, op, a, b, node)
        bothnum = z3.And(Z.is_num(a), Z.is_num(b))
        if isinstance(op, ast.Add):
            if self.spec and not z3.is_true(z3.simplify(z3.Or(Z.is_s(a), Z.is_s(b)))):
                # specifications are total: + is numeric addition unless an operand is syntactically a string
                return [(st, self.num_result(a, b, lambda x, y: x + y, lambda x, y: x + y))]
            if self.known(st, bothnum):
                return [(st, self.num_result(a, b, lambda x, y: x + y, lambda x, y: x + y))]
            if self.known(st, z3.And(Z.is_s(a), Z.is_s(b))):
                return [(st, Z.mk_s(z3.Concat(Z.sv(a), Z.sv(b))))]
            lists = z3.And(self.is_kind(st, a, Z.K_LIST), self.is_kind(st, b, Z.K_LIST))
            tups = z3.And(self.is_kind(st, a, Z.K_TUPLE), self.is_kind(st, b, Z.K_TUPLE))
            for cond, kind in ((lists, Z.K_LIST), (tups, Z.K_TUPLE)):
                if self.known(st, cond):
                    return [self.concat_lists(st, a, b, kind)]
            # unknown: fork over the cases that are feasible
            outs = []
            rest = st
            for cond, fn in ((bothnum, lambda s: (s, self.num_result(a, b, lambda x, y: x + y, lambda x, y: x + y))),
                             (z3.And(Z.is_s(a), Z.is_s(b)), lambda s: (s, Z.mk_s(z3.Concat(Z.sv(a), Z.sv(b))))),
                             (lists, lambda s: self.concat_lists(s, a, b, Z.K_LIST)),
                             (tups, lambda s: self.concat_lists(s, a, b, Z.K_TUPLE))):
                if self.pure or self.spec:
                    raise Unsupported("+ on operands of unknown type in pure context: " + ast.unparse(node), node)
                if rest.feasible(cond):
                    outs.append(fn(rest.assume(cond)))
                rest = rest.assume(z3.Not(cond))
            if rest.feasible():
                self.throw_new(rest, 'TypeError', 'unsupported operands for +')
            return outs
        if isinstance(op, ast.Mult):
            if self.spec or self.known(st, bothnum):
                return [(st, self.num_result(a, b, lambda x, y: x * y, self.real_mul))]
            # list * int
            if self.known(st, z3.And(self.is_kind(st, a, Z.K_LIST), Z.is_intlike(b))):
                return [self.replicate(st, a, b)]
            if self.known(st, z3.And(self.is_kind(st, b, Z.K_LIST), Z.is_intlike(a))):
                return [self.replicate(st, b, a)]
            s2 = self.guard(st, bothnum, 'TypeError', '* on non-numbers')
            return [] if s2 is None else [(s2, self.num_result(a, b, lambda x, y: x * y, lambda x, y: x * y))]
        if isinstance(op, ast.Sub):
            s2 = self.guard(st, bothnum, 'TypeError', '- on non-numbers')
            return [] if s2 is None else [(s2, self.num_result(a, b, lambda x, y: x - y, lambda x, y: x - y))]
        if isinstance(op, ast.Div):
            s2 = self.guard(st, bothnum, 'TypeError', '/ on non-numbers')
            if s2 is None:
                return []
            s3 = self.guard(s2, Z.num(b) != 0, 'ZeroDivisionError', 'division by zero')
            return [] if s3 is None else [(s3, Z.mk_r(self.real_div(Z.num(a), Z.num(b))))]
        if isinstance(op, ast.Mod) and not self.spec and self.known(st, Z.is_s(a)):
            # A6: old-style string formatting 'text %s' % value gives some text (uninterpreted function of template and argument);
            # a mismatch between the template's fields and the arguments is outside the model (templates here are literals with one %s)
            self.used_assumptions.add('A6')
            st, b2 = self.materialize(st, b)
            return [(st, Z.mk_s(Z.FORMAT1(Z.sv(a), b2)))]
        if isinstance(op, (ast.FloorDiv, ast.Mod)):
            s2 = self.guard(st, bothnum, 'TypeError', '// or % on non-numbers')
            if s2 is None:
                return []
            s3 = self.guard(s2, Z.num(b) != 0, 'ZeroDivisionError', 'modulo by zero')
            if s3 is None:
                return []
            ia, ib = Z.ival(a), Z.ival(b)
            qi = z3.If(ib > 0, ia / ib, (-ia) / (-ib))
            ra, rb = Z.num(a), Z.num(b)
            qr = z3.ToReal(z3.ToInt(ra / rb))     # floor
            if isinstance(op, ast.FloorDiv):
                res = z3.If(z3.And(Z.is_intlike(a), Z.is_intlike(b)), Z.mk_i(qi), Z.mk_r(qr))
            else:
                res = z3.If(z3.And(Z.is_intlike(a), Z.is_intlike(b)), Z.mk_i(ia - ib * qi), Z.mk_r(ra - rb * qr))
            return [(s3, z3.simplify(res))]
        if isinstance(op, ast.Pow):
            s2 = self.guard(st, bothnum, 'TypeError', '** on non-numbers')
            if s2 is None:
                return []
            sb = z3.simplify(b)
            if z3.is_app(sb) and sb.decl().name() == 'i' and z3.is_int_value(sb.arg(0)) and 0 <= sb.arg(0).as_long() <= 4:
                k = sb.arg(0).as_long()
                fi = lambda x, y: z3.IntVal(1) if k == 0 else _prod([x] * k)
                fr = lambda x, y: z3.RealVal(1) if k == 0 else _prod([x] * k)
                return [(s2, self.num_result(a, b, fi, fr))]
            if not self.spec and self.known(s2, z3.And(Z.is_intlike(b), Z.ival(b) >= 0, Z.ival(b) <= 4)):
                # a small exponent fixed by the path condition (e.g. len(xs) - 1 in a split case): unfold the product
                for k in range(5):
                    if self.known(s2, Z.ival(b) == k):
                        fi = lambda x, y, k=k: z3.IntVal(1) if k == 0 else _prod([x] * k)
                        fr = lambda x, y, k=k: z3.RealVal(1) if k == 0 else _prod([x] * k)
                        return [(s2, self.num_result(a, Z.mk_i(z3.IntVal(k)), fi, fr))]
            if self.known(s2, z3.And(Z.is_intlike(b), Z.ival(b) >= 0)):
                # integer exponent >= 0: the recursively defined real power (facts come from proved lemmas)
                t = Z.PW(Z.num(a), Z.ival(b))
                self.pow_terms.append((Z.num(a), Z.ival(b), t))
                self.used_assumptions.add('A1')
                # (int ** int is an int in Python; the model returns the real of the same value)
                return [(s2, Z.mk_r(t))]
            t = Z.POW(Z.num(a), Z.num(b))
            self.used_assumptions.add('POW')
            # x ** n in the reals: 0 ** negative raises; otherwise abstract value (lemmas add facts)
            s3 = self.guard(s2, z3.Not(z3.And(Z.num(a) == 0, Z.num(b) < 0)), 'ZeroDivisionError', '0 ** negative')
            if s3 is None:
                return []
            s3 = s3.assume(z3.Implies(Z.num(b) == 0, t == 1), z3.Implies(Z.num(b) == 1, t == Z.num(a)),
                           z3.Implies(Z.num(a) == 1, t == 1),
                           z3.Implies(z3.And(Z.num(a) == 0, Z.num(b) > 0), t == 0))
            return [(s3, Z.mk_r(t))]
        raise Unsupported("binary operator " + type(op).__name__, node)

    def binop_special(self, st, op, a, b, node):
        """float arithmetic when an operand may be +-inf/nan (both operands numeric or special)"""
        either = z3.Or(Z.is_special(a), Z.is_special(b))
        outs = []
        st_s, st_n = self.branch(st, either)
        if st_n is not None:
            saved = self.spec
            # finite case: ordinary path (re-enter with the specials excluded)
            a2 = self.narrow(st_n, a, True)
            b2 = self.narrow(st_n, b, True)
            if z3.is_false(z3.simplify(Z.is_special(a2))) and z3.is_false(z3.simplify(Z.is_special(b2))):
                outs.extend(self.binop(st_n, op, a2, b2, node))
            else:
                raise Unsupported("arithmetic on a value that may be inf/nan: " + ast.unparse(node), node)
        if st_s is not None:
            nan_in = z3.Or(Z.is_nan(a), Z.is_nan(b))
            pa, na_, pb, nb = Z.is_pinf(a), Z.is_ninf(a), Z.is_pinf(b), Z.is_ninf(b)
            if isinstance(op, ast.Add):
                res = z3.If(z3.Or(nan_in, z3.And(pa, nb), z3.And(na_, pb)), Z.NAN, z3.If(z3.Or(pa, pb), Z.PINF, Z.NINF))
            elif isinstance(op, ast.Sub):
                res = z3.If(z3.Or(nan_in, z3.And(pa, pb), z3.And(na_, nb)), Z.NAN, z3.If(z3.Or(pa, nb), Z.PINF, Z.NINF))
            elif isinstance(op, ast.Mod):
                # inf % y is nan; x % +-inf is x or the infinity depending on signs: only the first form is modelled
                ok = self.known(st_s, z3.Or(Z.is_special(a)))
                if not ok:
                    raise Unsupported("finite % infinity", node)
                res = Z.NAN
            else:
                raise Unsupported("operator %s on inf/nan" % type(op).__name__, node)
            outs.append((st_s, z3.simplify(res)))
        return outs

    def concat_lists(self, st, a, b, kind):
        h = st.heap
        aa, ab = Z.addr(a), Z.addr(b)
        na, nb = h.len_of(aa), h.len_of(ab)
        ea, eb = h.elems(aa), h.elems(ab)
        k = z3.Int('k!cat')
        arr = z3.Lambda([k], z3.If(k < na, z3.Select(ea, k), z3.Select(eb, k - na)))
        h2, r = h.new_list(arr, na + nb, kind=kind)
        return st.with_heap(h2).assume(na >= 0, nb >= 0), Z.mk_ref(r)

    def replicate(self, st, lst, n):
        h = st.heap
        a = Z.addr(lst)
        m = h.len_of(a)
        if not self.known(st, m == 1):
            raise Unsupported("list * int for lists of length != 1")
        x = h.item(a, 0)
        cnt = z3.If(Z.ival(n) > 0, Z.ival(n), z3.IntVal(0))
        h2, r = h.new_list(z3.K(I, x), cnt)
        return st.with_heap(h2), Z.mk_ref(r)

    # ---- subscripts / attributes -------------------------------------------------
    def ev_Subscript(self, node, st):
        out = []
        if isinstance(node.slice, ast.Slice):
            for (s, base) in self.ev(node.value, st):
                out.extend(self.slice_of(s, base, node.slice, node))
            return out
        for (s, (base, idx)) in [(s, tuple(v)) for (s, v) in self.ev_seq([node.value, node.slice], st)]:
            out.extend(self.subscript(s, base, idx, node))
        return out

    def subscript(self, st, base, idx, node):
        if isinstance(base, VTuple):
            sidx = z3.simplify(idx) if not isinstance(idx, VTuple) else None
            if sidx is not None and sidx.decl().name() == 'i' and z3.is_int_value(sidx.arg(0)):
                return [(st, base.items[sidx.arg(0).as_long()])]
            raise Unsupported("symbolic index into virtual tuple", node)
        if isinstance(idx, VTuple):
            raise Unsupported("tuple index", node)
        h = st.heap
        a = Z.addr(base)
        if self.known(st, self.is_kind(st, base, Z.K_DICT)) or (self.spec and not z3.is_false(z3.simplify(Z.is_s(idx)))
                                                                 and z3.is_true(z3.simplify(Z.is_s(idx)))) \
                or (self.spec and not z3.is_true(z3.simplify(Z.is_i(idx))) and not z3.is_false(z3.simplify(self.is_kind(st, base, Z.K_DICT)))
                    and st.implies(self.is_kind(st, base, Z.K_DICT))):      # (an index that is syntactically an int is a sequence index: no solver call)
            k = self.nk(idx if self.spec else self.narrow(st, idx))
            if not self.spec and z3.simplify(a).sexpr() in self.ddicts:
                # defaultdict(int): a missing key reads as 0 and is inserted
                v = z3.simplify(z3.If(h.has_key(a, k), h.get(a, k), Z.mk_i(0)))
                return [(st.with_heap(h.set_key(a, k, v)), v)]
            s2 = self.guard(st, h.has_key(a, k), 'KeyError', 'missing key ' + ast.unparse(node.slice) if hasattr(node, 'slice') else 'missing key')
            return [] if s2 is None else [(s2, h.get(a, k))]
        if self.known(st, self.is_kind(st, base, Z.K_LIST, Z.K_TUPLE)) or self.spec:
            n = h.len_of(a)
            s2 = self.guard(st, Z.is_intlike(idx), 'TypeError', 'list index must be int')
            if s2 is None:
                return []
            i = Z.ival(idx)
            s3 = self.guard(s2, z3.And(i >= -n, i < n), 'IndexError', 'index out of range: ' + ast.unparse(node))
            if s3 is None:
                return []
            # specifications index from the front only (negative indices are a feature of the executable code)
            j = i if self.spec else z3.simplify(z3.If(i < 0, i + n, i))
            return [(s3, h.item(a, j))]
        if self.known(st, Z.is_s(base)):
            s2 = self.guard(st, Z.is_intlike(idx), 'TypeError', 'string index must be int')
            if s2 is None:
                return []
            i = Z.ival(idx)
            n = z3.Length(Z.sv(base))
            s3 = self.guard(s2, z3.And(i >= -n, i < n), 'IndexError', 'string index out of range')
            if s3 is None:
                return []
            j = z3.If(i < 0, i + n, i)
            return [(s3, Z.mk_s(z3.SubString(Z.sv(base), j, 1)))]
        raise Unsupported("subscript of value of unknown kind: " + ast.unparse(node), node)

    def slice_of(self, st, base, sl, node):
        if sl.step is not None:
            raise Unsupported("slice step", node)
        h = st.heap
        a = Z.addr(base)
        outs = []
        parts = [sl.lower, sl.upper]
        seqs = [(st, [])]
        for p in parts:
            nxt = []
            for (s, vals) in seqs:
                if p is None:
                    nxt.append((s, vals + [None]))
                else:
                    for (s2, v) in self.ev(p, s):
                        nxt.append((s2, vals + [v]))
            seqs = nxt
        for (s, (lo, hi)) in [(s, tuple(v)) for (s, v) in seqs]:
            if self.known(s, self.is_kind(s, base, Z.K_LIST, Z.K_TUPLE)):
                n = h.len_of(a)
                clamp = lambda v, dflt: dflt if v is None else z3.If(Z.ival(v) < 0, z3.If(Z.ival(v) + n < 0, 0, Z.ival(v) + n),
                                                                       z3.If(Z.ival(v) > n, n, Z.ival(v)))
                l = clamp(lo, z3.IntVal(0))
                u = clamp(hi, n)
                m = z3.simplify(z3.If(u > l, u - l, 0))
                k = z3.Int('k!sl')
                arr = z3.Lambda([k], z3.Select(s.heap.elems(a), k + l))
                kind = z3.simplify(s.heap.kind_of(a))
                kk = Z.K_TUPLE if self.known(s, s.heap.kind_of(a) == Z.K_TUPLE) else Z.K_LIST
                h2, r = s.heap.new_list(arr, m, kind=kk)
                outs.append((s.with_heap(h2).assume(n >= 0), Z.mk_ref(r)))
            elif self.known(s, Z.is_s(base)):
                n = z3.Length(Z.sv(base))
                clamp = lambda v, dflt: dflt if v is None else z3.If(Z.ival(v) < 0, z3.If(Z.ival(v) + n < 0, 0, Z.ival(v) + n),
                                                                       z3.If(Z.ival(v) > n, n, Z.ival(v)))
                l = clamp(lo, z3.IntVal(0))
                u = clamp(hi, n)
                m = z3.If(u > l, u - l, 0)
                outs.append((s, Z.mk_s(z3.SubString(Z.sv(base), l, m))))
            else:
                raise Unsupported("slice of value of unknown kind: " + ast.unparse(node), node)
        return outs

    def ev_Attribute(self, node, st):
        # module attribute forms
        txt = ast.unparse(node)
        if txt in ('numbers.Number',):
            return [(st, Val.cls(z3.IntVal(-1)))]
        if txt == 'sys.maxsize':
            return [(st, Z.mk_i(2 ** 63 - 1))]
        if txt in getattr(self.c, 'globals_read', {}) and self.c.globals_read[txt] in st.env:
            return [(st, st.env[self.c.globals_read[txt]])]
        if txt in ('np.pi', 'np.e', 'math.pi', 'math.e'):
            # a named real constant (its decimal value is not needed by any obligation)
            return [(st, Z.mk_r(z3.Real('CONST_' + txt.split('.')[1].upper())))]
        if isinstance(node.value, ast.Call) and isinstance(node.value.func, ast.Name) and node.value.func.id == 'super':
            # super(C, self).method taken as a value (bound method): opaque; calling it needs a call-site contract for the local it is stored in
            self._nsuper = getattr(self, '_nsuper', 0) + 1
            return [(st, Val.fn(z3.IntVal(-500 - self._nsuper)))]
        out = []
        for (s, obj) in self.ev(node.value, st):
            out.extend(self.getattr(s, obj, node.attr, node))
        return out

    def getattr(self, st, obj, attr, node):
        h = st.heap
        a = Z.addr(obj)
        key = Z.mk_s(attr)
        if attr == '__class__':
            s2 = self.guard(st, self.is_kind(st, obj, Z.K_OBJ), 'Unsupported', '__class__ of non-object')
            return [] if s2 is None else [(s2, Val.cls(h.class_of(a)))]
        if attr == '__name__' and not self.spec:
            self.used_assumptions.add('A6')
            return [(st, Z.mk_s(Z.NAME_OF(obj)))]
        if self.spec:
            return [(st, h.get(a, key))]
        if not self.known(st, self.is_kind(st, obj, Z.K_OBJ)):
            raise Unsupported("attribute %s of value not known to be an object" % attr, node)
        # instance attribute if present, else class-level attribute from the class table
        has = h.has_key(a, key)
        cls = self.static_class_of(st, obj, node.value if isinstance(node, ast.Attribute) else None)
        ci, cnode = self.ct.resolve_attr(cls, attr) if cls else (None, None)
        if cnode is None:
            s2 = self.guard(st, has, 'AttributeError', 'no attribute ' + attr)
            return [] if s2 is None else [(s2, h.get(a, key))]
        # class-level default: only literal constants are supported, and no subclass may override it
        if not isinstance(cnode, ast.Constant):
            raise Unsupported("class attribute %s.%s is not a literal" % (cls, attr), node)
        for d in self.ct.descendants(cls):
            dci = self.ct.classes[d]
            if d != ci.name and attr in dci.attrs and not (isinstance(dci.attrs[attr], ast.Constant) and dci.attrs[attr].value == cnode.value):
                raise Unsupported("class attribute %s overridden in subclass %s" % (attr, d), node)
        dflt = self.ev1(cnode, st)
        return [(st, z3.simplify(z3.If(has, h.get(a, key), dflt)))]

    def static_class_of(self, st, obj, node):
        if isinstance(node, ast.Name) and node.id in self.static_cls:
            return self.static_cls[node.id]
        c = z3.simplify(st.heap.class_of(Z.addr(obj)))
        if z3.is_int_value(c):
            return self.ct.names[c.as_long() - 1]
        return None

    # ---- lambda / comprehension ----------------------------------------------------
    def ev_Lambda(self, node, st):
        return [(st, Closure(node, dict(st.env)))]

    # comprehension support is in comp.py (mixed in below)

    # ------------------------------------------------------------------ statements
    def ex(self, stmts, st):
        """execute statements; returns list of states that complete normally"""
        states = [st]
        for stmt in stmts:
            nxt = []
            for s in states:
                m = getattr(self, 'ex_' + type(stmt).__name__, None)
                if m is None:
                    raise Unsupported("statement " + type(stmt).__name__, stmt)
                nxt.extend(m(stmt, s))
            states = nxt
            if not states:
                break
        return states

    def ex_Pass(self, node, st):
        return [st]

    def ex_Expr(self, node, st):
        if isinstance(node.value, ast.Constant):
            return [st]
        return [s for (s, _v) in self.ev(node.value, st)]

    def ex_Return(self, node, st):
        if node.value is None:
            self.emit('return', (st, Z.NONE))
            return []
        for (s, v) in self.ev(node.value, st):
            s, v = self.materialize(s, v)
            self.emit('return', (s, v))
        return []

    def ex_Break(self, node, st):
        self.emit('break', st)
        return []

    def ex_Continue(self, node, st):
        self.emit('continue', st)
        return []

    def ex_Assert(self, node, st):
        out = []
        for (s, v) in self.ev(node.test, st):
            s2 = self.guard(s, self.truth(s, v), 'AssertionError', ast.unparse(node.test))
            if s2 is not None:
                out.append(s2)
        return out

    def ex_Assign(self, node, st):
        out = []
        for (s, v) in self.ev(node.value, st):
            states = [s]
            for tgt in node.targets:
                nxt = []
                for s1 in states:
                    nxt.extend(self.assign(tgt, v, s1))
                states = nxt
            out.extend(states)
        return out

    def ex_AnnAssign(self, node, st):
        if node.value is None:
            return [st]
        out = []
        for (s, v) in self.ev(node.value, st):
            out.extend(self.assign(node.target, v, s))
        return out

    def assign(self, tgt, v, st):
        if isinstance(tgt, ast.Name):
            if isinstance(v, Closure):
                return [st.bind(tgt.id, v)]
            st, v = self.materialize(st, v)
            return [st.bind(tgt.id, v)]
        if isinstance(tgt, (ast.Tuple, ast.List)):
            n = len(tgt.elts)
            if isinstance(v, VTuple):
                if len(v.items) != n:
                    raise Unsupported("unpacking arity mismatch", tgt)
                items = v.items
                states = [st]
            else:
                h = st.heap
                a = Z.addr(v)
                s2 = self.guard(st, z3.And(self.is_kind(st, v, Z.K_LIST, Z.K_TUPLE), h.len_of(a) == n), 'ValueError', 'unpack')
                if s2 is None:
                    return []
                items = [h.item(a, k) for k in range(n)]
                states = [s2]
            for t, it in zip(tgt.elts, items):
                nxt = []
                for s in states:
                    nxt.extend(self.assign(t, it, s))
                states = nxt
            return states
        if isinstance(tgt, ast.Subscript):
            out = []
            if isinstance(tgt.slice, ast.Slice):
                raise Unsupported("slice assignment", tgt)
            for (s, (base, idx)) in [(s, tuple(x)) for (s, x) in self.ev_seq([tgt.value, tgt.slice], st)]:
                s, v2 = self.materialize(s, v)
                out.extend(self.store_subscript(s, base, idx, v2, tgt))
            return out
        if isinstance(tgt, ast.Attribute):
            out = []
            for (s, obj) in self.ev(tgt.value, st):
                s, v2 = self.materialize(s, v)
                if z3.is_true(z3.simplify(Z.is_cls(obj))):
                    raise Unsupported("assignment to class attribute", tgt)
                if not self.known(s, self.is_kind(s, obj, Z.K_OBJ)):
                    raise Unsupported("attribute store on value not known to be an object", tgt)
                out.append(s.with_heap(s.heap.set_key(Z.addr(obj), Z.mk_s(tgt.attr), v2)))
            return out
        raise Unsupported("assignment target " + type(tgt).__name__, tgt)

    def store_subscript(self, st, base, idx, v, node):
        h = st.heap
        a = Z.addr(base)
        if self.known(st, self.is_kind(st, base, Z.K_DICT)):
            return [st.with_heap(h.set_key(a, self.nk(self.narrow(st, idx)), v))]
        if self.known(st, self.is_kind(st, base, Z.K_LIST)):
            n = h.len_of(a)
            s2 = self.guard(st, Z.is_intlike(idx), 'TypeError', 'list index must be int')
            if s2 is None:
                return []
            i = Z.ival(idx)
            s3 = self.guard(s2, z3.And(i >= -n, i < n), 'IndexError', 'assignment index out of range')
            if s3 is None:
                return []
            j = z3.simplify(z3.If(i < 0, i + n, i))
            return [s3.with_heap(s3.heap.set_item(a, j, v))]
        if self.known(st, self.is_kind(st, base, Z.K_TUPLE)):
            self.throw_new(st, 'TypeError', 'tuple does not support item assignment')
            return []
        raise Unsupported("subscript store on value of unknown kind: " + ast.unparse(node), node)

    def ex_AugAssign(self, node, st):
        # x op= e : lists are extended in place (as Python), everything else rebinds
        tgt = node.target
        load = _as_load(tgt)
        out = []
        for (s, cur) in self.ev(load, st):
            for (s2, rhs) in self.ev(node.value, s):
                if isinstance(node.op, ast.Add) and not isinstance(cur, (VTuple, Closure)) and \
                        not z3.is_false(z3.simplify(Z.is_ref(cur))) and self.known(s2, self.is_kind(s2, cur, Z.K_LIST)):
                    # in-place extend
                    if not self.known(s2, self.is_kind(s2, rhs, Z.K_LIST, Z.K_TUPLE)):
                        raise Unsupported("list += non-list", node)
                    h = s2.heap
                    aa, ab = Z.addr(cur), Z.addr(rhs)
                    na, nb = h.len_of(aa), h.len_of(ab)
                    k = z3.Int('k!ext')
                    arr = z3.Lambda([k], z3.If(k < na, z3.Select(h.elems(aa), k), z3.Select(h.elems(ab), k - na)))
                    out.append(s2.with_heap(h.set_list(aa, arr, na + nb)).assume(na >= 0, nb >= 0))
                    continue
                for (s3, v) in self.binop(s2, node.op, cur, rhs, node):
                    out.extend(self.assign(tgt, v, s3))
        return out

    def ex_Delete(self, node, st):
        states = [st]
        for tgt in node.targets:
            nxt = []
            for s in states:
                if isinstance(tgt, ast.Name):
                    nxt.append(s.unbind(tgt.id))
                elif isinstance(tgt, ast.Subscript):
                    for (s2, (base, idx)) in [(x, tuple(y)) for (x, y) in self.ev_seq([tgt.value, tgt.slice], s)]:
                        if not self.known(s2, self.is_kind(s2, base, Z.K_DICT)):
                            raise Unsupported("del on non-dict", tgt)
                        k = self.nk(idx)
                        s3 = self.guard(s2, s2.heap.has_key(Z.addr(base), k), 'KeyError', 'del missing key')
                        if s3 is not None:
                            nxt.append(s3.with_heap(s3.heap.del_key(Z.addr(base), k)))
                else:
                    raise Unsupported("del target", tgt)
            states = nxt
        return states

    def ex_If(self, node, st):
        out = []
        for (s, c) in self.ev(node.test, st):
            cond = self.truth(s, c)
            st_t, st_f = self.branch(s, cond)
            marks = self._sink_marks()
            res_t = self.ex(node.body, st_t) if st_t is not None else None
            quiet_t = marks == self._sink_marks()
            res_f = self.ex(node.orelse, st_f) if st_f is not None else None
            quiet = quiet_t and marks == self._sink_marks()
            if quiet and res_t is not None and res_f is not None and len(res_t) == 1 and len(res_f) == 1 \
                    and not (self.pure or self.spec) and getattr(self.c, 'merge', True):
                m = self.merge_states(s, z3.simplify(cond), res_t[0], res_f[0])
                if m is not None:
                    out.append(m)
                    continue
            out.extend(res_t or [])
            out.extend(res_f or [])
        return out

    def _sink_marks(self):
        return tuple(len(v) for fr in self.frames for v in fr.values())

    def merge_states(self, base, cond, a, b):
        """join two straight-line branch results into one state (ite on locals and heap fields)"""
        n0 = len(base.pc)
        if a.pc[:n0 + 1][:n0] != base.pc[:n0] or b.pc[:n0] != base.pc[:n0]:
            return None
        # branch() appended cond / Not(cond) as the first new fact of each side
        extra_a = a.pc[n0:]
        extra_b = b.pc[n0:]
        env = {}
        for k in set(a.env) | set(b.env):
            va, vb = a.env.get(k), b.env.get(k)
            if va is None or vb is None:
                continue            # bound on one side only: unbound after the join (use is an error)
            if isinstance(va, (VTuple, Closure)) or isinstance(vb, (VTuple, Closure)):
                if va is vb:
                    env[k] = va
                    continue
                return None
            env[k] = va if va.eq(vb) else z3.If(cond, va, vb)
        upd = {}
        for f in FIELDS:
            fa, fb = getattr(a.heap, f), getattr(b.heap, f)
            upd[f] = fa if fa.eq(fb) else z3.If(cond, fa, fb)
        upd['alloc'] = a.heap.alloc if a.heap.alloc.eq(b.heap.alloc) else z3.If(cond, a.heap.alloc, b.heap.alloc)
        pc = list(base.pc)
        pc += [z3.Implies(cond, p) for p in extra_a if not p.eq(cond)]
        pc += [z3.Implies(z3.Not(cond), p) for p in extra_b if not p.eq(z3.Not(cond))]
        meta = dict(base.meta)
        for k in set(a.meta) | set(b.meta):
            if k in a.meta and k in b.meta and a.meta[k] is b.meta[k]:
                meta[k] = a.meta[k]
        return base.clone(pc=pc, env=env, heap=Heap(**upd), notes=a.notes, meta=meta)

    def ex_Raise(self, node, st):
        if node.exc is None:
            # bare raise inside a handler: re-raise the current exception
            cur = st.meta.get('current_exc')
            if cur is None:
                raise Unsupported("bare raise outside handler", node)
            self.throw(st, cur)
            return []
        for (s, v) in self.ev(node.exc, st):
            if z3.is_true(z3.simplify(Z.is_cls(v))):
                s, v = self.new_exception(s, None, cid_term=Z.cid(v))
            self.throw(s, v)
        return []

    def ex_Try(self, node, st):
        fr = self.push_frame(**{'raise': True, 'return': bool(node.finalbody)})
        try:
            normal = self.ex(node.body, st)
        finally:
            self.pop_frame()
        raised = fr['raise']
        early_returns = fr.get('return', [])
        if node.orelse:
            normal = [s2 for s in normal for s2 in self.ex(node.orelse, s)]
        out = list(normal)
        if node.finalbody:
            # finally: runs on every exit -- normal completion, exceptions the handlers do not catch, exceptions raised
            # by the handlers themselves, and return/break/continue leaving the try
            fr2 = self.push_frame(**{'raise': True, 'return': True})
            try:
                raise_after = []
                for (s, e) in raised:
                    handled, unhandled = self.dispatch_handlers(node, s, e)
                    out.extend(handled)
                    raise_after.extend(unhandled)
            finally:
                self.pop_frame()
            raise_after.extend(fr2['raise'])
            out2 = []
            for s in out:
                out2.extend(self.ex(node.finalbody, s))
            for (s, e) in raise_after:
                for s2 in self.ex(node.finalbody, s):
                    self.throw(s2, e)
            for (s, v) in list(fr2['return']) + list(early_returns):
                for s2 in self.ex(node.finalbody, s):
                    self.emit('return', (s2, v))
            return out2
        for (s, e) in raised:
            handled, unhandled = self.dispatch_handlers(node, s, e)
            out.extend(handled)
            for (s2, e2) in unhandled:
                self.throw(s2, e2)
        return out

    def dispatch_handlers(self, node, st, exc):
        """returns (normal states after a handler ran, [(state, exc)] not handled)"""
        handled = []
        rest = st
        c = st.heap.class_of(Z.addr(exc))
        for hd in node.handlers:
            if hd.type is None:
                cond = z3.BoolVal(True)
            else:
                names = [hd.type] if not isinstance(hd.type, ast.Tuple) else hd.type.elts
                conds = []
                for nm in names:
                    nm_s = nm.id if isinstance(nm, ast.Name) else nm.attr
                    if nm_s not in self.ct.classes:
                        raise Unsupported("unknown exception class " + nm_s, hd)
                    conds.append(self.is_sub(c, nm_s))
                cond = z3.Or(conds)
            st_t, st_f = self.branch(rest, cond)
            if st_t is not None:
                s = st_t
                if hd.name:
                    s = s.bind(hd.name, exc)
                s = s.with_meta(current_exc=exc)
                for s2 in self.ex(hd.body, s):
                    handled.append(s2.with_meta(current_exc=st.meta.get('current_exc')))
            if st_f is None:
                return handled, []
            rest = st_f
        return handled, [(rest, exc)]

    def ex_FunctionDef(self, node, st):
        return [st.bind(node.name, Closure(node, dict(st.env)))]

    def ex_Import(self, node, st):
        return [st]

    ex_ImportFrom = ex_Import

    def ex_Global(self, node, st):
        raise Unsupported("global statement", node)


def _prod(xs):
    r = xs[0]
    for x in xs[1:]:
        r = r * x
    return r


def _as_load(tgt):
    import copy
    t = copy.deepcopy(tgt)
    for n in ast.walk(t):
        if hasattr(n, 'ctx'):
            n.ctx = ast.Load()
    return t
