#!/usr/bin/env python3
"""debug helper: tools_debug.py <contracts-module> [substring ...]  -- verify the matching functions/lemmas of one contract file and print every obligation that is not proved"""
import sys, os, importlib
sys.path.insert(0, os.path.dirname(os.path.abspath(__file__)))
importlib.import_module('contracts.' + sys.argv[1])
from pyvc.verify import verify_function, verify_lemma
from pyvc import api
only = sys.argv[2:]
for ident in api.ORDER:
    if only and not any(o in ident for o in only):
        continue
    r = verify_function(ident)
    print(r.status, ident, 'paths=%d vcs=%d %.2fs' % (r.paths, r.vcs, r.time), r.detail[:1500])
    for k, o in r.obligations.items():
        if o['status'] != 'proved':
            print('    ', o['status'], k, '|', o['clause'][:200], '|', o.get('note', ''), o.get('model', ''))
for n in api.LEMMAS:
    if only and not any(o in n for o in only):
        continue
    r = verify_lemma(n)
    print(r.status, 'lemma', n, '%.2fs' % r.time, r.detail[:500])
