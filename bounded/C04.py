"""
Bounded stand-in for C04 (never counted as proved): Formula / Numerical / Matrix graders with a recording sampling set that replays a fixed
sequence, so the oracle knows the values the grader used.  Tolerances (absolute, percentage, 0), sample counts, failable_evals, student formulas
answer+delta / answer*(1+eps) / sign variants that agree on part of the samples / equivalence-preserving rewrites; a guard band around the
boundary is excluded.  Also the contracts of within_tolerance and consolidate_results under CPython on grids.
"""
import itertools
import math
import random
from bounded._common import Tally, rtcheck, load_contracts

ASSUMPTIONS = ["bounded tier: sample sequences of length <= 6 from a fixed pool, tolerances {0, 0.01, 0.5, '1%', '10%'}, failable_evals 0..3"]


def run(tier, seed):
    load_contracts()
    rnd = random.Random(seed)
    t = Tally('C04')
    fgm = rtcheck.real_module('mitxgraders/formulagrader/formulagrader.py')
    mgm = rtcheck.real_module('mitxgraders/formulagrader/matrixgrader.py')
    samp = rtcheck.real_module('mitxgraders/sampling.py')
    mf = rtcheck.real_module('mitxgraders/helpers/calc/mathfuncs.py')
    mh = rtcheck.real_module('mitxgraders/helpers/math_helpers.py')

    class Replay(samp.VariableSamplingSet):
        """hands out a fixed sequence and records what it handed out"""
        schema_config = samp.Schema({samp.Required('values'): list})

        def __init__(self, config=None, **kwargs):
            super(Replay, self).__init__(config, **kwargs)
            self.k = 0
            self.seen = []

        def gen_sample(self):
            v = self.config['values'][self.k % len(self.config['values'])]
            self.k += 1
            self.seen.append(v)
            return v

    pool = [-3.0, -1.5, -0.5, 0.5, 1.0, 2.0, 2.5, 4.0]
    tolerances = [0, 0.01, 0.5, '1%', '10%']

    def tol_value(tol, expected):
        return abs(expected) * float(tol[:-1]) * 0.01 if isinstance(tol, str) else tol

    n_cfg = 150 if tier == 'quick' else 1500
    students = [('2*x+1', lambda x: 2 * x + 1), ('1+x*2', lambda x: 2 * x + 1), ('2*(x+0.5)', lambda x: 2 * x + 1), ('2*x+1+0', lambda x: 2 * x + 1),
                ('2*x+1.004', lambda x: 2 * x + 1.004), ('2*x+1.3', lambda x: 2 * x + 1.3), ('(2*x+1)*1.005', lambda x: (2 * x + 1) * 1.005),
                ('(2*x+1)*1.05', lambda x: (2 * x + 1) * 1.05), ('2*abs(x)+1', lambda x: 2 * abs(x) + 1), ('sqrt(x^2)*2+1', lambda x: 2 * abs(x) + 1),
                ('2*x+7', lambda x: 2 * x + 7)]
    for cfg in range(n_cfg):
        n = rnd.randint(1, 6)
        fe = rnd.randint(0, 3)
        tol = rnd.choice(tolerances)
        xs = [rnd.choice(pool) for _ in range(n)]
        credit = rnd.choice([1, 0.5])
        text, fn = rnd.choice(students)
        rep = Replay(values=xs)
        g = fgm.FormulaGrader(answers={'expect': '2*x+1', 'grade_decimal': credit}, variables=['x'], sample_from={'x': rep},
                              samples=n, failable_evals=fe, tolerance=tol)
        try:
            r = g(None, text)
        except Exception as e:
            t.fail('FormulaGrader verdict', (cfg,), 'raised %s: %s' % (type(e).__name__, e))
            continue
        used = rep.seen[:n]
        diffs = [(abs((2 * x + 1) - fn(x)), tol_value(tol, 2 * x + 1)) for x in used]
        if any(abs(d - tv) < 1e-9 * max(1, abs(tv)) and d != 0 for d, tv in diffs):
            continue      # guard band around the boundary
        failures = sum(1 for d, tv in diffs if d > tv)
        ok = failures <= fe and not (n == 1 and failures > 0)
        want = credit if ok else 0
        key = (cfg, text, tuple(xs), n, fe, str(tol))
        if abs(r['grade_decimal'] - want) < 1e-12:
            t.ok('FormulaGrader verdict', key, sample={'student': text, 'samples': used, 'tolerance': tol, 'failable_evals': fe, 'failures': failures, 'grade': r['grade_decimal']})
        else:
            t.fail('FormulaGrader verdict', key, "student %r samples %r tolerance %r failable_evals %d: %d failing samples, grade %r expected %r" % (
                text, used, tol, fe, failures, r['grade_decimal'], want))
    # author and student are evaluated on the SAME sample, also when only a sampled *function* varies
    class ReplayFn(samp.FunctionSamplingSet):
        schema_config = samp.Schema({samp.Required('slopes'): list})

        def __init__(self, config=None, **kwargs):
            super(ReplayFn, self).__init__(config, **kwargs)
            self.k = 0

        def gen_sample(self):
            k = self.config['slopes'][self.k % len(self.config['slopes'])]
            self.k += 1
            self.seen = getattr(self, 'seen', []) + [k]
            return lambda x, k=k: k * x

    for n in (2, 3, 5):
        for fe in (0, 1):
            for stu, val in (('f(2) + 1', lambda k: 2 * k + 1), ('1 + f(2)', lambda k: 2 * k + 1), ('f(1)*2 + 1', lambda k: 2 * k + 1),
                             ('3', lambda k: 3), ('f(2)', lambda k: 2 * k)):
                rep = ReplayFn(slopes=[1.0, 2.0, 3.0, 4.0, 5.0])
                g = fgm.FormulaGrader(answers='f(2) + 1', user_functions={'f': rep}, samples=n, failable_evals=fe)
                got = g(None, stu)['ok']
                used = rep.seen[-n:]
                failures = sum(1 for k in used if abs((2 * k + 1) - val(k)) > 1e-9)
                want = failures <= fe
                key = ('sampled function only', n, fe, stu)
                if got is want:
                    t.ok('same sample for author and student', key, sample={'answer': 'f(2) + 1', 'student': stu, 'samples': n, 'slopes used': used, 'ok': got})
                else:
                    t.fail('same sample for author and student', key, "answer 'f(2) + 1' student %r samples=%d failable_evals=%d (f sampled as x -> k*x, k in %r): ok=%r but %d samples disagree" % (stu, n, fe, used, got, failures))
    # percentage relative to the author's value; infinities
    ng = fgm.NumericalGrader
    for ans, stu, tol, want in (('10', '10.9', '10%', True), ('10', '11.04', '10%', False), ('10', '9.04', '10%', True), ('10', '8.9', '10%', False),
                                ('11.04', '10', '10%', True), ('0', '0', '5%', True), ('0', '1e-9', '5%', False), ('3', '3.5', 0.5, True), ('3', '3.51', 0.5, False),
                                ('3', '3', 0, True)):
        got = ng(answers=ans, tolerance=tol)(None, stu)['ok']
        if got is want:
            t.ok('NumericalGrader tolerance side', (ans, stu, str(tol)), sample={'answer': ans, 'student': stu, 'tolerance': tol, 'ok': got})
        else:
            t.fail('NumericalGrader tolerance side', (ans, stu, str(tol)), 'answer %s student %s tolerance %r: ok=%r expected %r' % (ans, stu, tol, got, want))
    g = fgm.FormulaGrader(answers='infty', allow_inf=True)
    for stu, want in (('infty', True), ('-infty', False), ('1e300', False)):
        got = g(None, stu)['ok']
        (t.ok if got is want else t.fail)('infinite values', stu, *([] if got is want else ['answer infty, student %s: ok=%r expected %r' % (stu, got, want)]))
    # arrays: Frobenius norm
    mg = mgm.MatrixGrader(answers='[[1,2],[3,4]]', tolerance=0.25, max_array_dim=2)
    for stu, want in (('[[1.1,2],[3.2,4]]', True), ('[[1.2,2],[3.2,4]]', False), ('[[1,2],[3,4]]+0*[[1,1],[1,1]]', True)):
        got = mg(None, stu)['ok']
        (t.ok if got is want else t.fail)('MatrixGrader Frobenius tolerance', stu, *([] if got is want else ['student %s: ok=%r expected %r' % (stu, got, want)]))
    # contracts under CPython
    F1 = 'mitxgraders/helpers/calc/mathfuncs.py::within_tolerance'
    inf = float('inf')
    vals = [-2.0, -1, 0, 0.5, 1, 3, 10, inf, -inf]
    for x, y in itertools.product(vals, repeat=2):
        for tol in (0, 0.5, 1, '10%', '50%'):
            out = rtcheck.check_call(F1, {'x': x, 'y': y, 'tolerance': tol}, ufns={'PCT': mf.percentage_as_number, 'NORM': lambda v: abs(v)})
            t.record('within_tolerance', (x, y, str(tol)), out, 'within_tolerance(%r, %r, %r)' % (x, y, tol), sample={'x': x, 'y': y, 'tolerance': tol, 'result': str(out.result)})
    F2 = 'mitxgraders/helpers/math_helpers.py::MathMixin.consolidate_results'
    for pattern in itertools.product([True, 'partial', False], repeat=3):
        for cut in (1, 2, 3):
            for fe in (0, 1, 2):
                for ans in (None, {'ok': 'partial', 'grade_decimal': 0.5, 'msg': 'a', 'extra': 1}, {'ok': False, 'grade_decimal': 0, 'msg': ''}):
                    scale = 1 if ans is None else ans['grade_decimal']
                    res = [{'ok': p, 'grade_decimal': {True: 1.0, 'partial': 0.5, False: 0}[p] * scale, 'msg': ''} for p in pattern[:cut]]
                    out = rtcheck.check_call(F2, {'results': res, 'answer': ans, 'failable_evals': fe})
                    t.record('MathMixin.consolidate_results', (pattern[:cut], fe, repr(ans)), out, 'consolidate_results(%r, %r, %d)' % (pattern[:cut], ans, fe))
    return t.report(rule="random (sample sequence, tolerance, failable_evals, student formula) configurations through FormulaGrader with a recording sampler and an "
                         "independent failure count; fixed tolerance-side / infinity / array cases; contracts of within_tolerance and consolidate_results under CPython on grids; "
                         "distinct = distinct (contract, case) keys",
                    bounds={'configurations': n_cfg, 'samples': '1..6', 'failable_evals': '0..3', 'tolerances': [str(x) for x in tolerances]}, exhaustive=False)


def replay(case):
    out = run('quick', 0)
    hit = [f for f in out['failures'] if f['key'] == case.get('key')]
    return {'reproduced': bool(hit), 'case': hit[:1]}
