"""
Bounded stand-in for C01 (never counted as proved): every public grader class x a generated configuration space (answer alternatives with
partial credit and messages, comparers with partial credit, attempt-based credit incl. schedules reaching 0, partial_credit, ordered,
wrong_msg, debug) x student inputs (formulas, delimited lists, unicode garbage, empty strings) x attempt numbers.  A call that returns must
yield exactly the structure of the statement; debugging output only with debug=True.
"""
import itertools
import random
from bounded._common import Tally, rtcheck, load_contracts

ASSUMPTIONS = ["bounded tier: configuration/input pools listed in coverage.bounded.bounds; calls that raise library errors are outside C01 (see C02)"]

DEBUG_MARKS = ('MITx Grading Library Version', 'Student Response', 'Running on edX using python')


def wf_entry(e, pinned_ok=False):
    if not isinstance(e, dict) or set(e.keys()) != {'ok', 'grade_decimal', 'msg'}:
        return 'keys %r' % (sorted(e.keys()) if isinstance(e, dict) else type(e))
    g = e['grade_decimal']
    if isinstance(g, bool) or not isinstance(g, (int, float)) or not (0 <= g <= 1):
        return 'grade_decimal %r' % (g,)
    if not isinstance(e['msg'], str):
        return 'msg %r' % (e['msg'],)
    want = True if g == 1 else (False if g == 0 else 'partial')
    if e['ok'] is not want and e['ok'] != want or (e['ok'] is not want and not isinstance(e['ok'], str)):
        if not pinned_ok:
            return 'ok=%r with grade_decimal=%r' % (e['ok'], g)
    return None


def wf_result(r, n_inputs, debug):
    """None if r is well-formed for a submission of n_inputs boxes (n_inputs None = single text), else a description"""
    if not isinstance(r, dict):
        return 'not a dict'
    if 'input_list' in r:
        if set(r.keys()) != {'overall_message', 'input_list'}:
            return 'keys %r' % sorted(r.keys())
        if not isinstance(r['overall_message'], str):
            return 'overall_message %r' % (r['overall_message'],)
        if n_inputs is not None and len(r['input_list']) != n_inputs:
            return '%d inputs submitted but input_list has %d entries' % (n_inputs, len(r['input_list']))
        for k, e in enumerate(r['input_list']):
            bad = wf_entry(e)
            if bad:
                return 'entry %d: %s' % (k, bad)
        text = r['overall_message'] + ''.join(e['msg'] for e in r['input_list'])
    else:
        bad = wf_entry(r)
        if bad:
            return bad
        text = r['msg']
    if not debug and any(m in text for m in DEBUG_MARKS):
        return 'debug output in messages although debug is off'
    return None


def run(tier, seed):
    load_contracts()
    rnd = random.Random(seed)
    t = Tally('C01')
    sg = rtcheck.real_module('mitxgraders/stringgrader.py')
    lg = rtcheck.real_module('mitxgraders/listgrader.py')
    fgm = rtcheck.real_module('mitxgraders/formulagrader/formulagrader.py')
    mg = rtcheck.real_module('mitxgraders/formulagrader/matrixgrader.py')
    ig = rtcheck.real_module('mitxgraders/formulagrader/intervalgrader.py')
    sumg = rtcheck.real_module('mitxgraders/formulagrader/integralgrader.py')
    ac = rtcheck.real_module('mitxgraders/attemptcredit.py')
    cmpm = rtcheck.real_module('mitxgraders/comparers/__init__.py')
    exc = rtcheck.real_module('mitxgraders/exceptions.py')

    credits = [None, ac.LinearCredit(), ac.LinearCredit(minimum_credit=0, decrease_credit_steps=1), ac.GeometricCredit(factor=0), ac.ReciprocalCredit()]
    attempts = [1, 2, 3, 7]
    garbage = ['', ' ', 'ü∂ƒ', '((', '1/0', 'x', '3', 'cat', 'a, b', 'a, c', 'p, q', 'q, p', 'a, q', '[1,2]', '[1,3]', '2*x', 'x+1', '[1,2)', '(1,2]', 'dog', '1;2', 'x^2+1', '-x', '[[1,2],[3,4]]']

    def common(i):
        c = credits[i % len(credits)]
        kw = {'debug': (i % 7 == 3)}
        if c is not None:
            kw['attempt_based_credit'] = c
            kw['attempt_based_credit_msg'] = (i % 2 == 0)
        return kw

    def configs():
        k = 0
        # StringGrader
        for answers in ('cat', ({'expect': 'cat'}, {'expect': 'dog', 'grade_decimal': 0.5, 'msg': 'half'}, {'expect': 'x', 'grade_decimal': 0, 'msg': 'zero'})):
            for wrong in ('', 'wrong!'):
                k += 1
                yield 'StringGrader', (lambda kw, answers=answers, wrong=wrong: sg.StringGrader(answers=answers, wrong_msg=wrong, **kw)), None, common(k)
        yield 'StringGrader(accept_any)', (lambda kw: sg.StringGrader(accept_any=True, min_length=2, explain_minimums='msg', **kw)), None, common(k + 1)
        # Formula / Numerical
        fans = ({'expect': 'x+1'}, {'expect': 'x', 'grade_decimal': 0.5, 'msg': 'forgot'}, {'expect': '2*x', 'grade_decimal': 0, 'msg': 'zero credit'})
        for answers in ('x+1', fans):
            k += 1
            yield 'FormulaGrader', (lambda kw, answers=answers: fgm.FormulaGrader(answers=answers, variables=['x'], **kw)), None, common(k)
        k += 1
        yield 'FormulaGrader(LinearComparer)', (lambda kw: fgm.FormulaGrader(
            answers=({'expect': {'comparer': cmpm.LinearComparer(), 'comparer_params': ['x']}, 'grade_decimal': 1},
                     {'expect': {'comparer': cmpm.LinearComparer(), 'comparer_params': ['x+1']}, 'grade_decimal': 0},
                     {'expect': {'comparer': cmpm.LinearComparer(), 'comparer_params': ['x^2']}, 'grade_decimal': 0.5}),
            variables=['x'], **kw)), None, common(k)
        k += 1
        yield 'NumericalGrader', (lambda kw: fgm.NumericalGrader(answers=({'expect': '3'}, {'expect': '4', 'grade_decimal': 0.3, 'msg': 'near'}), **kw)), None, common(k)
        # MatrixGrader with entry partial credit, answers with zero / partial credit
        for epc in (0, 0.5, 'proportional'):
            for ans in ('[1,2]', ({'expect': '[1,2]', 'grade_decimal': 0, 'msg': 'm'}, {'expect': '[5,6]', 'grade_decimal': 0.5}), {'expect': '[[1,2],[3,4]]', 'grade_decimal': 0.5}):
                k += 1
                yield 'MatrixGrader', (lambda kw, epc=epc, ans=ans: mg.MatrixGrader(answers=ans, entry_partial_credit=epc, **kw)), None, common(k)
        # SingleListGrader
        for pc, ordered in itertools.product((True, False), repeat=2):
            k += 1
            yield 'SingleListGrader', (lambda kw, pc=pc, ordered=ordered: lg.SingleListGrader(
                answers=({'expect': ['a', ('b', 'B')], 'grade_decimal': 1, 'msg': 'yes'}, {'expect': ['a', 'c'], 'grade_decimal': 0.5},
                         {'expect': ['p', 'q'], 'grade_decimal': 0, 'msg': 'a zero-credit list with a message'}),
                subgrader=sg.StringGrader(), partial_credit=pc, ordered=ordered, **kw)), None, common(k)
        # IntervalGrader
        k += 1
        yield 'IntervalGrader', (lambda kw: ig.IntervalGrader(answers=['(', '1', '2', ']'], partial_credit=True, **kw)), None, common(k)
        k += 1
        yield 'IntervalGrader', (lambda kw: ig.IntervalGrader(answers={'expect': '[1,2)', 'grade_decimal': 0.5}, **kw)), None, common(k)
        # SumGrader (several boxes, single form)
        k += 1
        yield 'SumGrader', (lambda kw: sumg.SumGrader(answers={'lower': '1', 'upper': '4', 'summand': 'n', 'summation_variable': 'n'},
                                                      input_positions={'lower': 1, 'upper': 2, 'summand': 3}, **kw)), 'sum', common(k)
        # ListGrader: ordered/unordered, partial_credit, nested and grouped
        for ordered, pc in itertools.product((True, False), repeat=2):
            k += 1
            yield 'ListGrader', (lambda kw, ordered=ordered, pc=pc: lg.ListGrader(
                answers=[({'expect': 'cat'}, {'expect': 'kitten', 'grade_decimal': 0.5, 'msg': 'young'}), 'dog', ({'expect': 'x'}, {'expect': 'y', 'grade_decimal': 0.25})],
                subgraders=sg.StringGrader(), ordered=ordered, partial_credit=pc, **kw)), 3, common(k)
        k += 1
        yield 'ListGrader(alternative lists)', (lambda kw: lg.ListGrader(
            answers=(['a', 'b'], ['a', 'c'], [{'expect': 'b', 'grade_decimal': 0.5}, 'c']), subgraders=sg.StringGrader(), ordered=False, **kw)), 2, common(k)
        k += 1
        yield 'ListGrader(grouped, nested)', (lambda kw: lg.ListGrader(
            answers=[['a', 'b'], 'x+1', ['c', 'd']], subgraders=[lg.ListGrader(subgraders=sg.StringGrader(), ordered=False), fgm.FormulaGrader(variables=['x']),
                                                                 lg.SingleListGrader(subgrader=sg.StringGrader())],
            grouping=[1, 1, 2, 3], ordered=True, **kw)), 4, common(k)
        for grouping in ([2, 1], [2, 3, 1], [3, 1, 2]):
            k += 1
            n = len(grouping)
            names = ['cat', 'dog', 'emu'][:n]
            yield 'ListGrader(singleton groups %r)' % (grouping,), (lambda kw, grouping=grouping, names=names: lg.ListGrader(
                answers=names, subgraders=[sg.StringGrader() for _ in names], grouping=grouping, ordered=True, **kw)), ('perm', tuple(grouping)), common(k)
        k += 1
        yield 'ListGrader(Formula subgraders)', (lambda kw: lg.ListGrader(
            answers=['x', ({'expect': '2*x', 'grade_decimal': 1}, {'expect': 'x', 'grade_decimal': 0.5})], subgraders=fgm.FormulaGrader(variables=['x']), ordered=False, **kw)), 2, common(k)

    pools = {None: garbage,
             'sum': [['1', '4', 'n'], ['4', '1', 'n'], ['1', '4', 'n+1'], ['1', '3', 'n']],
             2: [['a', 'b'], ['a', 'c'], ['b', 'c'], ['c', 'b'], ['x', '2*x'], ['2*x', 'x'], ['x', 'x'], ['', 'q'], ['a', 'b', 'c']],
             3: [['cat', 'dog', 'x'], ['kitten', 'dog', 'y'], ['dog', 'cat', 'y'], ['x', 'kitten', 'zz'], ['', '', ''], ['kitten', 'y', 'dog'], ['cat', 'dog', 'x', 'y']],
             4: [['a', 'b', 'x+1', 'c, d'], ['b', 'a', 'x', 'd'], ['q', 'a', '1+x', 'c,d,e'], ['a', 'b', 'x+1']]}
    for name, mk, shape, kw in configs():
        if isinstance(shape, tuple) and shape[0] == 'perm':
            # box i belongs to group grouping[i], whose answer is names[grouping[i] - 1]: entry i of input_list is about box i
            grouping = shape[1]
            names = ['cat', 'dog', 'emu'][:len(grouping)]
            right = [names[g - 1] for g in grouping]
            for wrong_at in [None] + list(range(len(grouping))):
                inp = list(right)
                if wrong_at is not None:
                    inp[wrong_at] = 'zebra'
                try:
                    r = mk({a: b for a, b in kw.items() if not a.startswith('attempt_based_credit')})(None, inp)
                    oks = [e['ok'] for e in r['input_list']]
                except Exception as e:
                    oks = '%s: %s' % (type(e).__name__, str(e)[:100])
                want = [i != wrong_at for i in range(len(grouping))]
                key = (name, repr(inp))
                (t.ok if oks == want else t.fail)(name, key, *([] if oks == want else ['%s input %r: per-box ok %r, expected %r (entry i must report on input box i)' % (name, inp, oks, want)]))
            continue
        for inp in pools[shape]:
            atts = attempts if 'attempt_based_credit' in kw else [None]
            if tier == 'quick' and len(atts) > 2:
                atts = [rnd.choice(atts[:2]), rnd.choice(atts[2:])]
            for att in atts:
                try:
                    grader = mk(dict(kw))
                    r = grader(None, inp, **({'attempt': att} if att is not None else {}))
                except Exception as e:
                    if isinstance(e, exc.MITxError):
                        t.evaluations += 1
                        continue          # a call that raises a library error is outside C01
                    t.fail(name, (repr(inp), att), '%s input %r attempt %r raised %s: %s' % (name, inp, att, type(e).__name__, str(e)[:200]))
                    continue
                n_in = len(inp) if isinstance(inp, list) and shape != 'sum' else None
                bad = wf_result(r, n_in, kw.get('debug', False))
                if isinstance(inp, list) and shape != 'sum' and 'input_list' not in r:
                    bad = bad or 'several inputs but the single form was returned'
                key = (name, repr(sorted((k2, str(v)[:30]) for k2, v in kw.items())), repr(inp), att)
                if bad:
                    t.fail(name, key, '%s(%s) input %r attempt %r returned %r: %s' % (name, ', '.join('%s=%s' % (a, str(b)[:40]) for a, b in kw.items()), inp, att, r, bad))
                else:
                    t.ok(name, key, sample={'grader': name, 'options': {a: str(b)[:40] for a, b in kw.items()}, 'input': inp, 'attempt': att, 'result': r})
    return t.report(rule="every grader class in a fixed configuration list x inputs from per-shape pools x attempts; a case is a (grader configuration, input, attempt) "
                         "triple that returned; distinct = distinct such keys; all returned cases are checked against the statement's structure",
                    bounds={'grader configurations': 'see bounded/C01.py configs()', 'single-input pool': len(garbage), 'attempts': attempts}, exhaustive=False)


def replay(case):
    out = run('thorough', 0)
    hit = [f for f in out['failures'] if f['key'] == case.get('key')]
    return {'reproduced': bool(hit), 'case': hit[:1]}
