"""
Bounded stand-in for C15 (never counted as proved): every entry of the default function tables (FormulaGrader/NumericalGrader: DEFAULT_FUNCTIONS,
MatrixGrader: DEFAULT_FUNCTIONS + ARRAY_ONLY_FUNCTIONS, enumerated at run time) is evaluated through `evaluator('f(z)', {'z': value}, table, {})` and
by calling the table entry directly, and compared with an oracle written from the textbook definitions with cmath/math only.

Points: a real grid (-10..10 step 0.25, multiples of pi/2 and +-1e-6/1e-9 neighbours, +-1 neighbours, magnitudes 1e-12..1e150, the exp overflow
region) and a complex grid (9 x 9 lattice on [-3,3]^2, both sides of and exactly on the real/imaginary-axis branch cuts incl. signed zeros,
neighbourhoods of +-1, +-i and of the poles k*pi/2, i*k*pi/2, magnitudes 1e-12..1e150) plus seeded random reals/complex numbers (uniform and
log-uniform modulus).  Forward functions are compared with the oracle value; inverse functions are compared with the principal value on their real
domain and, everywhere else, only through f(f_inverse(z)) = z (no branch convention of the oracle is imposed).  Poles / log singularities, complex
arguments to real-only functions, wrong argument counts (0..5) and wrong shapes (vectors, matrices, tensors to scalar functions; scalars, vectors,
non-square matrices, tensors to matrix functions) must raise a StudentFacingError: never nan/inf, never a numpy warning, never a foreign exception,
never a value that is neither a Python number nor a MathArray.  Matrix functions are checked on random real/complex arrays against explicit
formulas (cofactor determinant, component cross product, ...).  Constants i, j, e, pi and a few end-to-end grader verdicts close the sweep.
factorial/fact: values excluded (scipy unavailable); their arity/shape validation is still checked.

Known deviation on the pinned tree (reported, not silenced): trans(number) returns a 0-d numpy.ndarray (np.transpose(2.5) = array(2.5)), which is
neither a number nor a MathArray, so evaluator('trans(s)*[1, 2]', {'s': 2.5}, matrix table) dies with a bare TypeError; ctrans/adj return a number.
"""
import cmath
import math
import random
import re
import warnings
from bounded._common import Tally, rtcheck, load_contracts

ASSUMPTIONS = ["bounded tier: real grid of 151 points and complex grid of 248 points per scalar function plus 40 (quick) / 1500 (thorough) random "
               "points of each of 7 kinds; matrix functions on 30 (quick) / 600 (thorough) random arrays per shape (vectors of length 2-5, matrices up "
               "to 4 x 4, 2x2x2 tensors); magnitudes limited to 1e-12 .. 1e150; argument counts 0..5; relative tolerance 1e-9 widened by the oracle's own "
               "sensitivity to a 1-ulp perturbation of the argument; factorial values excluded (no scipy)"]

EPS = 2.0 ** -52
RTOL = 1e-9
K = 16          # safety factor on the measured 1-ulp sensitivity


# ---------------------------------------------------------------------------------------------------------------------------------------------
# oracle: textbook definitions on top of cmath / math
# ---------------------------------------------------------------------------------------------------------------------------------------------
def _cot(z):
    try:
        return cmath.cos(z) / cmath.sin(z)
    except OverflowError:          # |Im z| > 710: cos and sin overflow although their quotient is +-i
        return 1 / cmath.tan(z)


def _coth(z):
    try:
        return cmath.cosh(z) / cmath.sinh(z)
    except OverflowError:
        return 1 / cmath.tanh(z)


FWD = {
    'sin': cmath.sin, 'cos': cmath.cos, 'tan': cmath.tan,
    'sec': lambda z: 1 / cmath.cos(z), 'csc': lambda z: 1 / cmath.sin(z), 'cot': _cot,
    'sinh': cmath.sinh, 'cosh': cmath.cosh, 'tanh': cmath.tanh,
    'sech': lambda z: 1 / cmath.cosh(z), 'csch': lambda z: 1 / cmath.sinh(z), 'coth': _coth,
    'exp': cmath.exp,
}
# 1/cos etc. whose denominator overflows: the true value underflows to 0
UNDERFLOWS_TO_ZERO = ('sec', 'csc', 'sech', 'csch')

LN10, LN2 = math.log(10.0), math.log(2.0)
# principal-valued functions whose convention is universal (branch cut on the negative real axis): name -> (cmath principal value, inverse map)
ROOTLOG = {
    'sqrt': (cmath.sqrt, lambda w: w * w),
    'ln': (cmath.log, cmath.exp),
    'log10': (lambda z: cmath.log(z) / LN10, lambda w: cmath.exp(w * LN10)),
    'log2': (lambda z: cmath.log(z) / LN2, lambda w: cmath.exp(w * LN2)),
}

# inverse functions: name -> (forward function, principal value on the real domain, real domain predicate, singular points)
INV = {
    'arcsin': ('sin', math.asin, lambda x: abs(x) <= 1, ()),
    'arccos': ('cos', math.acos, lambda x: abs(x) <= 1, ()),
    'arctan': ('tan', math.atan, lambda x: True, (1j, -1j)),
    'arcsec': ('sec', lambda x: math.acos(1 / x), lambda x: abs(x) >= 1, (0,)),
    'arccsc': ('csc', lambda x: math.asin(1 / x), lambda x: abs(x) >= 1, (0,)),
    # arccot(x) = arctan(1/x) (odd, range (-pi/2, pi/2], the convention of the library's own unit test arccot(cot(x)) == x on (-1, 0)); arccot(0) = pi/2
    'arccot': ('cot', lambda x: math.atan(1 / x) if x != 0 else math.pi / 2, lambda x: True, (1j, -1j)),
    'arcsinh': ('sinh', math.asinh, lambda x: True, ()),
    'arccosh': ('cosh', math.acosh, lambda x: x >= 1, ()),
    'arctanh': ('tanh', math.atanh, lambda x: abs(x) < 1, (1, -1)),
    'arcsech': ('sech', lambda x: math.acosh(1 / x), lambda x: 0 < x <= 1, (0,)),
    'arccsch': ('csch', lambda x: math.asinh(1 / x), lambda x: x != 0, (0,)),
    'arccoth': ('coth', lambda x: math.atanh(1 / x), lambda x: abs(x) > 1, (1, -1)),
}

UNARY_SCALAR = set(FWD) | set(ROOTLOG) | set(INV) | {'abs', 'floor', 'ceil'}
NO_VALUE_ORACLE = {'fact', 'factorial'}       # excluded by the property (scipy unavailable); arity / shape validation still checked
BINARY_SCALAR = {'arctan2', 'kronecker'}
MULTI_SCALAR = {'min', 'max'}
ARRAY_ELEMENTWISE = {'re', 'im', 'conj'}
MATRIX_ONLY = {'norm', 'abs', 'trans', 'ctrans', 'adj', 'det', 'trace', 'cross'}
EXPECTED_DEFAULT = UNARY_SCALAR | NO_VALUE_ORACLE | BINARY_SCALAR | MULTI_SCALAR | ARRAY_ELEMENTWISE
EXPECTED_MATRIX = EXPECTED_DEFAULT | MATRIX_ONLY


def _sensitivity(g, w, got):
    """largest change of g under a relative 1-ulp perturbation of its (complex) argument; inf if a perturbed point is not computable"""
    worst = 0.0
    for u in (1, -1, 1j, -1j):
        try:
            worst = max(worst, abs(g(w * (1 + EPS * u)) - got))
        except (ZeroDivisionError, OverflowError, ValueError):
            return float('inf')
    return worst


def _sensitivity_real(g, x, got):
    worst = 0.0
    for u in (1, -1):
        try:
            worst = max(worst, abs(g(x * (1 + EPS * u)) - got))
        except (ZeroDivisionError, OverflowError, ValueError):
            pass                     # neighbour outside the real domain (x is an end point)
    return worst


def _close(got, want, tol):
    try:
        return abs(complex(got) - complex(want)) <= tol
    except (TypeError, ValueError):
        return False


def value_check(want, tol, what):
    def check(val):
        if _close(val, want, tol):
            return None
        return 'expected %s = %r (tolerance %.3g)' % (what, want, tol)
    return check


RECIPROCAL = {'sin': 'csc', 'cos': 'sec', 'tan': 'cot', 'sinh': 'csch', 'cosh': 'sech', 'tanh': 'coth'}
RECIPROCAL.update({v: k for k, v in list(RECIPROCAL.items())})

# absolute rounding error carried by the result itself (in addition to the 1e-9 relative tolerance).  arccot z is (+-)pi/2 - arctan z by the textbook
# relation arctan z + arccot z = +-pi/2 (Abramowitz & Stegun 4.4.5), so in floating point it carries the rounding error of a quantity of size pi/2:
# for |z| > 1e7 the library's arccot loses *relative* accuracy (arccot(1e150) = 0.0 instead of 1e-150) while its absolute error stays below 2.3e-16.
# That is cancellation, not a different definition, so the oracle allows K ulps of pi/2 absolute error for arccot.
ABS_OUT = {'arccot': EPS * math.pi / 2}


def identity_check(name, fwd_name, fwd, z):
    """check(w): fwd(w) == z, evaluated in the better conditioned of the two forms fwd(w) = z, (1/fwd)(w) = 1/z.
    Tolerance: 1e-9 relative plus K times the change of fwd under a 1-ulp perturbation of w (next to a pole of fwd, e.g. tan at arctan(1e6), a
    correctly rounded w still moves fwd(w) by much more than 1e-9)."""
    zc = complex(z)
    recip = abs(zc) > 1
    if recip:
        g = FWD[RECIPROCAL[fwd_name]] if fwd_name in RECIPROCAL else (lambda v: 1 / fwd(v))
        target = 1 / zc
    else:
        g, target = fwd, zc
    shown = ('1/' if recip else '') + fwd_name
    absw = ABS_OUT.get(name, 0.0)

    def check(w):
        try:
            w = complex(w)
            got = g(w)
        except (ZeroDivisionError, OverflowError, ValueError, TypeError) as e:
            return '%s(result) is not computable (%s: %s), expected %s(result) = argument' % (shown, type(e).__name__, e, fwd_name)
        sens = _sensitivity(g, w, got)
        if absw:
            try:
                sens = max([sens] + [abs(g(w + absw * u) - got) for u in (1, -1, 1j, -1j)])
            except (ZeroDivisionError, OverflowError, ValueError):
                sens = float('inf')
        tol = RTOL * abs(target) + K * sens
        if abs(got - target) <= tol:
            return None
        return 'expected %s(result) = argument: %s(result) = %r, wanted %r (tolerance %.3g)' % (fwd_name, shown, got, target, tol)
    return check


def expect_unary(name, z):
    """-> (kind, check).  kind: 'V' a value is required; 'E' a student-facing error is required; 'VE' either (value checked if given);
    'O' overflow: student-facing error required; 'VO' value or student-facing (overflow) error."""
    real = not isinstance(z, complex)
    zc = complex(z)
    if name in FWD:
        f = FWD[name]
        try:
            want = f(zc)
        except ZeroDivisionError:
            return 'E', None                                   # pole (sin/tan/sinh/tanh vanish exactly only at 0)
        except OverflowError:
            if name in UNDERFLOWS_TO_ZERO:
                return 'VO', value_check(0.0, 1e-300, name)    # denominator overflows, quotient underflows: 0 or an overflow error
            return 'O', None                                   # the value is not representable
        tol = RTOL * abs(want) + K * _sensitivity(f, zc, want)
        return 'V', value_check(want, tol, name)
    if name in ROOTLOG:
        principal, inverse = ROOTLOG[name]
        if zc == 0:
            return ('V', value_check(0.0, 0.0, name)) if name == 'sqrt' else ('E', None)
        if not real and zc.imag == 0 and zc.real < 0:
            # complex-typed point exactly on the cut (either sign of the zero imaginary part): either side's limit is acceptable
            ident = identity_check(name, 'inverse of ' + name, inverse, zc)
            lo, hi = principal(complex(zc.real, 0.0)), principal(complex(zc.real, -0.0))

            def check(w):
                msg = ident(w)
                if msg:
                    return msg
                if min(abs(complex(w) - lo), abs(complex(w) - hi)) > 1e-9 * abs(lo):
                    return 'expected a principal value %r or %r' % (lo, hi)
                return None
            return 'V', check
        want = principal(zc)
        if real:        # a real argument stays real under rounding (a complex perturbation of a negative real would hop across the cut)
            tol = RTOL * abs(want) + K * _sensitivity_real(lambda x: principal(complex(x)), z, want)
        else:
            tol = RTOL * abs(want) + K * _sensitivity(principal, zc, want)
        return 'V', value_check(want, tol, name)
    if name in INV:
        fwd_name, real_principal, in_real_domain, singular = INV[name]
        if any(zc == s for s in singular):
            return 'E', None
        ident = identity_check(name, fwd_name, FWD[fwd_name], zc)
        if name == 'arccoth' and zc == 0:
            # arccoth z = arctanh(1/z) (Abramowitz & Stegun 4.6.6) excludes z = 0 although 1/2 ln((z+1)/(z-1)) = i pi/2 there: error or +-i pi/2
            return 'VE', lambda w: None if min(abs(complex(w) - 0.5j * math.pi), abs(complex(w) + 0.5j * math.pi)) < 1e-12 else 'expected +-i*pi/2'
        if real:
            if in_real_domain(z):
                want = real_principal(z)
                tol = RTOL * abs(want) + K * (_sensitivity_real(real_principal, z, want) + ABS_OUT.get(name, 0.0))
                pv = value_check(want, tol, name + ' (principal value)')
                return 'V', lambda w: pv(w) or ident(w)
            # real argument outside the real domain: the statement promises complex continuation only for sqrt/ln/log10/log2/exp, so either a
            # student-facing error or a genuine preimage is acceptable
            return 'VE', ident
        return 'V', ident
    if name == 'abs':
        want = abs(zc)
        return 'V', value_check(want, RTOL * want, 'abs')
    if name in ('floor', 'ceil'):
        f = math.floor if name == 'floor' else math.ceil
        if zc.imag != 0:
            return 'E', None                                   # documented: applies only to real numbers
        want = float(f(zc.real))
        return ('V' if real else 'VE'), value_check(want, 0.0, name)
    raise KeyError(name)


def expect_arctan2(x, y):
    """documented order arctan2(x, y): the angle of the point (x, y), in (-pi, pi]"""
    if complex(x).imag != 0 or complex(y).imag != 0:
        return 'E', None
    kind = 'V' if not (isinstance(x, complex) or isinstance(y, complex)) else 'VE'
    x, y = complex(x).real, complex(y).real
    if x == 0 and y == 0:
        return 'E', None
    want = math.atan2(y, x)

    def check(v):
        if not _close(v, want, RTOL * abs(want)):
            return 'expected the angle of the point (x, y) = %r' % want
        if not (-math.pi <= complex(v).real <= math.pi):    # -pi itself is reachable only by rounding (y < 0 tiny, x < 0); y = 0 gives +pi by the value check
            return 'angle outside [-pi, pi]'
        return None
    return kind, check


def expect_kronecker(a, b):
    want = 1 if a == b else 0
    return 'V', value_check(want, 0.0, 'kronecker')


def expect_minmax(name, args):
    if any(complex(a).imag != 0 for a in args):
        return 'E', None                                       # documented: applies only to real numbers
    kind = 'VE' if any(isinstance(a, complex) for a in args) else 'V'
    want = (min if name == 'min' else max)(complex(a).real for a in args)
    return kind, value_check(want, 0.0, name)


# array oracles on nested Python lists ------------------------------------------------------------------------------------------------------
def shape_of(a):
    if isinstance(a, list):
        return (len(a),) + shape_of(a[0])
    return ()


def flat(a):
    if isinstance(a, list):
        return [x for sub in a for x in flat(sub)]
    return [a]


def amap(f, a):
    return [amap(f, x) for x in a] if isinstance(a, list) else f(a)


def transpose(m):
    return [[m[i][j] for i in range(len(m))] for j in range(len(m[0]))]


def det(m):
    """cofactor expansion along the first row"""
    n = len(m)
    if n == 1:
        return m[0][0]
    if n == 2:
        return m[0][0] * m[1][1] - m[0][1] * m[1][0]
    return sum((-1) ** c * m[0][c] * det([row[:c] + row[c + 1:] for row in m[1:]]) for c in range(n))


def frobenius(a):
    return math.sqrt(sum(abs(x) ** 2 for x in flat(a)))


def cross(a, b):
    return [a[1] * b[2] - a[2] * b[1], a[2] * b[0] - a[0] * b[2], a[0] * b[1] - a[1] * b[0]]


def conj(x):
    return complex(x).conjugate()


# ---------------------------------------------------------------------------------------------------------------------------------------------
# points
# ---------------------------------------------------------------------------------------------------------------------------------------------
def real_grid():
    pts = [k * 0.25 for k in range(-40, 41)]
    for m in (1e-12, 1e-6, 1e-3, 0.1, 0.999999, 1 - 1e-9, 1 + 1e-9, 1.000001, 1.5, 7.0, 100.0, 700.0, 720.0, 1e6, 1e150):
        pts += [m, -m]
    for k in range(-4, 5):
        if k:
            c = k * math.pi / 2
            pts += [c, c + 1e-6, c - 1e-6, c + 1e-9, c - 1e-9]
    pts += [math.pi / 4, -math.pi / 4, math.e, 1 / math.e]
    seen, out = set(), []
    for p in pts:
        if p not in seen:
            seen.add(p)
            out.append(float(p))
    return out


def complex_grid():
    lat = [-3, -1.5, -1, -0.5, 0, 0.5, 1, 1.5, 3]
    pts = [complex(a, b) for a in lat for b in lat]
    for x in (0.25, 0.5, 1.0, 1.5, 2.0, 5.0):
        for s in (x, -x):
            # both sides of, and exactly on (both signed zeros), the real-axis and imaginary-axis cuts
            pts += [complex(s, 1e-9), complex(s, -1e-9), complex(s, -0.0), complex(1e-9, s), complex(-1e-9, s), complex(-0.0, s)]
    for c in (1, -1, 1j, -1j):
        for d in (1e-6, -1e-6, 1e-6j, -1e-6j):
            pts.append(c + d)                                  # neighbourhoods of the branch points / log singularities
        pts += [c * (1 + 1e-9), c * (1 - 1e-9)]
    for k in (-2, -1, 1, 2):
        c = k * math.pi / 2
        pts += [complex(c, 1e-6), complex(c, -1e-6), complex(c + 1e-6, 0.0), complex(c, 0.0),       # poles of tan/sec/csc/cot
                complex(1e-6, c), complex(-1e-6, c), complex(0.0, c + 1e-6), complex(0.0, c)]       # poles of tanh/sech/csch/coth
    for m in (1e-12, 1e-6, 1e6, 1e150):
        for u in (1, -1, 1j, -1j, complex(1, 1), complex(-1, 2), complex(-2, -1), complex(3, -1)):
            pts.append(m * u)
    pts += [complex(0.5, 700), complex(0.5, 720), complex(0.5, -720), complex(720, 0.5), complex(-720, 0.5), complex(0, 720), complex(720, 0)]
    seen, out = set(), []
    for p in pts:
        k = repr(p)
        if k not in seen:
            seen.add(k)
            out.append(complex(p))
    return out


def random_points(rnd, n):
    pts = []
    for _ in range(n):
        pts.append(rnd.uniform(-10, 10))
        pts.append(rnd.uniform(-1, 1))
        pts.append(rnd.choice((-1, 1)) * 10 ** rnd.uniform(-12, 12))
        pts.append(complex(rnd.uniform(-4, 4), rnd.uniform(-4, 4)))
        pts.append(cmath.rect(10 ** rnd.uniform(-12, 12), rnd.uniform(-math.pi, math.pi)))
        pts.append(complex(rnd.uniform(-4, 4), rnd.choice((-1, 1)) * 10 ** rnd.uniform(-14, -3)))    # next to the real axis (cuts, poles)
        pts.append(complex(rnd.choice((-1, 1)) * 10 ** rnd.uniform(-14, -3), rnd.uniform(-4, 4)))    # next to the imaginary axis
    return pts


def rand_entry(rnd, kind):
    if kind == 'int':
        return rnd.randint(-5, 5)
    if kind == 'real':
        return rnd.uniform(-5, 5)
    return complex(rnd.uniform(-5, 5), rnd.uniform(-5, 5))


def rand_array(rnd, shape, kind):
    if not shape:
        return rand_entry(rnd, kind)
    return [rand_array(rnd, shape[1:], kind) for _ in range(shape[0])]


# ---------------------------------------------------------------------------------------------------------------------------------------------
def run(tier, seed):
    load_contracts()
    rnd = random.Random(seed)
    t = Tally('C15')
    tag = '%s:%d|' % (tier, seed)
    MF = rtcheck.real_module('mitxgraders/helpers/calc/mathfuncs.py')
    EX = rtcheck.real_module('mitxgraders/helpers/calc/expressions.py')
    MA = rtcheck.real_module('mitxgraders/helpers/calc/math_array.py')
    GNA = rtcheck.real_module('mitxgraders/helpers/get_number_of_args.py')
    exc = rtcheck.real_module('mitxgraders/exceptions.py')
    fgm = rtcheck.real_module('mitxgraders/formulagrader/formulagrader.py')
    mgm = rtcheck.real_module('mitxgraders/formulagrader/matrixgrader.py')
    SFE = exc.StudentFacingError
    MathArray = MA.MathArray
    n_rand = 40 if tier == 'quick' else 1500
    n_arr = 30 if tier == 'quick' else 600

    T_default = fgm.FormulaGrader.default_functions
    T_matrix = mgm.MatrixGrader.default_functions
    tables = (('default', T_default), ('matrix', T_matrix))

    recorded = []

    def outcome(fn):
        del recorded[:]
        try:
            out = ('val', fn())
        except SFE as e:
            out = ('sfe', e)
        except Exception as e:                                  # noqa: a foreign exception is a finding, reported by judge
            out = ('exc', e)
        warns = [str(w.message) for w in recorded if issubclass(w.category, RuntimeWarning)]
        return out, warns

    def well_formed(val):
        """the evaluator's values are Python numbers or MathArrays; nothing else, and never nan/inf"""
        if isinstance(val, MathArray):
            items = flat(val.tolist())
        elif isinstance(val, (int, float, complex)) and not isinstance(val, bool):
            items = [val]
        else:
            return 'returned a %s (%r), which is neither a number nor a MathArray' % (type(val).__name__, val)
        for x in items:
            x = complex(x)
            if x != x or abs(x) == float('inf') or math.isnan(x.real) or math.isnan(x.imag):
                return 'returned a non-finite value %r' % (val,)
        return None

    def judge(contract, key, desc, res, kind, check, direct=False):
        """res = (outcome, warnings); see expect_unary for kind"""
        (status, payload), warns = res
        key = tag + key
        if warns:
            return t.fail(contract, key, '%s emitted numpy warning(s) %r' % (desc, warns))
        if status == 'exc':
            if direct and kind != 'V':
                return t.ok(contract, key)      # outside the domain a bare call may raise anything; eval_function does the recasting
            return t.fail(contract, key, '%s raised %s: %s, which is not student-facing%s' % (
                desc, type(payload).__name__, payload, '' if kind != 'V' else '; a value was expected'))
        if status == 'sfe':
            if kind == 'V':
                return t.fail(contract, key, '%s raised %s (%s) although the argument is in the domain' % (desc, type(payload).__name__, str(payload)[:120]))
            return t.ok(contract, key, sample={'call': desc, 'raised': type(payload).__name__})
        if kind in ('E', 'O'):
            return t.fail(contract, key, '%s returned %r; a student-facing error was expected (%s)' % (
                desc, payload, 'outside the domain / wrong count or shape' if kind == 'E' else 'value not representable'))
        msg = (None if direct else well_formed(payload)) or check(payload)
        if msg:
            return t.fail(contract, key, '%s returned %r: %s' % (desc, payload, msg))
        return t.ok(contract, key, sample={'call': desc, 'value': repr(payload)})

    def through_evaluator(formula, variables, table):
        return outcome(lambda: EX.evaluator(formula, variables, table, {})[0])

    def arr(a):
        return MathArray(a) if isinstance(a, list) else a

    def array_check(want, tol, what):
        def check(val):
            if isinstance(want, list):
                if not isinstance(val, MathArray):
                    return 'expected a MathArray of shape %r for %s' % (shape_of(want), what)
                if tuple(val.shape) != shape_of(want):
                    return 'expected shape %r for %s, got %r' % (shape_of(want), what, tuple(val.shape))
                got = flat(val.tolist())
            else:
                if isinstance(val, MathArray):
                    return 'expected a number for %s, got an array of shape %r' % (what, tuple(val.shape))
                got = [val]
            for g, w in zip(got, flat(want)):
                if not _close(g, w, tol):
                    return 'expected %s = %r (tolerance %.3g)' % (what, want, tol)
            return None
        return check

    with warnings.catch_warnings(record=True) as rec:
        warnings.simplefilter('always')
        recorded = rec

        # ---- the tables themselves ------------------------------------------------------------------------------------------------------------
        for label, table, expected in (('default', T_default, EXPECTED_DEFAULT), ('matrix', T_matrix, EXPECTED_MATRIX)):
            for name in sorted(table):
                if name in expected:
                    t.ok('function table', tag + '%s:%s' % (label, name))
                else:
                    t.fail('function table', tag + '%s:%s' % (label, name), 'no oracle for table entry %s (%s table)' % (name, label))
            for name in sorted(expected - set(table)):
                t.fail('function table', tag + '%s:missing:%s' % (label, name), 'documented function %s is missing from the %s table' % (name, label))
        for label, cls in (('FormulaGrader', fgm.FormulaGrader), ('NumericalGrader', fgm.NumericalGrader), ('MatrixGrader', mgm.MatrixGrader)):
            src = MF.merge_dicts(MF.DEFAULT_FUNCTIONS, MF.ARRAY_ONLY_FUNCTIONS) if label == 'MatrixGrader' else MF.DEFAULT_FUNCTIONS
            same = set(cls.default_functions) == set(src) and all(cls.default_functions[k] is src[k] for k in src)
            (t.ok if same else t.fail)('function table', tag + 'assembly:' + label, *([] if same else ['%s.default_functions is not assembled from the mathfuncs tables' % label]))
            # a configured grader offers exactly the table to the student
            g = cls(answers='1')
            same = set(g.functions) == set(cls.default_functions) and all(g.functions[k] is cls.default_functions[k] for k in g.functions)
            (t.ok if same else t.fail)('function table', tag + 'instance:' + label, *([] if same else ['%s(answers="1").functions differs from the default table' % label]))

        # ---- constants ----------------------------------------------------------------------------------------------------------------------------
        std = {'i': 1j, 'j': 1j, 'e': math.e, 'pi': math.pi}
        for label, consts in (('DEFAULT_VARIABLES', MF.DEFAULT_VARIABLES), ('FormulaGrader', fgm.FormulaGrader.default_variables),
                              ('NumericalGrader', fgm.NumericalGrader.default_variables), ('MatrixGrader', mgm.MatrixGrader.default_variables),
                              ('FormulaGrader instance', fgm.FormulaGrader(answers='1').constants)):
            if set(consts) != set(std):
                t.fail('constants', tag + label, '%s has names %r, expected i, j, e, pi' % (label, sorted(consts)))
            for name, want in std.items():
                got = consts.get(name)
                if got == want and isinstance(got, type(want)):
                    t.ok('constants', tag + '%s:%s' % (label, name), sample={'constant': name, 'value': repr(got)})
                else:
                    t.fail('constants', tag + '%s:%s' % (label, name), 'constant %s of %s is %r, expected %r' % (name, label, got, want))
        for formula, want in (('i^2', -1), ('j*j', -1), ('i-j', 0), ('e^(i*pi)+1', 0), ('ln(e)', 1), ('exp(1)-e', 0), ('cos(pi)', -1), ('sin(pi/6)', 0.5),
                              ('arctan(1)*4-pi', 0), ('arccos(-1)-pi', 0), ('log10(1000)', 3), ('log2(1/8)', -3), ('sqrt(-1)-i', 0), ('e', math.e), ('pi', math.pi)):
            judge('constants', 'formula:' + formula, 'evaluator(%r)' % formula, through_evaluator(formula, MF.DEFAULT_VARIABLES, T_default), 'V',
                  value_check(want, 1e-14, formula))

        # ---- unary scalar functions -----------------------------------------------------------------------------------------------------------------
        grid = real_grid() + complex_grid()
        points = grid + random_points(rnd, n_rand)
        light = real_grid()[::7] + complex_grid()[::7]
        for label, table in tables:
            for name in sorted(set(table) & UNARY_SCALAR):
                entry = table[name]
                if label == 'matrix' and name != 'abs' and entry is T_default.get(name):
                    pts = light                                 # the very same object as in the default table: a thinned grid suffices
                else:
                    pts = points
                formula = '%s(z)' % name
                for z in pts:
                    if label == 'matrix' and name == 'abs' and abs(z) > 1e150:
                        continue                                # the matrix abs squares its argument
                    kind, check = expect_unary(name, z)
                    key = '%s|%s|%r' % (label, name, z)
                    judge('%s (value)' % name, key, '%s with z = %r (%s table)' % (formula, z, label), through_evaluator(formula, {'z': z}, table), kind, check)
                    judge('%s (direct call)' % name, key, '%s table entry %s(%r)' % (label, name, z), outcome(lambda: entry(z)), kind, check, direct=True)

        # ---- arctan2, kronecker, min, max ---------------------------------------------------------------------------------------------------------------
        lat = [-2.0, -1.0, -0.5, 0.0, 0.5, 1.0, 2.0, 1e-12, -1e-12, 1e6, -1e6, 1e150]
        pairs = [(x, y) for x in lat for y in lat]
        pairs += [(rnd.uniform(-5, 5), rnd.uniform(-5, 5)) for _ in range(n_rand * 5)]
        pairs += [(1j, 1.0), (1.0, 1j), (1 + 1j, 2 - 1j), (0j, 1.0), (complex(1, 0), complex(-1, 0)), (-1.0, 0.0), (0.0, -1.0), (0.0, 1.0)]
        for label, table in tables:
            entry = table.get('arctan2')
            if entry is None:
                continue
            for x, y in (pairs if label == 'default' else pairs[::5]):
                kind, check = expect_arctan2(x, y)
                key = '%s|arctan2|%r,%r' % (label, x, y)
                judge('arctan2 (value)', key, 'arctan2(a, b) with a = %r, b = %r (%s table)' % (x, y, label), through_evaluator('arctan2(a, b)', {'a': x, 'b': y}, table), kind, check)
                judge('arctan2 (direct call)', key, 'table entry arctan2(%r, %r)' % (x, y), outcome(lambda: entry(x, y)), kind, check, direct=True)
        kpairs = [(a, b) for a in range(-3, 4) for b in range(-3, 4)]
        kpairs += [(1.0, 1.25), (1.0, 1.4999), (2.0, 1.5), (0.0, 0.49), (0.0, -0.3), (1.0, 1 + 1e-9), (3.0, 3.0), (1e6, 1e6), (1e6, 1e6 + 1), (2.5, 2.5), (-0.75, -0.75),
                   (1 + 1j, 1 + 1j), (1 + 1j, 1 - 1j), (1j, 1.0), (complex(2, 0), 2.0), (0.1 + 0.2, 0.3)]
        kpairs += [(float(rnd.randint(-4, 4)), rnd.randint(-4, 4) + rnd.choice((0, 0, 0.25, -0.4, 0.5))) for _ in range(n_rand * 3)]
        for label, table in tables:
            entry = table.get('kronecker')
            if entry is None:
                continue
            for a, b in (kpairs if label == 'default' else kpairs[::4]):
                kind, check = expect_kronecker(a, b)
                key = '%s|kronecker|%r,%r' % (label, a, b)
                judge('kronecker (value)', key, 'kronecker(a, b) with a = %r, b = %r (%s table)' % (a, b, label), through_evaluator('kronecker(a, b)', {'a': a, 'b': b}, table), kind, check)
                judge('kronecker (direct call)', key, 'table entry kronecker(%r, %r)' % (a, b), outcome(lambda: entry(a, b)), kind, check, direct=True)
        names = ['a', 'b', 'c', 'd', 'f', 'g']
        arglists = [[1.0, 2.0], [2.0, 1.0], [-1.5, -1.5], [3.0, -2.0, 7.5], [0.0, -0.5, 0.5, -1e-12], [1e150, -1e150], [5.0, 4.0, 3.0, 2.0, 1.0, 0.5], [1.0, 2], [1e-12, 1e-6],
                    [1j, 1.0], [1.0, 2 + 1j, 0.5], [complex(1, 0), 2.0]]
        arglists += [[rnd.uniform(-9, 9) for _ in range(rnd.randint(2, 6))] for _ in range(n_rand * 3)]
        for label, table in tables:
            for name in ('min', 'max'):
                entry = table.get(name)
                if entry is None:
                    continue
                for k, args in enumerate(arglists if label == 'default' else arglists[::4]):
                    kind, check = expect_minmax(name, args)
                    formula = '%s(%s)' % (name, ', '.join(names[:len(args)]))
                    key = '%s|%s|%r' % (label, name, args)
                    judge('%s (value)' % name, key, '%s with %r (%s table)' % (formula, args, label), through_evaluator(formula, dict(zip(names, args)), table), kind, check)
                    judge('%s (direct call)' % name, key, 'table entry %s(*%r)' % (name, args), outcome(lambda: entry(*args)), kind, check, direct=True)
        # literal arguments, as a student types them
        for formula, want in (('min(3, 1.5, 2)', 1.5), ('max(3, 1.5, 2)', 3), ('arctan2(0, 1)', math.pi / 2), ('arctan2(-1, 0)', math.pi), ('arctan2(1, -1)', -math.pi / 4),
                              ('arctan2(-1, -1)', -3 * math.pi / 4), ('kronecker(2, 2) + kronecker(2, 3)', 1), ('arccot(-1)', -math.pi / 4), ('arcsec(2)', math.pi / 3),
                              ('arccsc(2)', math.pi / 6), ('arcsech(0.5)', math.acosh(2)), ('arccsch(-2)', -math.asinh(0.5)), ('arccoth(3)', math.atanh(1 / 3.0)),
                              ('sec(pi/3)', 2), ('csc(pi/6)', 2), ('cot(pi/4)', 1), ('sech(0)', 1), ('floor(-2.5)', -3), ('ceil(-2.5)', -2), ('abs(3+4*i)', 5),
                              ('re(2+3*i)*10 + im(2+3*i)', 23), ('conj(2+3*i) - (2-3*i)', 0), ('sqrt(-4) - 2*i', 0), ('ln(-1) - i*pi', 0), ('exp(i*pi/2) - i', 0)):
            for label, table in tables:
                judge('literal formulas', '%s|%s' % (label, formula), 'evaluator(%r) (%s table)' % (formula, label), through_evaluator(formula, MF.DEFAULT_VARIABLES, table), 'V',
                      value_check(want, 1e-12, formula))

        # ---- re, im, conj on numbers and arrays ---------------------------------------------------------------------------------------------------------------
        elementwise = {'re': lambda x: complex(x).real, 'im': lambda x: complex(x).imag, 'conj': conj}
        shapes = [(), (2,), (3,), (5,), (2, 2), (2, 3), (3, 3), (2, 2, 2)]
        samples = [(sh, kind, rand_array(rnd, sh, kind)) for sh in shapes for kind in ('int', 'real', 'complex') for _ in range(max(2, n_arr // 6))]
        samples += [((), 'grid', z) for z in light]
        for label, table in tables:
            for name in sorted(set(table) & ARRAY_ELEMENTWISE):
                entry = table[name]
                for k, (sh, akind, a) in enumerate(samples if label == 'default' else samples[::3]):
                    want = amap(elementwise[name], a)
                    check = array_check(want, 0.0, name)
                    key = '%s|%s|%d|%r' % (label, name, k, a)
                    judge('%s (value)' % name, key, '%s(z) with z = %r (%s table)' % (name, a, label), through_evaluator('%s(z)' % name, {'z': arr(a)}, table), 'V', check)
                    judge('%s (direct call)' % name, key, 'table entry %s(%r)' % (name, a), outcome(lambda: entry(arr(a))), 'V', check, direct=True)

        # ---- matrix functions ---------------------------------------------------------------------------------------------------------------------------------------
        def sweep(name, cases):
            entry = T_matrix.get(name)
            if entry is None:
                return
            for k, (args, kind, check) in enumerate(cases):
                formula = '%s(%s)' % (name, ', '.join(names[:len(args)]))
                key = 'matrix|%s|%d|%r' % (name, k, args)
                judge('%s (matrix value)' % name if kind == 'V' else '%s (matrix domain)' % name, key, '%s with %r (matrix table)' % (formula, args),
                      through_evaluator(formula, dict(zip(names, [arr(a) for a in args])), T_matrix), kind, check)
                judge('%s (matrix direct call)' % name, key, 'table entry %s(*%r)' % (name, args), outcome(lambda: entry(*[arr(a) for a in args])), kind, check,
                      direct=not getattr(entry, 'validated', False) or kind == 'V')

        def arrays(shape_list, n=None):
            return [rand_array(rnd, sh, kind) for sh in shape_list for kind in ('int', 'real', 'complex') for _ in range(n or max(2, n_arr // 3))]

        vectors, squares, rects, tensors = [(2,), (3,), (4,), (5,)], [(1, 1), (2, 2), (3, 3), (4, 4)], [(2, 3), (3, 2), (1, 3), (3, 1), (4, 2)], [(2, 2, 2), (2, 3, 2)]
        scalars = [2.5, -3.0, 0.0, 1 + 2j, -0.5j, 7]
        big = [[1e100, -2e100], [[1e100, 1e-100], [3e99, -1e100]], [1e-100, 1e-100j]]
        sing = [[[1.0, 2.0], [2.0, 4.0]], [[0, 0], [0, 0]], [[1, 2, 3], [4, 5, 6], [7, 8, 9]], [[2.0, 0, 0], [0, 3.0, 0], [0, 0, -1.5]], [[1j, 0], [0, 1j]],
                [[0.0, 1.0], [1.0, 0.0]], [[1, 0, 0, 0], [0, 1, 0, 0], [0, 0, 1, 0], [0, 0, 0, 1]]]

        def scale(a):
            return max([abs(x) for x in flat(a)] + [0.0])

        # norm: Frobenius norm of numbers, vectors and matrices (documented); tensors: error or the root of the sum of squares
        sweep('norm', [((a,), 'V', array_check(frobenius(a), RTOL * frobenius(a), 'Frobenius norm')) for a in scalars + arrays(vectors + squares + rects) + big + sing] +
              [((a,), 'VE', array_check(frobenius(a), RTOL * frobenius(a), 'root of the sum of squares')) for a in arrays(tensors, 2)])
        # abs: modulus of a number, length of a vector; documented to refuse matrices and tensors
        sweep('abs', [((a,), 'V', array_check(frobenius(a), RTOL * frobenius(a), 'modulus / vector length')) for a in scalars + arrays(vectors) + big[:1] + big[2:]] +
              [((a,), 'E', None) for a in arrays(squares[1:] + rects + tensors, 2) + sing[:2]])
        # trans / ctrans / adj: matrices of any shape; a vector has no row/column orientation here (docs: vectors are distinct from single-row/column
        # matrices), a number is its own transpose: for these two either the unchanged (conjugated) argument or a student-facing error
        for name, f in (('trans', lambda x: x), ('ctrans', conj), ('adj', conj)):
            sweep(name, [((a,), 'V', array_check(amap(f, transpose(a)), 0.0, name)) for a in arrays(squares + rects) + sing] +
                  [((a,), 'VE', array_check(amap(f, a), 0.0, name + ' of a vector')) for a in arrays(vectors, 2)] +
                  [((a,), 'VE', array_check(f(a) if isinstance(a, complex) else a, 0.0, name + ' of a number')) for a in scalars])
        # det: cofactor expansion; the error of an LU determinant scales with the product of the row norms (Hadamard bound), not with |det|
        def det_tol(m):
            return 1e-9 * math.exp(sum(math.log(frobenius(r) or 1.0) for r in m)) if scale(m) else 0.0
        sq = arrays(squares) + sing + [[[1e100, 2.0], [3.0, 1e-100]], [[1e-12, 0], [0, 1e-12]]]
        bad_square = scalars[:4] + arrays(vectors[:2] + rects + tensors[:1], 2)
        sweep('det', [((m,), 'V', array_check(det(m), det_tol(m), 'determinant')) for m in sq] + [((a,), 'E', None) for a in bad_square])
        sweep('trace', [((m,), 'V', array_check(sum(m[k][k] for k in range(len(m))), 1e-12 * scale(m) * len(m), 'trace')) for m in sq] + [((a,), 'E', None) for a in bad_square])
        # cross: components; no conjugation for complex entries
        v3 = arrays([(3,)], max(4, n_arr)) + [[1, 0, 0], [0, 1, 0], [0, 0, 1], [1e100, 1.0, -1e100], [1e-12, 0.0, 2e-12]]
        cases = []
        for k in range(len(v3)):
            a, b = v3[k], v3[(k * 7 + 3) % len(v3)]
            tol = 1e-12 * scale(a) * scale(b) * 4
            cases.append(((a, b), 'V', array_check(cross(a, b), tol, 'a x b')))
            cases.append(((b, a), 'V', array_check([-x for x in cross(a, b)], tol, 'b x a = -(a x b)')))
        good = [1.0, 2.0, 3.0]
        for bad in ([1.0, 2.0], [1.0, 2.0, 3.0, 4.0], 2.5, [[1.0, 2.0, 3.0]], [[1.0], [2.0], [3.0]], [[1.0, 0, 0], [0, 1.0, 0], [0, 0, 1.0]], [[[1.0, 2.0], [3.0, 4.0]], [[1.0, 2.0], [3.0, 4.0]]]):
            cases += [((good, bad), 'E', None), ((bad, good), 'E', None), ((bad, bad), 'E', None)]
        sweep('cross', cases)

        # ---- wrong shapes to scalar functions ------------------------------------------------------------------------------------------------------------------
        wrong = [[1.0, 2.0], [0.5, 0.25, 0.125], [1 + 1j, 2.0], [[1.0, 2.0], [3.0, 4.0]], [[0.5, 0.25, 0.1]], [[[1.0, 2.0], [3.0, 4.0]], [[1.0, 2.0], [3.0, 4.0]]]]
        # (one-element arrays are deliberately "number-like" in specify_domain.number_validator / is_numberlike_array and are not wrong shapes)
        for label, table in tables:
            for name in sorted(table):
                if name in MATRIX_ONLY and label == 'matrix' or name in ARRAY_ELEMENTWISE:
                    continue
                entry = table[name]
                if name in BINARY_SCALAR:
                    layouts = [(0,), (1,), (0, 1)]
                    nargs = 2
                elif name in MULTI_SCALAR:
                    layouts = [(0,), (2,), (0, 1, 2)]
                    nargs = 3
                else:
                    layouts = [(0,)]
                    nargs = 1
                for wk, w in enumerate(wrong):
                    for lay in layouts:
                        args = [arr(w) if p in lay else 0.5 for p in range(nargs)]
                        formula = '%s(%s)' % (name, ', '.join(names[:nargs]))
                        key = '%s|shape|%s|%d|%r' % (label, name, wk, lay)
                        desc = '%s with argument(s) %r replaced by the array %r (%s table)' % (formula, lay, w, label)
                        judge('%s (wrong shape)' % name, key, desc, through_evaluator(formula, dict(zip(names, args)), table), 'E', None)
                        judge('%s (wrong shape, direct call)' % name, key, 'table entry: ' + desc, outcome(lambda: entry(*args)), 'E', None)

        # ---- wrong argument counts -------------------------------------------------------------------------------------------------------------------------------
        def arity_ok(name, label, n):
            if name in MATRIX_ONLY and label == 'matrix':
                return n == (2 if name == 'cross' else 1)
            if name in BINARY_SCALAR:
                return n == 2
            if name in MULTI_SCALAR:
                return n >= 2
            return n == 1

        for label, table in tables:
            for name in sorted(table):
                entry = table[name]
                matrix_fn = name in MATRIX_ONLY and label == 'matrix'
                proto = [1.0, 2.0, 3.0] if name == 'cross' else ([[1.0, 2.0], [3.0, 4.0]] if matrix_fn else 0.5)
                # besides n copies of a well-shaped argument, fill the surplus positions with values that numpy would silently accept as the
                # optional parameters of the underlying routine (norm's ord, transpose's axes, a ufunc's out) if the count were not checked
                fillers = [proto, 1.0, 2.0, [1.0, 0.0], [[0.0, 0.0], [0.0, 0.0]]] if matrix_fn or name in ARRAY_ELEMENTWISE else [proto]
                for n in range(0, 6):
                    if arity_ok(name, label, n):
                        continue
                    formula = '%s(%s)' % (name, ', '.join(names[:n]))
                    for fk, filler in enumerate(fillers if n >= 2 else fillers[:1]):
                        args = ([arr(proto)] + [arr(filler)] * (n - 1)) if n else []
                        key = '%s|arity|%s|%d|%d' % (label, name, n, fk)
                        judge('%s (wrong count)' % name, key, '%s: %d argument(s), first %r, others %r (%s table)' % (formula, n, proto, filler, label),
                              through_evaluator(formula, dict(zip(names, args)), table), 'E', None)
                        if getattr(entry, 'validated', False):
                            judge('%s (wrong count, direct call)' % name, key, 'table entry %s called with %d argument(s)' % (name, n), outcome(lambda: entry(*args)), 'E', None)
                if not getattr(entry, 'validated', False):
                    # entries without their own validation rely on eval_function counting the positional parameters
                    got = outcome(lambda: GNA.get_number_of_args(entry))[0]
                    want = 2 if name == 'cross' else 1
                    if got == ('val', want):
                        t.ok('%s (wrong count)' % name, tag + '%s|nargs|%s' % (label, name))
                    else:
                        t.fail('%s (wrong count)' % name, tag + '%s|nargs|%s' % (label, name), 'get_number_of_args(%s table entry %s) gave %r, expected %d' % (label, name, got, want))

        # ---- grader verdicts ---------------------------------------------------------------------------------------------------------------------------------------------
        def verdict(g, s):
            def call():
                r = g(None, s)
                return r['ok']
            (status, payload), warns = outcome(call)
            if warns:
                return 'warning %r' % warns
            return payload if status == 'val' else ('StudentFacingError' if status == 'sfe' else 'foreign %s: %s' % (type(payload).__name__, payload))

        def expect_verdict(label, make, answer, student, want):
            got = verdict(make(answer), student)
            key = tag + 'grader|%s|%s|%s' % (label, answer, student)
            if got == want:
                t.ok('grader verdicts', key, sample={'grader': label, 'answer': answer, 'student': student, 'verdict': got})
            else:
                t.fail('grader verdicts', key, '%s(answers=%r) on %r gave %r, expected %r' % (label, answer, student, got, want))

        fg = lambda a: fgm.FormulaGrader(answers=a, variables=['x', 'y'], sample_from={'x': [0.2, 1.3], 'y': [0.3, 1.2]}, samples=6)
        fgc = lambda a: fgm.FormulaGrader(answers=a, variables=['z'], sample_from={'z': rtcheck.real_module('mitxgraders/sampling.py').ComplexRectangle(re=[-2, 2], im=[-2, 2])}, samples=6)
        fgs = lambda a: fgm.FormulaGrader(answers=a, variables=['x', 'y'], sample_from={'x': [-2, 2], 'y': [-2, 2]}, samples=12)
        ng = lambda a: fgm.NumericalGrader(answers=a)
        mg = lambda a: mgm.MatrixGrader(answers=a, max_array_dim=2)
        for make, label, answer, student, want in (
                (fg, 'FormulaGrader', '1/cos(x)', 'sec(x)', True), (fg, 'FormulaGrader', '1/cos(x)', 'csc(x)', False), (fg, 'FormulaGrader', '1/sin(x)', 'csc(x)', True),
                (fg, 'FormulaGrader', 'cos(x)/sin(x)', 'cot(x)', True), (fg, 'FormulaGrader', '2/(e^x+e^(-x))', 'sech(x)', True), (fg, 'FormulaGrader', '2/(e^x-e^(-x))', 'csch(x)', True),
                (fg, 'FormulaGrader', '(e^x+e^(-x))/(e^x-e^(-x))', 'coth(x)', True), (fg, 'FormulaGrader', '(e^x+e^(-x))/(e^x-e^(-x))', 'tanh(x)', False),
                (fg, 'FormulaGrader', 'x', 'arccot(cot(x))', True), (fg, 'FormulaGrader', 'x', 'arcsec(sec(x))', True), (fg, 'FormulaGrader', 'x', 'arccsc(csc(x))', True),
                (fg, 'FormulaGrader', 'x', 'arcsech(sech(x))', True), (fg, 'FormulaGrader', 'x', 'arccsch(csch(x))', True), (fg, 'FormulaGrader', 'x', 'arccoth(coth(x))', True),
                (fg, 'FormulaGrader', 'ln(x)/ln(10)', 'log10(x)', True), (fg, 'FormulaGrader', 'ln(x)/ln(2)', 'log2(x)', True), (fg, 'FormulaGrader', 'ln(x)/ln(2)', 'log10(x)', False),
                (fg, 'FormulaGrader', 'x', 'min(x, x+1, x+y)', True), (fg, 'FormulaGrader', 'x+1', 'max(x, x+1, x-y)', True),
                (fgs, 'FormulaGrader', 'arctan2(x, y)', 'arctan2(x, y)', True), (fgs, 'FormulaGrader', 'arctan2(x, y)', 'arctan2(y, x)', False),
                (fgs, 'FormulaGrader', 'y/sqrt(x^2+y^2)', 'sin(arctan2(x, y))', True), (fgs, 'FormulaGrader', 'x/sqrt(x^2+y^2)', 'cos(arctan2(x, y))', True),
                (fgs, 'FormulaGrader', 'sqrt(x^2)', 'abs(x)', True), (fgs, 'FormulaGrader', 'x', 'abs(x)', False),
                (fgc, 'FormulaGrader', 're(z) - i*im(z)', 'conj(z)', True), (fgc, 'FormulaGrader', 'sqrt(re(z)^2+im(z)^2)', 'abs(z)', True), (fgc, 'FormulaGrader', 'z', 'exp(ln(z))', True),
                (fgc, 'FormulaGrader', 'z', 'sqrt(z)^2', True), (fgc, 'FormulaGrader', 'z', 'sin(arcsin(z))', True), (fgc, 'FormulaGrader', 'z', 'sech(arcsech(z))', True),
                (fgc, 'FormulaGrader', 'z', 'cot(arccot(z))', True), (fgc, 'FormulaGrader', 'z', 'coth(arccoth(z))', True), (fgc, 'FormulaGrader', 'z', 'conj(z)', False),
                (fg, 'FormulaGrader', 'x', 'x + ln(0)', 'StudentFacingError'), (fg, 'FormulaGrader', 'x', 'x + csc(0)', 'StudentFacingError'), (fg, 'FormulaGrader', 'x', 'x*sin(x, y)', 'StudentFacingError'),
                (fg, 'FormulaGrader', 'x', 'x + arctan2(0, 0)', 'StudentFacingError'), (fg, 'FormulaGrader', 'x', 'min(x)', 'StudentFacingError'),
                (ng, 'NumericalGrader', 'pi/3', 'arcsec(2)', True), (ng, 'NumericalGrader', '-pi/4', 'arccot(-1)', True), (ng, 'NumericalGrader', '3*pi/4', 'arccot(-1)', False),
                (ng, 'NumericalGrader', '3*pi/4', 'arctan2(-1, 1)', True), (ng, 'NumericalGrader', '3*pi/4', 'arctan2(1, -1)', False), (ng, 'NumericalGrader', '1', 'kronecker(2, 2) + kronecker(1, 1.25)', True),
                (ng, 'NumericalGrader', '2*i', 'sqrt(-4)', True), (ng, 'NumericalGrader', 'i*pi', 'ln(-1)', True), (ng, 'NumericalGrader', '-3', 'floor(-2.5)', True), (ng, 'NumericalGrader', '-2', 'ceil(-2.5)', True),
                (ng, 'NumericalGrader', '2.718281828459045', 'e', True), (ng, 'NumericalGrader', '3.141592653589793', 'pi', True), (ng, 'NumericalGrader', '-1', 'i*j', True),
                (ng, 'NumericalGrader', '1', 'tan(pi/2)*0 + 1', True), (ng, 'NumericalGrader', '1', 'cot(0)', 'StudentFacingError'), (ng, 'NumericalGrader', '1', 'arctanh(1)', 'StudentFacingError'),
                (mg, 'MatrixGrader', '[-3, 6, -3]', 'cross([1, 2, 3], [4, 5, 6])', True), (mg, 'MatrixGrader', '[-3, 6, -3]', 'cross([4, 5, 6], [1, 2, 3])', False),
                (mg, 'MatrixGrader', '-2', 'det([[1, 2], [3, 4]])', True), (mg, 'MatrixGrader', '5', 'trace([[1, 2], [3, 4]])', True), (mg, 'MatrixGrader', '[[1, 3], [2, 4]]', 'trans([[1, 2], [3, 4]])', True),
                (mg, 'MatrixGrader', '[[1, 3], [-2*i, 4]]', 'ctrans([[1, 2*i], [3, 4]])', True), (mg, 'MatrixGrader', '[[1, 3], [-2*i, 4]]', 'adj([[1, 2*i], [3, 4]])', True),
                (mg, 'MatrixGrader', '[[1, 3], [-2*i, 4]]', 'trans([[1, 2*i], [3, 4]])', False), (mg, 'MatrixGrader', 'sqrt(30)', 'norm([[1, 2], [3, 4]])', True),
                (mg, 'MatrixGrader', '5', 'abs([3, 4*i])', True), (mg, 'MatrixGrader', '5', 'abs(3 - 4*i)', True), (mg, 'MatrixGrader', '5', 'abs([[3, 0], [0, 4]])', 'StudentFacingError'),
                (mg, 'MatrixGrader', '5', 'det([1, 2])', 'StudentFacingError'), (mg, 'MatrixGrader', '5', 'cross([1, 2], [3, 4])', 'StudentFacingError'), (mg, 'MatrixGrader', '5', 'sin([1, 2])', 'StudentFacingError'),
                (mg, 'MatrixGrader', '[1, 2]', 're([1 + i, 2 - i])', True), (mg, 'MatrixGrader', '[1, -1]', 'im([1 + i, 2 - i])', True), (mg, 'MatrixGrader', '[1 - i, 2 + i]', 'conj([1 + i, 2 - i])', True),
                # a number is its own transpose: using trans/ctrans of a number in a product must work or be refused with a student-facing error
                (mg, 'MatrixGrader', '[2.5, 5]', 'ctrans(2.5)*[1, 2]', True)):
            expect_verdict(label, make, answer, student, want)
        got = verdict(mg('[2.5, 5]'), 'trans(2.5)*[1, 2]')
        key = tag + 'grader|MatrixGrader|[2.5, 5]|trans(2.5)*[1, 2]'
        if got in (True, 'StudentFacingError'):
            # (a grader masks foreign exceptions as a generic StudentFacingError unless debug is on; the evaluator-level check above sees the difference)
            t.ok('grader verdicts', key)
        else:
            t.fail('grader verdicts', key, 'MatrixGrader(answers="[2.5, 5]") on "trans(2.5)*[1, 2]" gave %r' % (got,))
        # the value of trans(number) must be usable where a number is (evaluator level, where nothing is masked)
        for name in ('trans', 'ctrans', 'adj'):
            if name in T_matrix:
                formula = '%s(s)*[1, 2]' % name
                judge('%s (matrix domain)' % name, 'matrix|%s|product' % name, 'evaluator(%r) with s = 2.5 (matrix table)' % formula,
                      through_evaluator(formula, {'s': 2.5}, T_matrix), 'VE', array_check([2.5, 5.0], 0.0, 'number times vector'))

    return t.report(rule="every entry of the Formula/Numerical and Matrix default function tables (enumerated at run time; an entry without oracle is a failure) evaluated through "
                         "evaluator('f(z)', {'z': value}, table, {}) and by a direct call, against cmath/math textbook definitions: forward functions by value, inverse functions by "
                         "principal value on their real domain and by f(f_inverse(z)) = z elsewhere; poles, log singularities, complex arguments of real-only functions, wrong argument "
                         "counts and wrong shapes must raise StudentFacingError without numpy warnings, nan/inf or non-number values; matrix functions against explicit formulas; constants; "
                         "grader verdicts. distinct = distinct (check, table, function, argument) keys",
                    bounds={'random points per kind': n_rand, 'random arrays per shape': n_arr, 'real grid': len(real_grid()), 'complex grid': len(complex_grid()),
                            'magnitudes': '1e-12 .. 1e150', 'argument counts': '0..5', 'tier': tier, 'seed': seed}, exhaustive=False)


def replay(case):
    key = case.get('key') or ''
    m = re.search(r'#(quick|thorough):(-?\d+)\|', key)
    tier, seed = (m.group(1), int(m.group(2))) if m else ('quick', 0)
    out = run(tier, seed)
    hit = [f for f in out['failures'] if f['key'] == key]
    return {'reproduced': bool(hit), 'case': hit[:1]}
