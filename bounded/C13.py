"""
Bounded stand-in for C13 (never counted as proved): random dependency DAGs of up to 8 variables (chains, diamonds, fan-in/out, dependence on constants) in
random declaration orders; cyclic and dangling variants (ConfigError, within a time limit); numbered-variable instances incl. negative and multi-digit
indices and names colliding with declared variables; constants not shadowed by a variable; several samples per configuration.
"""
import itertools
import random
import signal
from bounded._common import Tally, rtcheck, load_contracts

ASSUMPTIONS = ["bounded tier: DAGs with <= 8 variables, 3 samples per configuration, 5 s limit as the termination criterion"]


class _Timeout(BaseException):
    pass


def _alarm(signum, frame):
    raise _Timeout()


def run(tier, seed):
    load_contracts()
    rnd = random.Random(seed)
    t = Tally('C13')
    S = rtcheck.real_module('mitxgraders/sampling.py')
    fgm = rtcheck.real_module('mitxgraders/formulagrader/formulagrader.py')
    exc = rtcheck.real_module('mitxgraders/exceptions.py')
    calc = rtcheck.real_module('mitxgraders/helpers/calc/__init__.py')
    n_cfg = 150 if tier == 'quick' else 2000
    names = ['a', 'b', 'c', 'd', 'e', 'f', 'g', 'h']

    def limited(fn):
        signal.signal(signal.SIGALRM, _alarm)
        signal.alarm(5)
        try:
            return ('ok', fn())
        except _Timeout:
            return ('timeout', None)
        except exc.ConfigError as e:
            return ('ConfigError', str(e))
        except Exception as e:
            return ('foreign', '%s: %s' % (type(e).__name__, e))
        finally:
            signal.alarm(0)

    for cfg in range(n_cfg):
        n = rnd.randint(2, 8)
        vs = names[:n]
        order = vs[:]
        rnd.shuffle(order)
        topo = vs[:]
        rnd.shuffle(topo)
        formulas = {}
        consts = {'k1': 2.0, 'k2': -3.0, topo[0]: 99.0} if rnd.random() < 0.3 else {'k1': 2.0, 'k2': -3.0}
        sample_from = {}
        for i, v in enumerate(topo):
            deps = rnd.sample(topo[:i], rnd.randint(0, min(i, 3))) if i else []
            if deps and rnd.random() < 0.75:
                extra = rnd.choice(['', '+k1', '*k2'])
                formulas[v] = ' + '.join('%s*%d' % (d, rnd.randint(1, 3)) for d in deps) + extra
                sample_from[v] = S.DependentSampler(formula=formulas[v])
            else:
                sample_from[v] = S.RealInterval([1, 2])
        kind = rnd.choice(['dag', 'dag', 'cycle', 'dangling'])
        if kind == 'cycle':
            x, y = rnd.sample(vs, 2)
            formulas[x], formulas[y] = y + '+1', x + '*2'
            sample_from[x], sample_from[y] = S.DependentSampler(formula=formulas[x]), S.DependentSampler(formula=formulas[y])
        elif kind == 'dangling':
            x = rnd.choice(vs)
            formulas[x] = 'nosuchvar + 1'
            sample_from[x] = S.DependentSampler(formula=formulas[x])
        out = limited(lambda: S.gen_symbols_samples(order, 3, sample_from, {}, {}, consts))
        key = (cfg, kind, tuple(order))
        if kind in ('cycle', 'dangling'):
            ok = out[0] == 'ConfigError' and (('undefined' in out[1]) == (kind == 'dangling') or kind == 'cycle')
            (t.ok if ok else t.fail)('gen_symbols_samples (%s)' % kind, key, *([] if ok else ['%s dependency among %r (formulas %r): %r, expected ConfigError' % (kind, order, formulas, out)]))
            continue
        if out[0] != 'ok':
            t.fail('gen_symbols_samples', key, 'order %r formulas %r: %r' % (order, formulas, out))
            continue
        bad = None
        for d in out[1]:
            expected_keys = set(order) | {c for c in consts if c not in order}
            if set(d.keys()) != expected_keys:
                bad = 'keys %r, expected %r' % (sorted(d.keys()), sorted(expected_keys))
                break
            for c, val in consts.items():
                if c not in order and d[c] != val:
                    bad = 'constant %s changed' % c
            for v, f in formulas.items():
                want, _ = calc.evaluator(f, {k2: d[k2] for k2 in d if k2 != v}, {}, {})
                if abs(d[v] - want) > 1e-9 * max(1, abs(want)):
                    bad = '%s = %r but %s evaluates to %r on the same sample' % (v, d[v], f, want)
            for v in order:
                if v not in formulas and not (1 <= d[v] <= 2):
                    bad = '%s = %r not drawn from its sampling set' % (v, d[v])
        if len(out[1]) != 3:
            bad = '%d samples, 3 requested' % len(out[1])
        (t.ok if bad is None else t.fail)('gen_symbols_samples', key, *([{'order': order, 'formulas': formulas, 'sample': out[1][0]}] if False else []),
                                          **({} if bad is None else {})) if False else None
        if bad is None:
            t.ok('gen_symbols_samples', key, sample={'order': order, 'formulas': formulas, 'sample': {k2: round(v2, 3) for k2, v2 in out[1][0].items()}})
        else:
            t.fail('gen_symbols_samples', key, 'order %r formulas %r constants %r: %s' % (order, formulas, consts, bad))
    # numbered variables: every instance in the expressions gets a value from its base name's set; declared names keep their own set
    class Recording(S.VariableSamplingSet):
        schema_config = S.Schema({S.Required('value'): float})

        def gen_sample(self):
            return self.config['value']
    cases = [
        ("a_{1} + a_{-2} + a_{12} + a_{0}", {'a': Recording(value=7.0)}, ['a'], [], 7.0 * 4),
        ("a_{0} + a_{1}", {'a': Recording(value=7.0), 'a_{0}': Recording(value=100.0)}, ['a'], ['a_{0}'], 107.0),
        ("b_{1} + x", {'b': Recording(value=2.0), 'x': Recording(value=5.0), 'b_{1}': S.DependentSampler(formula='2*x')}, ['b'], ['x', 'b_{1}'], 15.0),
        ("a_{1}*b_{1}", {'a': Recording(value=3.0), 'b': Recording(value=4.0)}, ['a', 'b'], [], 12.0),
    ]
    for expr, sf, numbered, variables, want in cases:
        g = fgm.FormulaGrader(answers=str(want), variables=variables, numbered_vars=numbered, sample_from=sf, samples=3)
        out = limited(lambda: g(None, expr))
        ok = out[0] == 'ok' and out[1]['ok'] is True
        (t.ok if ok else t.fail)('numbered variables', expr, *([] if ok else ['%r with numbered_vars=%r variables=%r should equal %r: %r' % (expr, numbered, variables, want, out)]))
    # constants shadowed by a dependent variable: the variable's formula wins for every dependent, whatever the declaration order
    for order in itertools.permutations(['a', 'b', 'c']):
        sf = {'a': S.RealInterval([2, 3]), 'b': S.DependentSampler(formula='a+1'), 'c': S.DependentSampler(formula='b*10')}
        out = limited(lambda: S.gen_symbols_samples(list(order), 2, sf, {}, {}, {'b': 1000.0, 'pi': 3.14}))
        ok = out[0] == 'ok' and all(abs(d['b'] - (d['a'] + 1)) < 1e-12 and abs(d['c'] - d['b'] * 10) < 1e-9 and d['pi'] == 3.14 for d in out[1])
        (t.ok if ok else t.fail)('dependent shadows a constant', order, *([] if ok else ['order %r: %r' % (order, out)]))
    out = limited(lambda: S.gen_symbols_samples(['pi'], 1, {'pi': S.DependentSampler(formula='pi+1')}, {}, {}, {'pi': 3.0}))
    (t.ok if out[0] == 'ConfigError' else t.fail)('self-dependent shadowing a constant', 'pi', *([] if out[0] == 'ConfigError' else ['pi := pi+1 gave %r, expected ConfigError' % (out,)]))
    # user constants override defaults of the same name (with suppress_warnings) in every sample and in the graded comparison
    for dflt, user in (({'pi': 3.14159, 'e': 2.71828, 'i': 1j}, {'pi': 3, 'T': 1.5}), ({'pi': 3.14159}, {}), ({'a': 1, 'b': 2}, {'b': 20, 'a': 10}), ({}, {'k': 7})):
        want = dict(dflt)
        want.update(user)
        before = (dict(dflt), dict(user))
        got = S.construct_constants(dflt, user)
        ok = got == want and got is not dflt and got is not user and (dflt, user) == before
        (t.ok if ok else t.fail)('construct_constants (user constants win)', (repr(dflt), repr(user)), *([] if ok else ['construct_constants(%r, %r) = %r, expected %r (arguments untouched)' % (before[0], before[1], got, want)]))
    g = fgm.FormulaGrader(answers='2*pi*r', variables=['r'], user_constants={'pi': 3}, suppress_warnings=True)
    for sub, want_ok in (('6*r', True), ('2*3.141592653589793*r', False)):
        out = limited(lambda: g(None, sub))
        ok = out[0] == 'ok' and out[1]['ok'] is want_ok
        (t.ok if ok else t.fail)('user constant overrides a default', sub, *([] if ok else ["FormulaGrader(answers='2*pi*r', user_constants={'pi': 3}, suppress_warnings=True)(None, %r): %r, expected ok=%s" % (sub, out, want_ok)]))
    g = fgm.FormulaGrader(answers='c', variables=['c'], user_constants={'pi': 3}, suppress_warnings=True, sample_from={'c': S.DependentSampler(formula='pi')})
    out = limited(lambda: g(None, '3'))
    ok = out[0] == 'ok' and out[1]['ok'] is True
    (t.ok if ok else t.fail)('user constant overrides a default', 'dependent', *([] if ok else ["a dependent variable defined as 'pi' with user_constants={'pi': 3} should equal 3: %r" % (out,)]))
    # contracts under CPython
    F = 'mitxgraders/sampling.py::'
    for it, sup in itertools.product([[], ['a'], ['a', 'b'], ('a', 'z')], [{}, {'a': 1}, {'a': 1, 'b': 2}]):
        o = rtcheck.check_call(F + 'is_subset', {'iterable': it, 'iterable_superset': sup})
        t.record('is_subset', (repr(it), repr(sup)), o, 'is_subset(%r, %r)' % (it, sup))
    for metric in (False, True):
        d = {'%': 0.01}
        o = rtcheck.check_call(F + 'construct_suffixes', {'default_suffixes': d, 'metric': metric})
        t.record('construct_suffixes', metric, o, 'construct_suffixes metric=%s' % metric)
        if d != {'%': 0.01}:
            t.fail('construct_suffixes', ('mutated', metric), 'the default suffix table was modified: %r' % d)
    return t.report(rule="random dependency structures (DAG / cyclic / dangling) in shuffled declaration orders through gen_symbols_samples, each sample re-evaluated formula by formula "
                         "with the library's evaluator; numbered-variable and shadowing cases through FormulaGrader; helper contracts under CPython; distinct = distinct configuration keys",
                    bounds={'configurations': n_cfg, 'variables': '2..8', 'samples each': 3}, exhaustive=False)


def replay(case):
    out = run('quick', 0)
    hit = [f for f in out['failures'] if f['key'] == case.get('key')]
    return {'reproduced': bool(hit), 'case': hit[:1]}
