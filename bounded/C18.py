"""
Bounded stand-in for C18 (never counted as proved).
1. clean_input (the trusted CLEAN of the proof) against the statement's normalisation, written independently: all strings of length <= 4
   (thorough: <= 5) over {a, A, 1, -, space, tab, CR, LF, e-acute} x the 16 flag combinations; CRLF and LFCR count as single breaks.
2. StringGrader verdicts: exact mode equals equality of cleaned strings; accept_any / accept_nonempty with min_length x min_words x
   explain_minimums; validation patterns with alternation, anchors and prefixes that match only part of the input x explain_validation.
"""
import itertools
import random
import re
from bounded._common import Tally, rtcheck, load_contracts

ASSUMPTIONS = ["bounded tier: strings <= 4 (quick) / 5 (thorough) over a 9-character alphabet; 12 validation patterns x 14 submissions"]


def spec_clean(s, case_sensitive, strip, strip_all, clean_spaces, crlf_first=False):
    """the statement's normalisation, written from the property text.  A run such as LF CR LF CR can be segmented into
    line breaks in two ways (LFCR LFCR, or LF CRLF CR); both are accepted (crlf_first selects the second)"""
    if crlf_first:
        s = s.replace('\r\n', '\x00')
    out = []
    i = 0
    while i < len(s):
        c = s[i]
        if c in '\r\n' and i + 1 < len(s) and s[i + 1] in '\r\n' and s[i + 1] != c:
            out.append(' ')        # CRLF / LFCR: one break
            i += 2
            continue
        out.append(' ' if c in '\t\r\n\x00' else c)
        i += 1
    r = ''.join(out)
    if not case_sensitive:
        r = r.lower()
    if strip:
        r = r.strip()
    if strip_all:
        r = r.replace(' ', '')
    if clean_spaces:
        while '  ' in r:
            r = r.replace('  ', ' ')
    return r


def run(tier, seed):
    load_contracts()
    rnd = random.Random(seed)
    t = Tally('C18')
    sg = rtcheck.real_module('mitxgraders/stringgrader.py')
    exc = rtcheck.real_module('mitxgraders/exceptions.py')
    alphabet = ['a', 'A', '1', '-', ' ', '\t', '\r', '\n', 'é']
    maxlen = 5 if tier == 'thorough' else 4
    flags = list(itertools.product([True, False], repeat=4))
    graders = {f: sg.StringGrader(case_sensitive=f[0], strip=f[1], strip_all=f[2], clean_spaces=f[3]) for f in flags}
    n = 0
    for L in range(0, maxlen + 1):
        for tup in itertools.product(alphabet, repeat=L):
            s = ''.join(tup)
            if tier == 'quick' and L == 4 and rnd.random() < 0.6:
                continue
            for f in flags:
                got = graders[f].clean_input(s)
                want = spec_clean(s, *f)
                n += 1
                if got != want and got != spec_clean(s, *f, crlf_first=True):
                    t.fail('StringGrader.clean_input', (s, f), 'clean_input(%r) with (case_sensitive, strip, strip_all, clean_spaces)=%r gives %r, the statement gives %r' % (s, f, got, want))
    t.evaluations += n
    t.distinct.add(('StringGrader.clean_input', n))
    t.by_contract['StringGrader.clean_input'] = n
    t.samples.append({'contract': 'StringGrader.clean_input', 'case': {'strings up to length': maxlen, 'flag combinations': 16, 'evaluations': n}})
    # exact mode: match iff equal after cleaning
    words = ['cat', 'Cat', ' cat', 'cat ', 'c at', 'ca\tt', 'cat\r\n', 'big  cat', 'big cat', 'big\n\rcat', 'bigcat', 'dog', 'càt']
    for f in flags:
        for a, b in itertools.product(words, repeat=2):
            g = sg.StringGrader(answers=a, case_sensitive=f[0], strip=f[1], strip_all=f[2], clean_spaces=f[3])
            got = g(None, b)['ok']
            want = spec_clean(a, *f) == spec_clean(b, *f)
            if got is want:
                t.ok('exact mode', (f, a, b), sample={'flags': f, 'expect': a, 'submission': b, 'ok': got})
            else:
                t.fail('exact mode', (f, a, b), 'flags %r expect %r submission %r: ok=%r but cleaned strings %s' % (f, a, b, got, 'are equal' if want else 'differ'))
    # accept_any / accept_nonempty
    subs = ['', ' ', 'a', 'ab', 'a b', 'a  b c', 'abcdef', '   a   ']
    subs += [' cat', 'cat ', ' a b ', 'a   b', '\ta', 'a\nb']
    for mode, ml, mw, how, (strip, cspaces) in itertools.product(('accept_any', 'accept_nonempty'), (0, 1, 3), (0, 1, 2), ('err', 'msg', None),
                                                               ((True, True), (False, True), (True, False), (False, False))):
        g = sg.StringGrader(min_length=ml, min_words=mw, explain_minimums=how, strip=strip, clean_spaces=cspaces, **{mode: True})
        for s in subs:
            c = spec_clean(s, True, strip, False, cspaces)
            need = max(ml, 1) if (mode == 'accept_nonempty' and ml == 0) else ml
            good = len(c) >= need and len(c.split()) >= mw
            try:
                r = g(None, s)
                got = ('ok', r['ok'], r['msg'])
            except exc.InvalidInput as e:
                got = ('InvalidInput', str(e))
            except Exception as e:
                got = ('unexpected ' + type(e).__name__, str(e)[:80])
            if good:
                ok = got[0] == 'ok' and got[1] is True
            elif how == 'err':
                ok = got[0] == 'InvalidInput' and (('words' in got[1]) == (len(c.split()) < mw))
            else:
                ok = got[0] == 'ok' and got[1] is False and ((got[2] != '') == (how == 'msg')) and (how != 'msg' or ('words' in got[2]) == (len(c.split()) < mw))
            key = (mode, ml, mw, how, strip, cspaces, s)
            (t.ok if ok else t.fail)('accept modes', key, *([] if ok else ['%s min_length=%d min_words=%d explain_minimums=%r strip=%s clean_spaces=%s submission %r: %r' % (mode, ml, mw, how, strip, cspaces, s, got)]))
    # validation pattern: entire cleaned submission, every mode
    patterns = ['cat|dog', 'cat', r'\([0-9]+\)', '^cat', 'cat$', '(cat|dog)', 'c.t', '[a-c]+', r'\d+|x', 'a|b|cc', '(?i)cat', 'cat|']
    tests = ['cat', 'dog', 'catfish', 'hotdog', 'x(12)', '(12)', '(12)x', 'cot', 'cart', 'abc', 'abcd', '12', 'x', 'cc', 'CAT', '']
    for p in patterns:
        for s in tests:
            full = re.fullmatch(p, s) is not None
            for how in ('err', 'msg', None):
                g = sg.StringGrader(validation_pattern=p, accept_any=True, explain_validation=how)
                try:
                    r = g(None, s)
                    got = ('ok', r['ok'], r['msg'])
                except exc.InvalidInput as e:
                    got = ('InvalidInput', str(e))
                except Exception as e:
                    got = ('unexpected ' + type(e).__name__, str(e)[:80])
                if full:
                    ok = got[0] == 'ok' and got[1] is True
                elif how == 'err':
                    ok = got[0] == 'InvalidInput'
                else:
                    ok = got[0] == 'ok' and got[1] is False and ((got[2] != '') == (how == 'msg'))
                key = (p, s, how)
                (t.ok if ok else t.fail)('validation_pattern', key, *([] if ok else ['validation_pattern %r (accept_any) explain_validation=%r submission %r: %r, pattern %s the entire input' % (p, how, s, got, 'matches' if full else 'does not match')]))
            # comparison mode: expected answer must match, else ConfigError; non-matching submission refused
            for a in ('cat', 'dog'):
                try:
                    r = sg.StringGrader(answers=a, validation_pattern=p, explain_validation='err')(None, s)
                    got = ('ok', r['ok'])
                except exc.InvalidInput:
                    got = ('InvalidInput',)
                except exc.ConfigError:
                    got = ('ConfigError',)
                except Exception as e:
                    got = ('unexpected ' + type(e).__name__,)
                if re.fullmatch(p, a) is None:
                    want = ('ConfigError',)
                elif not full:
                    want = ('InvalidInput',)
                else:
                    want = ('ok', s == a)
                (t.ok if got == want else t.fail)('validation_pattern (comparison mode)', (p, a, s), *([] if got == want else ['pattern %r answer %r submission %r: %r expected %r' % (p, a, s, got, want)]))
    return t.report(rule="exhaustive strings up to the stated length over the 9-character alphabet x 16 flag combinations for clean_input (counted as evaluations; thinned at length 4 in quick tier); "
                         "grids for exact / accept-any / validation-pattern behaviour against re.fullmatch and an independent normalisation; distinct = distinct case keys",
                    bounds={'max string length': maxlen, 'alphabet': [repr(c) for c in alphabet], 'patterns': patterns}, exhaustive=(tier == 'thorough'))


def replay(case):
    out = run('quick', 0)
    hit = [f for f in out['failures'] if f['key'] == case.get('key')]
    return {'reproduced': bool(hit), 'case': hit[:1]}
