"""helpers shared by the bounded stand-ins (never counted as proved)"""
import os
import sys
import random
import itertools

ROOT = os.path.dirname(os.path.dirname(os.path.abspath(__file__)))
if ROOT not in sys.path:
    sys.path.insert(0, ROOT)

from pyvc import rtcheck, api, source as SRC   # noqa: E402


class Tally:
    def __init__(self, pid):
        self.pid = pid
        self.evaluations = 0
        self.distinct = set()
        self.failures = []
        self.samples = []
        self.skipped = 0
        self.by_contract = {}

    def record(self, contract, key, outcome, what, nontrivial=True, sample=None, function=''):
        self.evaluations += 1
        self.by_contract[contract] = self.by_contract.get(contract, 0) + 1
        if outcome.status == 'skipped':
            self.skipped += 1
            return
        if nontrivial:
            self.distinct.add((contract, key))
        if sample is not None and len(self.samples) < 8 and not any(s.get('contract') == contract for s in self.samples):
            self.samples.append(dict(contract=contract, case=sample))
        if outcome.status == 'violated':
            self.failures.append({'contract': contract, 'function': function or contract, 'key': '%s#%s' % (contract, key),
                                  'what': what, 'clause': '; '.join(outcome.failed)[:600],
                                  'result': repr(outcome.result)[:300],
                                  'raised': repr(outcome.raised)[:300] if outcome.raised is not None else None})

    def fail(self, contract, key, what, clause='', function=''):
        self.evaluations += 1
        self.failures.append({'contract': contract, 'function': function or contract, 'key': '%s#%s' % (contract, key),
                              'what': what, 'clause': clause})

    def ok(self, contract, key, sample=None):
        self.evaluations += 1
        self.by_contract[contract] = self.by_contract.get(contract, 0) + 1
        self.distinct.add((contract, key))
        if sample is not None and len(self.samples) < 8 and not any(s.get('contract') == contract for s in self.samples):
            self.samples.append(dict(contract=contract, case=sample))

    def report(self, rule, bounds, exhaustive=False):
        return {'evaluations': self.evaluations, 'distinct_nontrivial': len(self.distinct), 'skipped_precondition': self.skipped,
                'rule': rule, 'bounds': bounds, 'exhaustive': exhaustive, 'samples': self.samples,
                'per_contract': self.by_contract, 'failures': self.failures}


def load_contracts():
    from pyvc import runner
    return runner.load_contracts()
