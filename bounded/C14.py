"""
Bounded stand-in for C14 (never counted as proved): strict linear-algebra shape rules and values of MathArray arithmetic.

Swept (the shape lattice is enumerated exhaustively and deterministically; only the entries are random):
  * operand kinds: Python scalars (int, float, complex), vectors of length 2..4, all m x n matrices with m, n in 1..4 and more
    than one element (15 shapes), four 3-axis tensors -> 25 kinds, all 625 ordered pairs x the five operators + - * / ^
  * entries: real floats, complex, integer dtype (direct operators); real and complex (formula strings)
  * MathArray operators directly: binary, in-place (+= -= *= /= **=), reflected with a Python number on the left (through the
    operator and through the __r*__ method), scalar zero on either side of + and -, numpy scalars on the left
  * exponents for every array shape: ints -3..4, integer-valued floats, non-integers, inf/nan, complex, numpy floats; square
    matrices well conditioned, exactly singular (duplicated row, zero row, zero column) and a fixed list of classroom singular
    integer matrices
  * formula strings through expressions.evaluator: the same 625 x 5 grid with array-valued variables and with array literals,
    numpy-scalar variables, product chains of 3 and 4 operands over {scalar, vectors, matrices, single-row and single-column
    matrices} flat and parenthesised (three or more vectors in one unparenthesised chain must be refused), ragged literals
  * MatrixGrader(negative_powers=False/True): A^-k refused/accepted, other powers unaffected, no leak between graders in
    either order, also after a submission that raised

Oracle: written from the property statement with plain numpy on plain ndarrays (elementwise ops, explicit einsum index
contractions after an explicit shape test, repeated products of np.linalg.inv for negative powers) -- no MathArray code.
Where the statement is silent the documented behaviour is accepted (see the comments at `oracle`).

Deviations of the pinned tree that these checks report (kept as checks, each under its own label):
  * 'numpy scalar on the left of an array': np.float64(2.5) + MathArray([1, 2]) (also -, /, **) is computed by numpy's scalar arithmetic and
    broadcasts; MathArray.__radd__ is never consulted (the evaluator avoids this by casting numpy numbers to builtins, which
    'formula with a numpy-scalar variable' confirms)
  * 'negative power of an exactly singular matrix': the refusal relies on LAPACK meeting an exact zero pivot, e.g.
    MathArray([[1, 2, 3], [4, 5, 6], [5, 7, 9]]) ** -1 returns entries of magnitude 1e15
"""
import operator
import random
import re
import warnings
from fractions import Fraction
from numbers import Number

import numpy as np
from bounded._common import Tally, rtcheck, load_contracts

ASSUMPTIONS = ["bounded tier: 25 operand kinds (3 scalar types, vectors 2..4, the 15 matrix shapes up to 4 x 4, 4 tensors) in all 625 ordered pairs "
               "x 5 operators; 1 (quick) / 3 (thorough) random entry draws per cell, entries in [-3, 3] (ints in -4..4), square matrices "
               "resampled until their condition number is < 30; product chains of length 3 and 4 (5 in the thorough tier); values compared "
               "at 1e-9 relative to the largest entry"]

VECS = [(2,), (3,), (4,)]
MATS = [(m, n) for m in range(1, 5) for n in range(1, 5) if m * n > 1]
TENS = [(2, 2, 2), (1, 2, 2), (2, 3, 2), (3, 1, 2)]
SCALARS = ['int', 'float', 'complex']
KINDS = SCALARS + VECS + MATS + TENS
OPS = ['+', '-', '*', '/', '^']
BINOP = {'+': operator.add, '-': operator.sub, '*': operator.mul, '/': operator.truediv, '^': operator.pow}
INOP = {'+': operator.iadd, '-': operator.isub, '*': operator.imul, '/': operator.itruediv, '^': operator.ipow}
RDUNDER = {'+': '__radd__', '-': '__rsub__', '*': '__rmul__', '/': '__rtruediv__', '^': '__rpow__'}
OPNAME = {'+': '+', '-': '-', '*': '*', '/': '/', '^': '^'}

# classroom singular matrices with integer entries (exactly singular; LU with partial pivoting does not always meet an exact zero pivot)
FIXED_SINGULAR = [
    [[1, 2], [2, 4]], [[1, 2], [3, 6]], [[2, -1], [-6, 3]], [[0, 0], [0, 0]], [[1, 1], [1, 1]],
    [[1, 2, 3], [4, 5, 6], [7, 8, 9]], [[1, 2, 3], [4, 5, 6], [5, 7, 9]], [[1, 2, 3], [2, 4, 6], [1, 0, 1]], [[2, 1, 3], [1, 1, 2], [3, 2, 5]],
    [[1, 0, 0], [0, 1, 0], [0, 0, 0]], [[1, 2, 3, 4], [5, 6, 7, 8], [9, 10, 11, 12], [13, 14, 15, 16]],
    [[1, 2, 0, 1], [0, 1, 1, 3], [1, 3, 1, 4], [2, 0, 1, 1]], [[3, 1, 2, 0], [1, 0, 1, 1], [4, 1, 3, 1], [0, 2, 1, 5]],
]


# ------------------------------------------------------------------------------------------------------------ oracle

def is_arr(x):
    return isinstance(x, np.ndarray)


def exact_det_zero(a):
    """determinant over the rationals (entries must be integers)"""
    n = a.shape[0]
    m = [[Fraction(int(round(x.real))) for x in row] for row in a]
    for c in range(n):
        p = next((r for r in range(c, n) if m[r][c] != 0), None)
        if p is None:
            return True
        m[c], m[p] = m[p], m[c]
        for r in range(c + 1, n):
            f = m[r][c] / m[c][c]
            for k in range(c, n):
                m[r][k] -= f * m[c][k]
    return False


def is_singular(a):
    a = np.asarray(a, dtype=complex)
    if np.all(a.imag == 0) and np.all(a.real == np.round(a.real)):
        return exact_det_zero(a)
    n = a.shape[0]
    if any(not a[i].any() for i in range(n)) or any(not a[:, j].any() for j in range(n)):
        return True
    if any(np.array_equal(a[i], a[j]) for i in range(n) for j in range(i)):
        return True
    s = np.linalg.svd(a, compute_uv=False)
    return bool(s[-1] <= 1e-12 * s[0])


def collapse(x):
    """the library's documented collapse: a product with a single element is a number"""
    return complex(x.reshape(-1)[0]) if x.size == 1 else x


def int_like(e):
    return not isinstance(e, bool) and (isinstance(e, int) or (isinstance(e, float) and e == e and abs(e) != float('inf') and e == int(e)))


def mat_power(a, k):
    a = np.asarray(a, dtype=complex)
    base = a if k >= 0 else np.linalg.inv(a)
    out = np.eye(a.shape[0], dtype=complex)
    for _ in range(abs(k)):
        out = np.einsum('ij,jk->ik', out, base)
    return out


def oracle(op, L, R):
    """('value', x) | ('error',) | ('either', x); L, R are Python numbers or plain ndarrays.

    Taken from the statement.  Where it is silent the documented behaviour is accepted:
      * the scalar 0 added to / subtracted from an array is the additive identity (docs, table 'MathArray +/- number: error unless number=0')
      * scalar ^ array is an error (not among the values the statement lists; MathArray.__rpow__ documents the refusal)
      * a negative power of a singular matrix is an error ('Cannot raise singular matrix to negative powers.')
      * a matrix product with exactly one element is returned as a number (comment in __mul__; is_numberlike_array)
      * A^0 is the identity for every square A (docs, 'Powers')
      * a complex exponent with zero imaginary part and integer real part may be refused or honoured
    """
    la, ra = is_arr(L), is_arr(R)
    if op in '+-':
        sgn = 1 if op == '+' else -1
        if not la and not ra:
            return ('value', L + sgn * R)
        if la and ra:
            return ('value', L + sgn * R) if L.shape == R.shape else ('error',)
        if la:
            return ('value', L * 1) if R == 0 else ('error',)
        return ('value', sgn * R) if L == 0 else ('error',)
    if op == '*':
        if not la or not ra:
            return ('value', L * R)
        if L.ndim > 2 or R.ndim > 2:
            return ('error',)
        if L.ndim == 1 and R.ndim == 1:
            return ('value', complex(np.einsum('i,i->', L, R))) if L.shape == R.shape else ('error',)
        if L.ndim == 2 and R.ndim == 1:
            return ('value', collapse(np.einsum('ij,j->i', L, R))) if L.shape[1] == R.shape[0] else ('error',)
        if L.ndim == 1 and R.ndim == 2:
            return ('value', collapse(np.einsum('i,ij->j', L, R))) if L.shape[0] == R.shape[0] else ('error',)
        return ('value', collapse(np.einsum('ij,jk->ik', L, R))) if L.shape[1] == R.shape[0] else ('error',)
    if op == '/':
        if ra:
            return ('error',)
        if R == 0:
            return ('error',)
        return ('value', L / R)
    if op == '^':
        if ra:
            return ('error',)
        if not la:
            return ('value', L ** R)
        if not (L.ndim == 2 and L.shape[0] == L.shape[1]):
            return ('error',)
        if isinstance(R, complex):
            if R.imag == 0 and int_like(R.real) and not (R.real < 0 and is_singular(L)):
                return ('either', mat_power(L, int(R.real)))
            return ('error',)
        if not int_like(R):
            return ('error',)
        if R < 0 and is_singular(L):
            return ('error',)
        return ('value', mat_power(L, int(R)))
    raise ValueError(op)


def chain_oracle(node):
    """node = value | ('chain', [nodes], [ops]); a parenthesised group is a nested chain.
    A flat chain is evaluated left to right (C03).  It must be refused when a vector is multiplied into the running product after a
    vector*vector product has already occurred in the same chain ((a.b)c vs a(b.c): the ambiguity the statement names).  Where three
    vectors occur in the chain but one of them was consumed by a matrix-vector product first (e.g. [[1,2]]*[1,0]*[0,1]*[1,1]), the
    left-to-right value is well defined: the statement does not say which of {refusal, that value} applies, so either is accepted."""
    if not (isinstance(node, tuple) and len(node) == 3 and node[0] == 'chain'):
        return ('value', node)
    vals = []
    lenient = False
    for sub in node[1]:
        o = chain_oracle(sub)
        if o[0] == 'error':
            return ('error',)
        if o[0] == 'either':          # a parenthesised sub-chain for which refusal and the left-to-right value are both acceptable
            lenient = True
        vals.append(o[1])
    is_vec = lambda v: is_arr(v) and v.ndim == 1
    many_vectors = lenient or sum(1 for v in vals if is_vec(v)) >= 3
    acc = vals[0]
    vv = False
    for op, v in zip(node[2], vals[1:]):
        if op == '*' and is_vec(v):
            if vv:
                return ('error',)
            if is_vec(acc):
                vv = True
        o = oracle(op, acc, v)
        if o[0] != 'value':
            # (with a lenient sub-chain the library may already have refused: an error is acceptable either way)
            return ('error',)
        acc = o[1]
    return ('either', acc) if many_vectors else ('value', acc)


# --------------------------------------------------------------------------------------------------------- rendering

def fnum(z, top=True):
    if isinstance(z, (complex, np.complexfloating)):
        z = complex(z)
        s = '%r%s%r*i' % (z.real, '-' if z.imag < 0 or (z.imag == 0 and str(z.imag)[0] == '-') else '+', abs(z.imag))
        return '(' + s + ')'
    if isinstance(z, (int, np.integer)) and not isinstance(z, bool):
        s = '%d' % z
    else:
        s = repr(float(z))
    return '(' + s + ')' if top and s[0] == '-' else s


def flit(a):
    if not is_arr(a):
        return fnum(a)
    if a.ndim == 1:
        return '[' + ', '.join(fnum(x, top=False) for x in a.tolist()) + ']'
    return '[' + ', '.join(flit(x) for x in a) + ']'


def show(x):
    if is_arr(x):
        return '%s%s' % (type(x).__name__ if type(x) is not np.ndarray else 'array', np.array2string(np.asarray(x), precision=6, separator=',').replace('\n', ''))
    return '%s(%r)' % (type(x).__name__, x)


def kname(k):
    return k if isinstance(k, str) else 'x'.join(str(d) for d in k) + ('v' if len(k) == 1 else '')


# ----------------------------------------------------------------------------------------------------------- harness

def run(tier, seed):
    load_contracts()
    t = Tally('C14')
    MA = rtcheck.real_module('mitxgraders/helpers/calc/math_array.py')
    EX = rtcheck.real_module('mitxgraders/helpers/calc/expressions.py')
    exc = rtcheck.real_module('mitxgraders/exceptions.py')
    mgm = rtcheck.real_module('mitxgraders/formulagrader/matrixgrader.py')
    fgm = rtcheck.real_module('mitxgraders/formulagrader/formulagrader.py')
    M = MA.MathArray
    SFE = exc.StudentFacingError
    rnd = random.Random(seed)
    rs = np.random.RandomState(seed * 7919 + 14)
    np.random.seed(seed + 14)
    tag = '%s%d' % (tier[0], seed)
    draws = 1 if tier == 'quick' else 3
    sampled = set()

    # -- random operands ------------------------------------------------------------------------------------------
    def scalar(kind):
        if kind == 'int':
            return int(rs.choice([-3, -2, -1, 1, 2, 3, 4]))
        if kind == 'float':
            return float(rs.choice([-1, 1]) * rs.uniform(0.3, 3.0))
        return complex(rs.uniform(-2, 2), rs.choice([-1, 1]) * rs.uniform(0.3, 2.0))

    def entries(shape, flavour):
        for _ in range(1000):
            if flavour == 'int':
                a = rs.randint(-4, 5, size=shape)
            elif flavour == 'real':
                a = rs.uniform(-3, 3, size=shape)
            else:
                a = rs.uniform(-3, 3, size=shape) + 1j * rs.uniform(-3, 3, size=shape)
            if len(shape) == 2 and shape[0] == shape[1] and not (np.linalg.cond(a.astype(complex)) < 30):
                continue
            if not a.any():
                continue
            return a
        raise RuntimeError('could not draw a well-conditioned %r array' % (shape,))

    def operand(kind, flavour):
        return scalar(kind) if isinstance(kind, str) else entries(kind, flavour)

    def lib(x):
        """the library-side operand: MathArray for arrays, the number itself otherwise (a fresh copy each time)"""
        return M(np.array(x)) if is_arr(x) else x

    # -- running the library and judging ---------------------------------------------------------------------------
    def call(fn):
        with warnings.catch_warnings():
            warnings.simplefilter('error', RuntimeWarning)
            try:
                return ('value', fn())
            except SFE as e:
                return ('error', '%s: %s' % (type(e).__name__, e))
            except Exception as e:         # anything else is a failure of the case, reported with its type
                return ('foreign', '%s: %s' % (type(e).__name__, e))

    def judge(exp, got):
        """None if the outcome is acceptable, else the reason"""
        if got[0] == 'foreign':
            return 'raised %s, which is not a student-facing error' % got[1]
        if exp[0] == 'error':
            return None if got[0] == 'error' else 'returned %s where a student-facing error is required' % show(got[1])
        if got[0] == 'error':
            return None if exp[0] == 'either' else 'raised %s where the value %s is required' % (got[1], show(exp[1]))
        want, have = exp[1], got[1]
        if is_arr(want):
            if not isinstance(have, M):
                return 'returned %s, expected a MathArray of shape %r' % (show(have), want.shape)
            if have.shape != want.shape:
                return 'returned shape %r, expected shape %r' % (have.shape, want.shape)
        else:
            if isinstance(have, bool) or not (isinstance(have, Number) or (is_arr(have) and have.ndim == 0)):
                return 'returned %s, expected the number %r' % (show(have), want)
        try:
            h = np.asarray(have).astype(complex)
        except (TypeError, ValueError):
            return 'returned a non-numeric %s' % show(have)
        w = np.asarray(want, dtype=complex)
        scale = max(1.0, float(np.max(np.abs(w))) if w.size else 1.0)
        if not np.all(np.abs(h - w) <= 1e-9 * scale):
            return 'returned %s, expected %s' % (show(have), show(want))
        return None

    def settle(contract, key, exp, got, describe):
        why = judge(exp, got)
        k = '%s|%s' % (tag, key)
        if why is None:
            if contract not in sampled:
                sampled.add(contract)
                t.ok(contract, k, sample={'case': describe()[:300], 'outcome': got[0]})
            else:
                t.ok(contract, k)
        else:
            t.fail(contract, k, '%s: %s' % (describe(), why))

    def evaluate(formula, variables, dim=3):
        v = {'i': 1j}
        v.update(variables)
        return call(lambda: EX.evaluator(formula, v, {}, {}, max_array_dim=dim)[0])

    # ============ 1. the 625 x 5 grid through the MathArray operators ============================================
    for flavour in ('real', 'complex', 'int'):
        for d in range(draws):
            for lk in KINDS:
                for rk in KINDS:
                    if isinstance(lk, str) and isinstance(rk, str):
                        continue            # number op number never reaches MathArray; covered in the formula sweep
                    L, R = operand(lk, flavour), operand(rk, flavour)
                    for op in OPS:
                        exp = oracle(op, L, R)
                        base = 'direct|%s|%s|%s|%s|%d' % (op, kname(lk), kname(rk), flavour, d)
                        desc = lambda form, L=L, R=R, op=op: '%s: %s %s %s' % (form, show(lib(L)), op, show(lib(R)))
                        if is_arr(L):
                            settle('MathArray %s (binary)' % OPNAME[op], base + '|binary', exp, call(lambda: BINOP[op](lib(L), lib(R))), lambda: desc('binary'))
                            settle('MathArray %s= (in-place)' % OPNAME[op].replace('^', '**'), base + '|inplace', exp,
                                   call(lambda: INOP[op](lib(L), lib(R))), lambda: desc('in-place'))
                        else:
                            settle('MathArray %s (reflected, number on the left)' % OPNAME[op], base + '|reflected', exp,
                                   call(lambda: BINOP[op](L, lib(R))), lambda: desc('reflected'))
                            settle('MathArray %s (reflected, number on the left)' % OPNAME[op], base + '|rdunder', exp,
                                   call(lambda: getattr(lib(R), RDUNDER[op])(L)), lambda: desc(RDUNDER[op]))

    # ============ 2. scalar zero as the additive identity (documented), zero scaling ==============================
    zeros = [0, 0.0, 0j, -0.0]
    for flavour in ('real', 'complex'):
        for k in VECS + MATS + TENS:
            A = entries(k, flavour)
            for zi, z in enumerate(zeros):
                for op in ('+', '-', '*', '^'):
                    base = 'zero|%s|%s|%s|%d' % (op, kname(k), flavour, zi)
                    settle('scalar zero with an array', base + '|right', oracle(op, A, z), call(lambda: BINOP[op](lib(A), z)),
                           lambda: '%s %s %r' % (show(lib(A)), op, z))
                    settle('scalar zero with an array', base + '|right-inplace', oracle(op, A, z), call(lambda: INOP[op](lib(A), z)),
                           lambda: '%s %s= %r' % (show(lib(A)), op, z))
                    settle('scalar zero with an array', base + '|left', oracle(op, z, A), call(lambda: BINOP[op](z, lib(A))),
                           lambda: '%r %s %s' % (z, op, show(lib(A))))
                settle('scalar zero with an array', 'zero|/|%s|%s|%d|left' % (kname(k), flavour, zi), ('error',), call(lambda: z / lib(A)),
                       lambda: '%r / %s' % (z, show(lib(A))))
            # tiny but nonzero numbers are not the additive identity
            for zi, z in enumerate([1e-12, -1e-300, 5e-324, 1e-15j]):
                for op in ('+', '-'):
                    base = 'tiny|%s|%s|%s|%d' % (op, kname(k), flavour, zi)
                    settle('tiny nonzero scalar with an array', base + '|right', ('error',), call(lambda: BINOP[op](lib(A), z)), lambda: '%s %s %r' % (show(lib(A)), op, z))
                    settle('tiny nonzero scalar with an array', base + '|left', ('error',), call(lambda: BINOP[op](z, lib(A))), lambda: '%r %s %s' % (z, op, show(lib(A))))

    # ============ 3. numpy scalars on the left (np.float64 is a float; the statement does not exempt them) =========
    np_types = [np.float64, np.int64, np.complex128]
    for k in VECS + [(2, 2), (2, 3), (1, 3), (3, 1), (4, 4)] + TENS[:1]:
        A = entries(k, 'real')
        for ti, ty in enumerate(np_types):
            for zero in (False, True):
                s = ty(0) if zero else ty([2.5, 3, 1 + 2j][ti])
                for op in OPS:
                    exp = oracle(op, s.item(), A)
                    settle('numpy scalar on the left of an array', 'npleft|%s|%s|%s|%s' % (op, kname(k), ty.__name__, 'zero' if zero else 'nonzero'),
                           exp, call(lambda: BINOP[op](s, lib(A))), lambda: 'np.%s(%r) %s %s' % (ty.__name__, s.item(), op, show(lib(A))))
        # numpy numbers on the right: np.float64 is a float and must behave like one; other numpy numbers may be refused but never broadcast
        for si, s in enumerate([np.float64(2.5), np.float64(2.0), np.float64(-1.0), np.int64(3), np.int64(-1), np.complex128(1 + 2j), np.float32(2.0)]):
            for op in OPS:
                exp = oracle(op, A, s.item())
                if not isinstance(s, float) and exp[0] == 'value':
                    exp = ('either', exp[1])
                settle('numpy scalar on the right of an array', 'npright|%s|%s|%d' % (op, kname(k), si),
                       exp, call(lambda: BINOP[op](lib(A), s)), lambda: '%s %s np.%s(%r)' % (show(lib(A)), op, type(s).__name__, s.item()))

    # ============ 4. exponent sweep over every array shape =========================================================
    exponents = [-3, -2, -1, 0, 1, 2, 3, 4, 2.0, -1.0, 3.0, -2.0, 0.0, 1.0, -0.0, 0.5, 2.5, -0.5, -1.5, 2.000000001, 1e-12,
                 float('inf'), float('-inf'), float('nan'), 1j, 2 + 1j, 0.5 + 0j, -1 - 1j, 2 + 0j, -1 + 0j,
                 np.float64(2.0), np.float64(-2.0), np.float64(0.5)]
    for flavour in ('real', 'complex', 'int'):
        for d in range(draws):
            for k in VECS + MATS + TENS:
                A = entries(k, flavour)
                for ei, e in enumerate(exponents):
                    pe = e.item() if isinstance(e, np.generic) else e
                    exp = oracle('^', A, pe)
                    base = 'pow|%s|%s|%d|%d' % (kname(k), flavour, d, ei)
                    settle('MathArray ^ exponent sweep', base + '|binary', exp, call(lambda: lib(A) ** e), lambda: '%s ** %r' % (show(lib(A)), e))
                    settle('MathArray ^ exponent sweep', base + '|inplace', exp, call(lambda: operator.ipow(lib(A), e)), lambda: '%s **= %r' % (show(lib(A)), e))
                    if isinstance(e, float) and e == e and abs(e) != float('inf') and not isinstance(e, np.generic):
                        settle('formula ^ exponent sweep', base + '|formula', exp, evaluate('A^' + fnum(e), {'A': lib(A)}),
                               lambda: "evaluator('A^%s') with A = %s" % (fnum(e), show(lib(A))))

    # singular square matrices: exactly singular by construction (the elimination meets an exact zero) and the fixed classroom list
    def singular(n, how, flavour):
        a = entries((n, n), flavour).astype(complex if flavour == 'complex' else float)
        i, j = rnd.sample(range(n), 2)
        if how == 'duplicate row':
            a[i] = a[j]
        elif how == 'zero row':
            a[i] = 0
        else:
            a[:, i] = 0
        return a
    sing = []
    for n in (2, 3, 4):
        for how in ('duplicate row', 'zero row', 'zero column'):
            for flavour in ('real', 'complex'):
                for d in range(draws):
                    sing.append(('%d|%s|%s|%d' % (n, how, flavour, d), singular(n, how, flavour)))
    for fi, m in enumerate(FIXED_SINGULAR):
        sing.append(('fixed%d|int' % fi, np.array(m)))
        sing.append(('fixed%d|float' % fi, np.array(m, dtype=float)))
        sing.append(('fixed%d|complex' % fi, np.array(m, dtype=complex) * 1j))
    for name, A in sing:
        if not is_singular(A):
            raise RuntimeError('harness: %s is not singular' % name)
        for e in (-2, -1, -1.0, 0, 1, 2, 3.0, 0.5, -0.5):
            # every matrix here is exactly singular as stored (integer entries with zero rational determinant, two identical rows, a zero
            # row or column), so a negative integer power has no value: the documented outcome is the student-facing refusal
            exp = oracle('^', A, e)
            contract = 'negative power of an exactly singular matrix' if (int_like(e) and e < 0) else 'other powers of singular matrices'
            settle(contract, 'sing|%s|%r|binary' % (name, e), exp, call(lambda: lib(A) ** e), lambda: '%s ** %r (singular)' % (show(lib(A)), e))
            if 'fixed' in name or e in (-1, 2):
                settle(contract, 'sing|%s|%r|formula' % (name, e), exp, evaluate(flit(A) + '^' + fnum(e), {}),
                       lambda: "evaluator('%s^%s') (singular)" % (flit(A), fnum(e)))

    # ============ 5. the grid through formula strings ===============================================================
    for flavour in ('real', 'complex'):
        for d in range(draws):
            for lk in KINDS:
                for rk in KINDS:
                    L, R = operand(lk, flavour), operand(rk, flavour)
                    # array literals cost a fresh parse each: the thorough tier renders every cell, the quick tier every cell with at most four
                    # elements per operand and one operator (rotating over the lattice) for the larger ones
                    small = all(isinstance(k, str) or int(np.prod(k)) <= 4 for k in (lk, rk))
                    rot = KINDS.index(lk) + KINDS.index(rk)
                    if tier == 'thorough':
                        lit_ops = OPS if (flavour == 'real' or d == 0) else []
                    elif flavour == 'real':
                        lit_ops = OPS if small else [OPS[rot % 5]]
                    else:
                        lit_ops = [OPS[rot % 5], OPS[(rot + 2) % 5]] if small else []
                    for op in OPS:
                        # ints become floats inside the evaluator (eval_number / eval_variable)
                        fl = float(L) if isinstance(L, int) else L
                        fr = float(R) if isinstance(R, int) else R
                        exp = oracle(op, fl, fr)
                        base = 'formula|%s|%s|%s|%s|%d' % (op, kname(lk), kname(rk), flavour, d)
                        settle('formula %s (array-valued variables)' % op, base + '|var', exp, evaluate('x%sy' % op, {'x': lib(L), 'y': lib(R)}),
                               lambda: "evaluator('x%sy') with x = %s, y = %s" % (op, show(lib(L)), show(lib(R))))
                        if op in lit_ops:
                            f = '%s %s %s' % (flit(L), op, flit(R))
                            settle('formula %s (array literals)' % op, base + '|lit', exp, evaluate(f, {}), lambda: 'evaluator(%r)' % f)
    # numpy scalars as variables are made harmless by the evaluator (cast_np_numeric_as_builtin)
    for k in VECS + [(2, 2), (2, 3)] + TENS[:1]:
        A = entries(k, 'real')
        for ty in np_types:
            s = ty(3)
            for op in OPS:
                settle('formula with a numpy-scalar variable', 'npvar|%s|%s|%s' % (op, kname(k), ty.__name__), oracle(op, complex(s) if ty is np.complex128 else float(s), A),
                       evaluate('s%sA' % op, {'s': s, 'A': lib(A)}), lambda: "evaluator('s%sA') with s = np.%s(3), A = %s" % (op, ty.__name__, show(lib(A))))
    # division by the scalar zero is refused, not inf/nan
    for k in VECS[:1] + [(2, 2), (2, 3)] + TENS[:1]:
        A = entries(k, 'real')
        for f, v in (('A/0', {}), ('A/z', {'z': 0.0}), ('A/(1-1)', {}), ('%s/0' % flit(A), {})):
            vv = dict(v)
            vv['A'] = lib(A)
            settle('formula / (division by zero)', 'div0|%s|%s' % (kname(k), f[:4]), ('error',), evaluate(f, vv), lambda: "evaluator(%r) with A = %s" % (f, show(lib(A))))

    # ============ 6. product chains ==================================================================================
    chain_kinds = ['float', 'complex', (2,), (3,), (2, 2), (2, 3), (3, 2), (1, 2), (2, 1)]
    names = 'pqrwu'

    def render(node, counter):
        if not (isinstance(node, tuple) and len(node) == 3 and node[0] == 'chain'):
            counter.append(node)
            return names[len(counter) - 1]
        parts = []
        for i, sub in enumerate(node[1]):
            s = render(sub, counter)
            if isinstance(sub, tuple) and len(sub) == 3 and sub[0] == 'chain':
                s = '(' + s + ')'
            parts.append(s if i == 0 else node[2][i - 1] + s)
        return ''.join(parts)

    def chain_case(contract, key, node, kinds, literal=False):
        leaves = []
        formula = render(node, leaves)
        exp = chain_oracle(node)
        if literal:
            for nm, v in zip(names, leaves):
                formula = formula.replace(nm, flit(v))
            got = evaluate(formula, {})
        else:
            got = evaluate(formula, {nm: lib(v) for nm, v in zip(names, leaves)})
        settle(contract, key, exp, got, lambda: 'evaluator(%r)%s' % (formula, '' if literal else ' with ' + ', '.join('%s = %s' % (nm, show(lib(v))) for nm, v in zip(names, leaves))))

    def groupings(vals, ops):
        n = len(vals)
        yield 'flat', ('chain', list(vals), list(ops))
        yield 'left', ('chain', [('chain', list(vals[:2]), list(ops[:1]))] + list(vals[2:]), list(ops[1:]))
        yield 'right', ('chain', list(vals[:n - 2]) + [('chain', list(vals[n - 2:]), list(ops[n - 2:]))], list(ops[:n - 2]))
        if n >= 4:
            yield 'mid', ('chain', [vals[0], ('chain', list(vals[1:3]), list(ops[1:2]))] + list(vals[3:]), [ops[0]] + list(ops[3 - 1:]))
            yield 'pairs', ('chain', [('chain', list(vals[:2]), list(ops[:1])), ('chain', list(vals[2:4]), list(ops[2:3]))] + list(vals[4:]), [ops[1]] + list(ops[3:]))
            yield 'tail', ('chain', [vals[0], ('chain', list(vals[1:]), list(ops[1:]))], [ops[0]])

    def product(kinds_list, length):
        if length == 0:
            yield ()
            return
        for head in kinds_list:
            for rest in product(kinds_list, length - 1):
                yield (head,) + rest

    for length in (3, 4):
        op_patterns = [('*',) * (length - 1)] + ([('*', '/'), ('/', '*')] if length == 3 else [('*', '*', '/'), ('*', '/', '*')])
        for kinds in product(chain_kinds, length):
            nvec = sum(1 for k in kinds if not isinstance(k, str) and len(k) == 1)
            for pi, ops in enumerate(op_patterns):
                if pi > 0 and (nvec < 2 or (length == 4 and rnd.random() < 0.5 and tier == 'quick')):
                    continue
                vals = [operand(k, 'complex' if (nvec + pi + len(kinds[0])) % 3 == 0 else 'real') for k in kinds]
                for gname, node in groupings(vals, ops):
                    if length == 4 and nvec < 2 and gname not in ('flat', 'mid'):
                        continue
                    chain_case('product chain of %d operands' % length, 'chain|%s|%s|%s' % ('.'.join(kname(k) for k in kinds), ''.join(ops), gname), node, kinds)
    lit_kinds = ['float', (2,), (2, 2), (1, 2), (2, 1)]
    for kinds in product(lit_kinds, 3):
        vals = [operand(k, 'real') for k in kinds]
        for gname, node in groupings(vals, ('*', '*')):
            chain_case('product chain (array literals)', 'chainlit|%s|%s' % ('.'.join(kname(k) for k in kinds), gname), node, kinds, literal=True)
    if tier == 'thorough':
        for n in range(6000):
            kinds = tuple(rnd.choice(chain_kinds) for _ in range(5))
            ops = tuple(rnd.choice('***/') for _ in range(4))
            vals = [operand(k, rnd.choice(['real', 'complex'])) for k in kinds]
            g = list(groupings(vals, ops))
            gname, node = g[rnd.randrange(len(g))]
            chain_case('product chain of 5 operands', 'chain5|%d|%s|%s|%s' % (n, '.'.join(kname(k) for k in kinds), ''.join(ops), gname), node, kinds)

    # ============ 7. ragged literals ===================================================================================
    ragged = ['[[1,2],[3]]', '[1,[2,3]]', '[[1,2],3]', '[[1,2],[3,4,5]]', '[[[1,2],[3,4]],[[5,6]]]', '[[[1,2],[3,4]],[5,6]]', '[[1],[2,3],[4]]', '[[1,2],[[3,4]]]']
    for m, n in MATS:
        if m >= 2:
            for r in range(m):
                rows = [[float(rs.randint(1, 9)) for _ in range(n)] for _ in range(m)]
                rows[r] = rows[r] + [1.0] if (r + n) % 2 else (rows[r][:-1] or [1.0, 2.0])
                ragged.append('[' + ','.join('[' + ','.join(repr(x) for x in row) + ']' for row in rows) + ']')
    for ri, lit in enumerate(ragged):
        for wi, wrap in enumerate(('%s', '%s*[1,2]', '2*%s', '%s+%s', '[1,2]*%s', '%s^2')):
            f = wrap.replace('%s', lit)
            settle('ragged array literal', 'ragged|%d|%d' % (ri, wi), ('error',), evaluate(f, {}), lambda: 'evaluator(%r)' % f)

    # ============ 8. MatrixGrader negative_powers =======================================================================
    def verdict(g, s):
        r = call(lambda: g(None, s))
        if r[0] == 'value':
            return ('graded', r[1].get('ok'))
        return r

    n_seq = 25 if tier == 'quick' else 150
    for q in range(n_seq):
        n = rnd.choice([2, 2, 3])
        A = np.round(entries((n, n), 'real'), 2)
        inv = np.linalg.inv(A)
        kw = dict(max_array_dim=2, tolerance='0.0001%')
        graders = {}
        for k, a in ((1, inv), (2, mat_power(A, -2).real)):
            graders[('on', k)] = mgm.MatrixGrader(answers=flit(a), **kw)
            graders[('onx', k)] = mgm.MatrixGrader(answers=flit(a), negative_powers=True, **kw)
            graders[('off', k)] = mgm.MatrixGrader(answers=flit(a), negative_powers=False, **kw)
        off_pos = mgm.MatrixGrader(answers=flit(mat_power(A, 2).real), negative_powers=False, **kw)
        off_var = mgm.MatrixGrader(answers=flit(inv), variables=['B'], sample_from={'B': [1, 2]}, negative_powers=False, samples=2, **kw)
        plain = fgm.FormulaGrader(answers=flit(inv), max_array_dim=2, tolerance='0.0001%')
        steps = []
        for _ in range(10):
            kind = rnd.choice(['on', 'onx', 'off', 'off', 'off-raises', 'off-pos', 'direct', 'plain', 'off-scalar', 'off-var'])
            steps.append(kind)
        for si, kind in enumerate(steps):
            key = 'negpow|%d|%d|%s' % (q, si, kind)
            hist = 'sequence %r step %d, A = %s' % (steps[:si + 1], si, flit(A))
            if kind in ('on', 'onx', 'off'):
                k = rnd.choice([1, 2])
                form = rnd.choice(['%s^-%d', '%s^(-%d)', '%s^(-%d.0)', '%s^(0-%d)', '%s^(-%d*1)', '(%s)^-%d'])
                s = form % (flit(A), k)
                got = verdict(graders[(kind, k)], s)
                good = (got == ('graded', True)) if kind != 'off' else (got[0] == 'error' or got == ('graded', False))
                what = 'MatrixGrader(negative_powers=%s) graded %r: %r, expected %s' % (kind != 'off', s, got, 'correct' if kind != 'off' else 'a student-facing refusal')
            elif kind == 'off-raises':
                got = verdict(graders[('off', 1)], rnd.choice(['[1,2]+[1,2,3]', '[[1,2],[3,4]]^0.5', '[1,2', '[[1,2],[3]]', 'nosuchvar']))
                good = got[0] == 'error'
                what = 'a faulty submission to MatrixGrader(negative_powers=False): %r, expected a student-facing error' % (got,)
            elif kind == 'off-pos':
                s = rnd.choice(['%s^2', '%s^2.0', '%s*%s^1', '%s^0*%s^2', '%s^(3-1)']).replace('%s', flit(A))
                got = verdict(off_pos, s)
                good = got == ('graded', True)
                what = 'MatrixGrader(negative_powers=False) graded the non-negative power %r: %r, expected correct' % (s, got)
            elif kind == 'off-scalar':
                s = '2^-1*2*%s^2*4^(-0.5)*2' % flit(A)
                got = verdict(off_pos, s)
                good = got == ('graded', True)
                what = 'MatrixGrader(negative_powers=False) graded %r (negative powers of numbers only): %r, expected correct' % (s, got)
            elif kind == 'off-var':
                got = verdict(off_var, 'B*%s^-1/B' % flit(A))
                good = got[0] == 'error' or got == ('graded', False)
                what = 'MatrixGrader(negative_powers=False, variables=[B]) graded B*A^-1/B: %r, expected a student-facing refusal' % (got,)
            elif kind == 'plain':
                got = verdict(plain, '%s^-1' % flit(A))
                good = got == ('graded', True)
                what = 'FormulaGrader graded A^-1 after %r: %r, expected correct' % (steps[:si], got)
            else:
                got = call(lambda: lib(A) ** -1)
                good = judge(('value', inv), got) is None and MA.MathArray._negative_powers is True
                what = 'MathArray ** -1 outside any grader after %r: %r' % (steps[:si], got)
            if good:
                if 'negative_powers' not in sampled:
                    sampled.add('negative_powers')
                    t.ok('MatrixGrader negative_powers', '%s|%s' % (tag, key), sample={'sequence': steps, 'step': si})
                else:
                    t.ok('MatrixGrader negative_powers', '%s|%s' % (tag, key))
            else:
                t.fail('MatrixGrader negative_powers', '%s|%s' % (tag, key), '%s: %s' % (hist, what))
    # the switch also holds when other machinery runs inside the grader's call (dependent samplers, user functions, sibling lists)
    SM = rtcheck.real_module('mitxgraders/sampling.py')
    for label, extra in (('dependent sampler', dict(variables=['c'], sample_from={'c': SM.DependentSampler(formula='2')})),
                         ('dependent sampler (matrix formula)', dict(variables=['C'], sample_from={'C': SM.DependentSampler(formula='[[1,0],[0,2]]^2')})),
                         ('user function', dict(user_functions={'f': lambda z: z}))):
        for npow in (False, True):
            try:
                gm = mgm.MatrixGrader(answers='[[1, 0], [0, 1]]', max_array_dim=2, negative_powers=npow, **extra)
                r = gm(None, '[[2, 0], [0, 4]]^3*[[2, 0], [0, 4]]^-3')
                got = ('graded', r['ok'])
            except exc.StudentFacingError as e:
                got = ('refused', str(e)[:60])
            except Exception as e:
                got = ('foreign ' + type(e).__name__, str(e)[:60])
            ok = (got == ('graded', True)) if npow else (got[0] == 'refused' and 'egative' in got[1])
            ok = ok and MA.MathArray._negative_powers is True
            (t.ok if ok else t.fail)('MatrixGrader negative_powers', 'nested|%s|%s' % (label, npow), *([] if ok else [
                'MatrixGrader(negative_powers=%s) with a %s graded A^3*A^-3: %r (flag afterwards: %r), expected %s' % (
                    npow, label, got, MA.MathArray._negative_powers, 'correct' if npow else "the refusal 'Negative matrix powers have been disabled.'")]))
            MA.MathArray._negative_powers = True
    # the context manager itself
    A = entries((3, 3), 'real')
    for e in (-1, -2, -1.0, -3):
        with M.enable_negative_powers(False):
            got = call(lambda: lib(A) ** e)
        settle('enable_negative_powers(False)', 'ctx|%r|inside' % e, ('error',), got, lambda: 'A ** %r inside enable_negative_powers(False)' % e)
        settle('enable_negative_powers(False)', 'ctx|%r|after' % e, oracle('^', A, e), call(lambda: lib(A) ** e), lambda: 'A ** %r after the block' % e)
    for e in (0, 1, 2, 3.0):
        with M.enable_negative_powers(False):
            got = call(lambda: lib(A) ** e)
        settle('enable_negative_powers(False)', 'ctx|%r|nonneg' % e, oracle('^', A, e), got, lambda: 'A ** %r inside enable_negative_powers(False)' % e)
    try:
        with M.enable_negative_powers(False):
            raise KeyError('x')
    except KeyError:
        pass
    settle('enable_negative_powers(False)', 'ctx|after exception', oracle('^', A, -1), call(lambda: lib(A) ** -1), lambda: 'A ** -1 after a block left by an exception')

    return t.report(rule="all 625 ordered pairs of 25 operand kinds (3 number types, vectors 2..4, the 15 matrix shapes up to 4 x 4 with more than one element, 4 three-axis tensors) x "
                         "+ - * / ^ with random real, complex and integer entries, through MathArray operators (binary, in-place, reflected via operator and via __r*__), through "
                         "evaluator() with array-valued variables and with array literals; scalar zero and numpy scalars on either side; 33 exponents x every array shape; exactly singular "
                         "matrices; all product chains of 3 and 4 operands over 9 operand kinds flat and parenthesised; ragged literals; MatrixGrader negative_powers on/off in random "
                         "interleavings.  The oracle is written from the statement on plain ndarrays (explicit shape tests, einsum contractions, repeated products of np.linalg.inv): "
                         "'error' outcomes must be StudentFacingError subclasses, 'value' outcomes must be a number / a MathArray of exactly the oracle's shape with entries within "
                         "1e-9 relative.  distinct = distinct (check, case) keys",
                    bounds={'operand kinds': len(KINDS), 'ordered pairs': len(KINDS) ** 2, 'entry draws per cell': draws, 'exponents': len(exponents),
                            'chain lengths': '3, 4' + (', 5 (sampled)' if tier == 'thorough' else ''), 'grader sequences': n_seq},
                    exhaustive=False)


def replay(case):
    key = case.get('key') or ''
    m = re.search(r'#([qt])(\d+)\|', key)
    tier, seed = ('thorough' if m.group(1) == 't' else 'quick', int(m.group(2))) if m else ('quick', 0)
    out = run(tier, seed)
    hit = [f for f in out['failures'] if f['key'] == key]
    return {'reproduced': bool(hit), 'case': hit[:1]}
