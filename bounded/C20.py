"""
Bounded stand-in for C20 (never counted as proved): configuration validation against the DOCUMENTED option domains.

For each public class with a configuration (8 graders, 8 samplers of sampling.py, 10 of matrixsampling.py, 3 credit schedules, 3 comparer classes) a table,
transcribed from docs/*.md and the class docstrings (not from the schemas), gives per option: documented default, a pool of in-domain values (with the
documented canonical form of the stored value) and a pool of out-of-domain values (wrong type, out of range, wrong length, wrong container, None/bool where
not allowed).  Swept: (a) every single-option deviation from the minimal configuration, in keyword and in dictionary form; (b) defaults of every option;
(c) unknown option names; (d) kwargs/dict equivalence and "a dictionary wins over keyword arguments"; (e) Cls(obj.config) == obj with equal config;
(f) every documented answers format -> canonical tuple of {expect, grade_decimal, msg, ok}; (g) every cross-option rule violated and satisfied
(SquareMatrices exhaustively over symmetry x traceless x determinant x dimension x complex); (h) random multi-option combinations, half of them with one
out-of-domain value; (i) the author's dictionary is never modified (deep snapshot before/after) whether construction succeeds or fails; (j) registered
defaults (plugins.md).  Oracle: in-domain => constructed and config as documented; out-of-domain => mitxgraders ConfigError or a voluptuous Error, any other
exception type or silent acceptance is a failure.  Values on which the documentation is silent or self-contradictory are in neither pool (commented).
The options present in obj.config / schema_config are enumerated at run time; an option without a table row is a failure.
"""
import math
import random
import re
import sys
import numpy as np
from bounded._common import Tally, rtcheck, load_contracts

ASSUMPTIONS = ["bounded tier: pools of 2-8 in-domain and 3-10 out-of-domain values per option; all single-option deviations (both call forms); "
               "60 (quick) / 2000 (thorough) random multi-option combinations per class with 2-4 options each; SquareMatrices cross rules exhaustive "
               "over 6x2x3x3x2 combinations; IntegralGrader skipped (needs scipy)"]

SKIP = type('SKIP', (), {'__repr__': lambda s: 'SKIP'})()          # stored form not documented: not compared
ABSENT = type('ABSENT', (), {'__repr__': lambda s: 'ABSENT'})()    # documented as having no default: key absent unless supplied
REQUIRED = type('REQUIRED', (), {'__repr__': lambda s: 'REQUIRED'})()  # documented as required: omission is rejected
_SAME = object()


class G(object):
    """an in-domain value: v, the documented stored form (default: v itself), companion options it needs (ctx)"""
    def __init__(self, v, canon=_SAME, ctx=None):
        self.v, self.canon, self.ctx = v, (v if canon is _SAME else canon), (ctx or {})


class B(object):
    """an out-of-domain value with companion options"""
    def __init__(self, v, ctx=None):
        self.v, self.ctx = v, (ctx or {})


class Row(object):
    def __init__(self, default, good=(), bad=(), eq=None, h=True, why=''):
        self.default = default
        self.good = [g if isinstance(g, G) else G(g) for g in good]
        self.bad = [b if isinstance(b, B) else B(b) for b in bad]
        self.eq, self.h, self.why = eq, h, why


class Spec(object):
    def __init__(self, name, cls, kind, rows, base=None, derive=None, cross=None, positional=None, revalidates=True):
        self.name, self.cls, self.kind, self.rows = name, getattr(cls, 'cls', cls), kind, rows
        self.base = base or (lambda: {})
        self.derive, self.cross, self.positional, self.revalidates = derive, cross, positional, revalidates
        if positional:
            positional['good'] = [g if isinstance(g, G) else G(g) for g in positional['good']]
            positional['bad'] = [b if isinstance(b, B) else B(b) for b in positional['bad']]


# ---------------------------------------------------------------------------------------------------------------- structural helpers
def is_ows(x):
    return hasattr(x, 'config') and hasattr(x, 'schema_config') and not isinstance(x, type)


def snap(x):
    """deep structural snapshot: containers by structure, configured library objects by class and configuration, arrays by value, other leaves by ==/identity"""
    if isinstance(x, dict):
        return ('dict', tuple(sorted(((repr(k), snap(v)) for k, v in x.items()), key=lambda kv: kv[0])))
    if isinstance(x, list):
        return ('list', tuple(snap(v) for v in x))
    if isinstance(x, tuple):
        return ('tuple', tuple(snap(v) for v in x))
    if isinstance(x, np.ndarray):
        return ('array', x.shape, tuple(np.asarray(x).ravel().tolist()))
    if is_ows(x):
        return ('obj', type(x).__name__, snap(x.config))
    if isinstance(x, (bool, int, float, complex, str)) or x is None:
        return x
    return ('ref', id(x))


def desc(x):
    """deterministic short description (no addresses) used in keys and messages"""
    if isinstance(x, dict):
        return '{' + ', '.join('%s: %s' % (desc(k), desc(v)) for k, v in sorted(x.items(), key=lambda kv: repr(kv[0]))) + '}'
    if isinstance(x, list):
        return '[' + ', '.join(desc(v) for v in x) + ']'
    if isinstance(x, tuple):
        return '(' + ', '.join(desc(v) for v in x) + (',)' if len(x) == 1 else ')')
    if isinstance(x, np.ndarray):
        return 'array(%s)' % (np.asarray(x).tolist(),)
    if is_ows(x):
        c = x.config
        if isinstance(c, dict) and len(c) > 4:
            return type(x).__name__ + '(...)'
        return '%s(%s)' % (type(x).__name__, desc(c))
    if isinstance(x, type):
        return 'class ' + x.__name__
    if callable(x):
        return 'fn:' + getattr(x, '__name__', type(x).__name__)
    return repr(x)


def clone(x):
    """fresh containers, same leaves (so that a mutation of one case cannot leak into the next)"""
    if isinstance(x, dict):
        return {k: clone(v) for k, v in x.items()}
    if isinstance(x, list):
        return [clone(v) for v in x]
    if isinstance(x, tuple):
        return tuple(clone(v) for v in x)
    return x


def eq_plain(got, want):
    return snap(got) == snap(want)


def eq_percent(got, want):
    """tolerances: a percentage is the same percentage however it is spelled ('5%' / '5.0%')"""
    def pc(v):
        return float(v.strip()[:-1]) if isinstance(v, str) and v.strip().endswith('%') else None
    if pc(got) is not None or pc(want) is not None:
        return pc(got) is not None and pc(want) is not None and abs(pc(got) - pc(want)) < 1e-12
    return isinstance(got, (int, float)) and not isinstance(got, bool) and got == want


def eq_range(got, want):
    """[start, stop] and {'start': start, 'stop': stop} are documented as the same range"""
    def norm(v):
        if isinstance(v, dict) and set(v) == {'start', 'stop'}:
            return (v['start'], v['stop'])
        if isinstance(v, (list, tuple)) and len(v) == 2:
            return tuple(v)
        return ('?', snap(v))
    return norm(got) == norm(want)


def eq_shape(got, want):
    """shape specifications are standardised to tuples: 3, [3], (3,) are the same shape"""
    def norm(v):
        return tuple(v) if isinstance(v, (list, tuple)) else (v,)
    return isinstance(got, tuple) and norm(got) == norm(want)


def eq_empty(got, want):
    return isinstance(got, (list, tuple)) and len(got) == 0


# ---------------------------------------------------------------------------------------------------------------- the table (from the documentation)
def _sq(x):
    return x * x


def _cube(x):
    return x * x * x


def _credit(attempt):
    return 1.0 / attempt


def _comparer3(comparer_params_eval, student_eval, utils):
    return True


def _comparer2(comparer_params_eval, student_eval):
    return True


def BOOL(default):
    # "bool": True/False; 1/0, None, strings and containers are a different type
    return Row(default, good=[True, False], bad=[1, 0, None, 'True', 'yes', [], [True]])


def STR(default, good=('Try again!', ''), extra_bad=()):
    return Row(default, good=list(good), bad=[5, None, ['a'], True, {'a': 1}] + list(extra_bad))


def POSINT(default, good=(1, 2, 3, 10)):
    # "positive int" / number of samples, terms, dimensions: zero, negatives, floats (even integral ones), strings, None are out
    return Row(default, good=list(good), bad=[0, -1, 2.5, 2.0, '2', None, [2]])


def NONNEGINT(default, good=(0, 1, 3, 100)):
    # "int >= 0"
    return Row(default, good=list(good), bad=[-1, 1.5, 2.0, '3', None, [1]])


def RANGE(default, good=None):
    # "[start, stop]" (list) or {'start':..., 'stop':...}: wrong length, non-numbers, scalars, None are out
    good = good if good is not None else [[1, 1], [5, 10], [0, 0.5], {'start': 2, 'stop': 3}]
    return Row(default, good=good, bad=[[1], [1, 2, 3], [], 'ab', 5, None, ['a', 'b'], {'start': 'a', 'stop': 2}, {'begin': 1, 'end': 2}], eq=eq_range)


def build_specs(L):
    """L: namespace with the library's public classes.  Every entry is justified from docs/*.md or the class docstring (quoted briefly)."""
    RI, DS = L.RealInterval, L.DiscreteSet
    specs = []
    ident2 = L.identity(2)
    arr = L.MathArray([[1, 2], [3, 4]])

    # ---- graders.md: "A few configuration options are available to all grading classes"
    def abstract_rows():
        return {
            'debug': BOOL(False),                                   # "By default, debug=False"
            'suppress_warnings': BOOL(False),                       # docstring "(default False)"
            # "attempt_based_credit=(None | function), # default None"; the three provided schedules and "you can of course write your own"
            'attempt_based_credit': Row(None, good=[None, L.LinearCredit(), L.GeometricCredit(), L.ReciprocalCredit(), _credit],
                                        bad=[5, 0.5, 'LinearCredit', True, [_credit], {'f': _credit}]),
            'attempt_based_credit_msg': BOOL(True),                 # "attempt_based_credit_msg=bool, # default True"
        }

    def item_rows():
        rows = abstract_rows()
        # item_grader.md: "answers=(str, dict, (str, dict))", "Not required, as answers can be provided later"; formats are swept in check (f)
        rows['answers'] = Row((), h=False)
        rows['wrong_msg'] = STR('')                                 # "wrong_msg=str, # default ''"
        return rows

    # ---- string_grader.md option listing
    rows = item_rows()
    for k, d in (('case_sensitive', True), ('strip', True), ('clean_spaces', True), ('strip_all', False), ('accept_any', False), ('accept_nonempty', False)):
        rows[k] = BOOL(d)
    rows['min_words'] = NONNEGINT(0)                                # "min_words=int >= 0, # default 0"
    rows['min_length'] = NONNEGINT(0)
    expl = lambda: Row('err', good=['err', 'msg', None], bad=['error', 'ERR', '', True, 0, ['err']])     # "('err', 'msg', None), # default 'err'"
    rows['explain_minimums'] = expl()
    rows['explain_validation'] = expl()
    # "validation_pattern=str, # default None" (docstring: "str or None"); syntactically invalid patterns: documentation silent, in neither pool
    rows['validation_pattern'] = Row(None, good=[r'\d+', 'cat|dog', r'([CNOH](_[0-9])?)+', None], bad=[5, ['a'], True, {'p': 1}])
    rows['invalid_msg'] = STR('Your input is not in the expected format', good=['Bad format', ''])
    specs.append(Spec('StringGrader', L.StringGrader, 'grader', rows))

    # ---- formula_grader.md "Options Listing" + FormulaGrader docstring
    def math_rows(samples_default=5, tolerance_default='0.01%', matrix=False):
        r = {}
        fsin, fcos = np.sin, np.cos
        # "user_functions=dict"; values: a function, "a list of functions to randomly choose from", "RandomFunction()" / a function sampling set
        r['user_functions'] = Row({}, good=[{}, {'f': _sq}, {"f''": _sq, 'g': _cube}, {'my_func2': _sq},
                                            G({'f': [fsin, fcos]}, {'f': L.SpecificFunctions([fsin, fcos])}),     # sampling.md: "Equivalent sampling set specified as a list"
                                            {'f': L.RandomFunction()}, {'f': L.SpecificFunctions(_sq)}],
                                  bad=[[_sq], _sq, 'f', None, 5, {'f': 5}, {'f': 'sin'}, {'f': []}, {'f': [5]}, {5: _sq}, {'f': RI()}, {'f': None}])
        # "user_constants=dict", "Eg: {'c': 3e10}"; "remove a default constant ... by setting it to None" (stored form of a removal not documented)
        consts = [{}, {'c': 3e8}, {'T': 1.5, 'kB': 2}, {'w': 1 + 2j}, G({'i': None, 'j': None}, SKIP)]
        if matrix:
            consts += [{'I_2': ident2}, {'A': arr}]                 # matrix_grader.md: user_constants={'I_2': identity(2)}
        r['user_constants'] = Row({}, good=consts, bad=[[('c', 1)], 5, 'c', None, {'c': '3'}, {'c': [1, 2]}, {5: 1}, {'c': _sq}])
        # "blacklist ([str])", "whitelist ([str or None]) ... To disallow all functions, use [None]"
        r['blacklist'] = Row([], good=[[], ['sin'], ['sin', 'cos']], bad=['sin', [1], [None], ('sin',), None, 5, {'sin': 1}])
        r['whitelist'] = Row([], good=[[], ['sin', 'cos'], ['sin'], [None]], bad=['sin', [1], ('sin',), None, 5, {'sin': 1}])
        # "Tolerances must be nonnegative numbers or percentages"; "(eg, 0.1) ... (eg, '0.01%')"; "Zero tolerance should be used sparingly" (so 0 is allowed)
        # complex numbers are numbers but not "nonnegative": out.  Padded strings such as ' 5% ': documentation silent, in neither pool.
        r['tolerance'] = Row(tolerance_default, good=[0.1, 0, 1e-5, 1, 2, '0.01%', '5%', '0%', '12.5%'],
                             bad=[-0.1, -1, '-1%', 'abc', '5', '%', 'five%', None, [0.1], {'tol': 1}, 1j], eq=eq_percent)
        r['samples'] = POSINT(samples_default, good=[1, 2, 10, 100])         # "samples=int"; number of samples: zero/negative samples make no sense
        # "variables=list", "a list of strings of each variable name"
        r['variables'] = Row([], good=[[], ['x'], ['x', 'y', 'z'], ['theta', "x'", 'v_{1}']], bad=['x', ('x',), [1], [None], None, 5, {'x': 1}, [['x']]])
        r['numbered_vars'] = Row([], good=[[], ['a'], ['a', 'b']], bad=['a', ('a',), [1], [None], None, 5, {'a': 1}])
        # "sample_from key must be a dictionary of 'variable_name': sampling_set pairs. You can specify a sampling set, a real interval, or a discrete set"
        # sampling.md: "sampler = [3, 7]" is RealInterval([3, 7]); "sampler = 3.5" is DiscreteSet(3.5); "A tuple can also be used to specify a discrete set"
        vx = {'variables': ['x', 'y']}
        r['sample_from'] = Row({}, good=[{}, G({'x': [2, 6]}, {'x': RI([2, 6])}, vx), G({'x': L.ComplexRectangle()}, _SAME, vx),
                                         G({'x': (1, 3, 4, 8)}, {'x': DS((1, 3, 4, 8))}, vx), G({'x': 3.5}, {'x': DS(3.5)}, vx),
                                         G({'x': RI([1, 2]), 'y': L.IntegerRange()}, _SAME, vx), G({'y': L.DependentSampler(formula='x+1')}, _SAME, vx),
                                         G({'a': [-10, 10]}, {'a': RI([-10, 10])}, {'numbered_vars': ['a']}), G({'x': L.RealVectors()}, _SAME, vx)],
                               bad=[[('x', [1, 2])], 'x', 5, None, B({'x': 'abc'}, vx), B({'x': [1, 2, 3]}, vx), B({'x': [1]}, vx), B({'x': ['a', 'b']}, vx),
                                    B({'x': L.RandomFunction()}, vx), B({'x': _sq}, vx), B({'q': [1, 2]}, vx), B({'x': [1, 2]}, {'variables': []})])
        r['failable_evals'] = NONNEGINT(0, good=[0, 1, 3])                   # "failable_evals=int"; "The number of samples that may disagree"
        r['instructor_vars'] = Row([], good=[[], ['phi'], ['pi', 'e']], bad=['phi', [1], ('phi',), None, 5])
        r['forbidden_strings'] = Row([], good=[[], ['*theta', 'theta*'], ['x+y']], bad=['x+y', [1], ('a',), None, 5])
        r['forbidden_message'] = STR('Invalid Input: This particular answer is forbidden', good=['No!', ''])
        r['required_functions'] = Row([], good=[[], ['sin', 'cos']], bad=['sin', [1], ('sin',), None, 5])
        r['metric_suffixes'] = BOOL(False)
        return r

    def math_derive(cfg, exp):
        # "Each is sampled from a sampling set, which is RealInterval() by default"
        given = exp.get('sample_from')
        if given is SKIP:
            return
        names = list(cfg.get('variables', [])) + list(cfg.get('numbered_vars', []))
        exp['sample_from'] = {v: (given or {}).get(v, RI()) for v in names}

    def math_cross(cfg):
        if cfg.get('whitelist') and cfg.get('blacklist'):
            return 'whitelist and blacklist both given'              # "You cannot use a whitelist and a blacklist at the same time."
        return None

    rows = item_rows()
    rows.update(math_rows())
    rows['allow_inf'] = BOOL(False)                                  # "you can specify allow_inf=True"
    rows['max_array_dim'] = Row(SKIP, why='not documented for FormulaGrader ("Do not use this; use MatrixGrader instead")')
    specs.append(Spec('FormulaGrader', L.FormulaGrader, 'grader', rows, derive=math_derive, cross=math_cross))

    # ---- NumericalGrader docstring: "Configuration options as per FormulaGrader, except: ..."
    rows = item_rows()
    rows.update(math_rows(tolerance_default='5%'))
    rows['allow_inf'] = BOOL(False)
    rows['max_array_dim'] = Row(SKIP, why='not documented for NumericalGrader')
    rows['user_functions'] = Row({}, good=[{}, {'f': _sq}, {"f''": _sq, 'g': _cube}],       # "Cannot have random functions, unlike FormulaGrader"
                                 bad=[{'f': L.RandomFunction()}, {'f': [np.sin, np.cos]}, {'f': L.SpecificFunctions([np.sin, np.cos])}, [_sq], 'f', {'f': 5}, None])
    rows['samples'] = Row(1, good=[1], bad=[2, 5, 0, -1, 1.5, '1', None])                  # "samples (int): Will always be 1"
    rows['variables'] = Row([], good=[[]], bad=[['x'], ['x', 'y'], 'x', None, 5])          # "Will always be an empty list"
    rows['numbered_vars'] = Row([], good=[[]], bad=[['a'], 'a', None, 5])
    rows['sample_from'] = Row({}, good=[{}], bad=[{'x': [1, 2]}, {'x': RI()}, [], None, 5])   # "Will always be an empty dictionary"
    rows['failable_evals'] = Row(0, good=[0], bad=[1, 3, -1, 0.5, '0', None])              # "Will always be 0"
    specs.append(Spec('NumericalGrader', L.NumericalGrader, 'grader', rows, derive=math_derive, cross=math_cross))

    # ---- matrix_grader.md "Configuration Options" + MatrixGrader docstring
    rows = item_rows()
    rows.update(math_rows(matrix=True))
    # "identity_dim: If specified as a positive integer n ... Defaults to None"; 0: neither pool (the sentence is conditional)
    rows['identity_dim'] = Row(None, good=[None, 2, 3, 4], bad=[-1, 2.5, '2', [2], (2, 2)])
    # "max_array_dim (nonnegative int) ... Default is 1"; None: documentation silent, neither pool
    rows['max_array_dim'] = Row(1, good=[0, 1, 2, 3], bad=[-1, 1.5, '1', [1]])
    rows['negative_powers'] = BOOL(True)
    rows['shape_errors'] = BOOL(True)
    rows['suppress_matrix_messages'] = BOOL(False)
    # "answer_shape_mismatch (dict) ... Some or all keys may be set. Unset keys take default values."  'is_raised' (bool) True; 'msg_detail' (None|'type'|'shape') 'type'
    rows['answer_shape_mismatch'] = Row({'is_raised': True, 'msg_detail': 'type'},
                                        good=[{'is_raised': False, 'msg_detail': 'shape'}, G({'is_raised': False}, {'is_raised': False, 'msg_detail': 'type'}),
                                              G({'msg_detail': None}, {'is_raised': True, 'msg_detail': None}), G({}, {'is_raised': True, 'msg_detail': 'type'})],
                                        bad=[{'is_raised': 'no'}, {'is_raised': None}, {'msg_detail': 'full'}, {'msg_detail': True}, {'other': 1}, 'shape', None, [True, 'type'], True])
    # "entry_partial_credit: proportional or a number"; MatrixEntryComparer docstring: "a numeric value between 0 and 1"; "If neither key is provided, equality_comparer is used"
    rows['entry_partial_credit'] = Row(ABSENT, good=['proportional', 0, 0.5, 1, 0.25], bad=['partial', 'Proportional', 1.5, -0.1, 2, [0.5], {'c': 1}])
    rows['entry_partial_msg'] = Row(ABSENT, good=['Some entries are wrong', '', 'x {error_locations}'], bad=[5, ['a'], True])
    # "The FormulaGrader configuration keys that MatrixGrader does not have are: allow_inf"
    rows['allow_inf'] = Row(SKIP, bad=[True, 'yes', 1], why='documented as not available on MatrixGrader')
    specs.append(Spec('MatrixGrader', L.MatrixGrader, 'grader', rows, derive=math_derive, cross=math_cross))

    # ---- sum_grader.md + SumGrader docstring
    sum_answers = lambda: {'lower': '0', 'upper': '10', 'summand': 'n*(n+1)', 'summation_variable': 'n'}
    rows = abstract_rows()
    rows.update(math_rows(samples_default=2, tolerance_default=1e-12))     # "samples (default: 2)" (prose+docstring; the option listing says 1: inconsistent docs), "tolerance ... 1e-12"
    # "answers (dict, required): ... required keys lower, upper, summand, summation_variable, which each take string values"
    rows['answers'] = Row(REQUIRED, good=[sum_answers(), {'lower': '1', 'upper': 'infty', 'summand': '(-1)^((n-1)/2)*x^n/fact(n)', 'summation_variable': 'n'}],
                          bad=[{'lower': '0', 'upper': '10', 'summand': 'n'}, {'lower': 0, 'upper': 10, 'summand': 'n', 'summation_variable': 'n'},
                               dict(sum_answers(), extra='1'), 'n', None, ['0', '10', 'n', 'n'], 5, {}])
    full = {'lower': 1, 'upper': 2, 'summand': 3, 'summation_variable': 4}
    # "any subset of the keys may be specified. Key values should be continuous integers starting at 1, or (default) None"; the empty subset: neither pool
    rows['input_positions'] = Row(full, good=[G({'lower': 1, 'upper': 2, 'summand': 3}, {'lower': 1, 'upper': 2, 'summand': 3, 'summation_variable': None}),
                                              G({'upper': 1, 'summand': 2, 'lower': 3}, {'upper': 1, 'summand': 2, 'lower': 3, 'summation_variable': None}),
                                              G({'summand': 1}, {'lower': None, 'upper': None, 'summand': 1, 'summation_variable': None}),
                                              {'summation_variable': 1, 'summand': 2, 'upper': 3, 'lower': 4},
                                              G({'lower': 1, 'upper': 2, 'summand': None}, {'lower': 1, 'upper': 2, 'summand': None, 'summation_variable': None})],
                                  bad=[{'lower': 1, 'upper': 1}, {'lower': 1, 'upper': 3}, {'lower': 0, 'upper': 1}, {'lower': 2, 'upper': 3}, {'lower': '1'},
                                       {'lower': 1.0}, {'lower': 1, 'middle': 2}, [1, 2, 3, 4], None, 'lower', 4, {'lower': -1}])
    # "infty_val: a large number to be used in place of infinity (default 1e3)": zero and negative numbers are not; documented "(int)" but the documented default is itself a float: floats in neither pool
    rows['infty_val'] = Row(1e3, good=[20, 1000, 15], bad=[0, -5, '100', None, [100]])
    rows['infty_val_fact'] = Row(80, good=[80, 15, 20], bad=[0, -5, '80', None, [80]])
    rows['even_odd'] = Row(0, good=[0, 1, 2], bad=[3, -1, '1', None, 1.5, [1]])          # "0 ... all integers, 1 ... odd, 2 ... even"
    specs.append(Spec('SumGrader', L.SumGrader, 'grader', rows, base=lambda: {'answers': sum_answers()}, derive=math_derive, cross=math_cross))
    return specs, dict(abstract_rows=abstract_rows, item_rows=item_rows)


def build_specs_lists(L, H, specs):
    S = L.StringGrader
    # ---- single_list_grader.md option listing + docstring
    rows = H['item_rows']()
    # "subgrader=ItemGrader()", "(which must be an ItemGrader, and could even be another SingleListGrader)", docstring "(required)"
    rows['subgrader'] = Row(REQUIRED, good=[S(), L.FormulaGrader(variables=['x']), L.NumericalGrader(), L.SingleListGrader(subgrader=S(), delimiter=';')],
                            bad=[L.ListGrader(answers=['a', 'b'], subgraders=S()), 'StringGrader', None, 5, [S()], L.raw.StringGrader, L.LinearCredit(), L.RealInterval()], h=True)
    rows['partial_credit'] = BOOL(True)
    rows['ordered'] = BOOL(False)
    rows['length_error'] = BOOL(False)
    rows['missing_error'] = BOOL(True)
    # "delimiter=str, # default ','"; "We recommend not using multi-character delimiters, but do not disallow it"; the empty string: documentation silent, neither pool
    rows['delimiter'] = Row(',', good=[';', ' ', '|', ';;'], bad=[5, None, [','], True, (',',)])

    def sl_cross(cfg):
        seen, g = [cfg.get('delimiter', ',')], cfg.get('subgrader')
        while isinstance(g, L.raw.SingleListGrader):
            if g.config['delimiter'] in seen:
                return 'nested SingleListGraders share a delimiter'      # "By using different delimiters, it is possible to nest SingleListGraders"
            seen.append(g.config['delimiter'])
            g = g.config['subgrader']
        return None
    specs.append(Spec('SingleListGrader', L.SingleListGrader, 'grader', rows, base=lambda: {'subgrader': S()}, cross=sl_cross))

    # ---- list_grader.md option listing + docstring
    rows = H['abstract_rows']()
    # item_grader.md: "when using a ListGrader, the answers key is required" vs list_grader.md "answers=list, # default []": inconsistent, default not checked; formats in check (f)
    rows['answers'] = Row(SKIP, h=False)
    # "subgraders=(ListGrader, ItemGrader, [ListGrader, ItemGrader])", docstring "(required)"; an empty list of subgraders: documentation silent, neither pool
    rows['subgraders'] = Row(REQUIRED, good=[S(), L.FormulaGrader(variables=['x']), L.SingleListGrader(subgrader=L.NumericalGrader())],
                             bad=['StringGrader', None, 5, (S(), S()), ['x'], [S(), 5], L.raw.StringGrader, L.LinearCredit(), {'a': S()}], h=False)
    rows['partial_credit'] = BOOL(True)
    rows['ordered'] = BOOL(False)
    # "grouping=list, # default []"; "The grouping keys must be integers starting at 1"; valid non-empty groupings are cross-option cases (g)
    rows['grouping'] = Row([], good=[[]], bad=['1,1,2,2', [0, 1], [-1, 1], [1.0, 2.0], ['1', '2'], 5, None, (1, 2), [None], {'1': 1}], h=False)
    specs.append(Spec('ListGrader', L.ListGrader, 'grader', rows, base=lambda: {'subgraders': S(), 'answers': ['cat', 'dog']}))

    # ---- interval_grader.md options listing + docstring
    rows = H['item_rows']()
    # "opening_brackets=str, # default '[('"; the empty string and python lists of characters: documentation unclear, neither pool
    rows['opening_brackets'] = Row('[(', good=['([{', '[', '<('], bad=[5, None, True, {'[': 1}])
    rows['closing_brackets'] = Row('])', good=[')]}', ']', '>)'], bad=[5, None, True, {']': 1}])
    # "delimiter=str, # default ',', must be one character"
    rows['delimiter'] = Row(',', good=[':', ';', '|'], bad=['::', '', 'ab', 5, None, [':']])
    # "The default subgrader is NumericalGrader(tolerance=1e-13, allow_inf=True) ... you may specify your own FormulaGrader or NumericalGrader"; None and MatrixGrader: neither pool
    rows['subgrader'] = Row(L.NumericalGrader(tolerance=1e-13, allow_inf=True), good=[L.FormulaGrader(variables=['a', 'b']), L.NumericalGrader(), L.NumericalGrader(tolerance=0.1)],
                            bad=[S(), 'NumericalGrader', 5, L.SingleListGrader(subgrader=S()), [L.NumericalGrader()], L.raw.NumericalGrader])
    rows['partial_credit'] = BOOL(True)
    for k in ('ordered', 'length_error', 'missing_error'):
        rows[k] = Row(SKIP, why='SingleListGrader option not listed for IntervalGrader')
    specs.append(Spec('IntervalGrader', L.IntervalGrader, 'grader', rows))


def build_specs_samplers(L, specs):
    RI = L.RealInterval
    pi = math.pi
    # ---- sampling.md / RealInterval docstring: "start (float) ... (default 1)", "stop (float) ... (default 5)"; reversed bounds: documentation silent, pools keep start <= stop
    num_bad = ['a', None, [1], 1j, {'v': 1}]
    specs.append(Spec('RealInterval', RI, 'sampler', {'start': Row(1, good=[0, -2, 0.5, 1], bad=num_bad), 'stop': Row(5, good=[5, 7, 10.5, 1], bad=num_bad)},
                      positional=dict(good=[G([3, 7], {'start': 3, 'stop': 7}), G([-2, 4], {'start': -2, 'stop': 4}), G([0, 0.5], {'start': 0, 'stop': 0.5})],
                                      bad=[[1], [1, 2, 3], ['a', 'b'], [], [None, 1], 5, 'ab'])))
    # IntegerRange: "start (int)", "stop (int)"
    int_bad = [1.5, 2.0, 'a', None, [1], 1j]
    specs.append(Spec('IntegerRange', L.IntegerRange, 'sampler', {'start': Row(1, good=[0, -2, 1], bad=int_bad), 'stop': Row(5, good=[5, 7, 1], bad=int_bad)},
                      positional=dict(good=[G([3, 7], {'start': 3, 'stop': 7}), G([-2, 4], {'start': -2, 'stop': 4})], bad=[[1], [1, 2, 3], [1.5, 2], ['a', 'b'], [], 5])))
    # ComplexRectangle: "re (list): Range for the real component (default [1,3])"; dictionary form not documented for re/im: not in the pools
    lst = lambda: [[0, 1], [-5, 0], [1, 4]]
    specs.append(Spec('ComplexRectangle', L.ComplexRectangle, 'sampler', {'re': RANGE([1, 3], lst()), 'im': RANGE([1, 3], lst())}))
    specs.append(Spec('ComplexSector', L.ComplexSector, 'sampler', {'modulus': RANGE([1, 3], [[0, 1], [2, 2], [1, 10]]), 'argument': RANGE([0, pi / 2], [[-pi, pi], [0, 1], [0, 0]])}))
    # DiscreteSet: "Initialize with a single value or a non-empty tuple of values ... numbers and MathArrays"; "we use a tuple instead of a list"
    ident, arr = L.MathArray([[1, 0], [0, 1]]), L.MathArray([[1, 2], [3, 4]])
    specs.append(Spec('DiscreteSet', L.DiscreteSet, 'sampler', {}, base=lambda: 3.5,
                      positional=dict(good=[G(3.142, (3.142,)), G((1, 3, 5, 7, 9)), G(ident, (ident,)), G((ident, arr)), G((1, ident)), G(1 + 2j, (1 + 2j,)), G((2,))],
                                      bad=['a', (), [1, 2], ('a',), (1, 'a'), (None,), _sq, ([1, 2],)], whole=True)))
    # DependentSampler: "simply initialized with the desired formula"; "Anything passed to the depends key is now ignored" (stored depends is the inferred list)
    specs.append(Spec('DependentSampler', L.DependentSampler, 'sampler',
                      {'formula': Row(REQUIRED, good=['sqrt(x^2+y^2+z^2)', '[[x,0],[0,-x^2]]', '5', 'x+1'], bad=[5, None, ['x'], 'x+', '(x', _sq]),
                       'depends': Row(SKIP, good=[G(['x', 'y'], SKIP), G(['q'], SKIP)], why='obsolete, ignored')}, base=lambda: {'formula': 'x+1'}))
    # SpecificFunctions: "Initialize with either a single function, or a list of functions"
    fs = [np.sin, np.cos, np.tan]
    specs.append(Spec('SpecificFunctions', L.SpecificFunctions, 'sampler', {}, base=lambda: _sq,
                      positional=dict(good=[G(_sq, [_sq]), G(fs), G([_sq])], bad=[5, 'sin', [], [5], [np.sin, 5], (np.sin, np.cos), {'f': _sq}], whole=True)))
    # RandomFunction docstring: input_dim/output_dim/num_terms (int; "Number of ..."), center (float, 0), amplitude (float, 10; sign/zero: documentation silent, neither pool), complex (bool, False)
    specs.append(Spec('RandomFunction', L.RandomFunction, 'sampler',
                      {'input_dim': POSINT(1, [1, 2, 3]), 'output_dim': POSINT(1, [1, 2, 3]), 'num_terms': POSINT(3, [1, 2, 5]),
                       'center': Row(0, good=[0, 1, -2.5, 0.5], bad=['a', None, [1], {'c': 0}]), 'amplitude': Row(10, good=[10, 0.5, 2], bad=['a', None, [1]]),
                       'complex': BOOL(False)}))

    # ---- matrixsampling.py docstrings + sampling.md
    norm = lambda: RANGE([1, 5])                                # "norm ([start, stop]) ... list or dictionary ... (default [1, 5])"
    fixed = lambda v: Row(v, good=[v], bad=[not v, 'no', None, 0 if v else 1])      # "complex is always False/True"
    # vectors: "shape can be a plain integer ... if shape is tuple/list, must have length 1; default shape is (3, )"; a single component: documentation silent
    vshape = lambda: Row((3,), good=[4, (4,), [4], 2, (2,)], bad=[0, -1, 2.5, '3', (2, 3), [2, 2], [], (), None, (0,), [2.5], ['3']], eq=eq_shape)
    for nm, cx in (('RealVectors', False), ('ComplexVectors', True)):
        specs.append(Spec(nm, getattr(L, nm), 'sampler', {'shape': vshape(), 'norm': norm(), 'complex': fixed(cx)}))
    # matrices: "shape must be a tuple/list with length 2; default shape is (2, 2)"; "triangular (None, 'upper', 'lower') ... (default None)"
    mshape = lambda: Row((2, 2), good=[[3, 2], (3, 2), (4, 4), [2, 5]], bad=[3, (2,), (2, 2, 2), [0, 2], [2, -1], [2.5, 2], None, '22', [], ['2', '2']], eq=eq_shape)
    tri = lambda: Row(None, good=[None, 'upper', 'lower'], bad=['diag', 'UPPER', True, 0, ['upper']])
    for nm, cx in (('RealMatrices', False), ('ComplexMatrices', True)):
        specs.append(Spec(nm, getattr(L, nm), 'sampler', {'shape': mshape(), 'norm': norm(), 'complex': fixed(cx), 'triangular': tri()}))
    # tensors: "A shape must be provided as a list or tuple of three or more numbers (there is no default)"
    tshape = lambda: Row(REQUIRED, good=[[3, 2, 4], (2, 2, 2, 2), (4, 2, 5)], bad=[3, (2, 2), [2, 2], [0, 1, 2], [2, 2, -1], [2, 2, 2.5], None, '222'], eq=eq_shape)
    for nm, cx in (('RealTensors', False), ('ComplexTensors', True)):
        specs.append(Spec(nm, getattr(L, nm), 'sampler', {'shape': tshape(), 'norm': norm(), 'complex': fixed(cx)}, base=lambda: {'shape': [2, 2, 2]}))
    # square matrices: "dimension (int): Dimension of the matrix (minimum 2)"; "The 'shape' property is not used" (the stored shape is derived: Cls(obj.config) is not claimed)
    dim = lambda: Row(2, good=[2, 3, 4, 7], bad=[1, 0, -1, 2.5, 2.0, '2', None, [2], (2, 2)])
    unused_shape = lambda: Row(SKIP, why="documented as not used")
    # IdentityMatrixMultiples: "sampler: A scalar sampling set ... (default RealInterval([1, 5]))"; md: "sampler=[1, 3]"; DiscreteSet/DependentSampler are not scalar sampling sets
    specs.append(Spec('IdentityMatrixMultiples', L.IdentityMatrixMultiples, 'sampler',
                      {'dimension': dim(), 'norm': norm(), 'complex': BOOL(False), 'shape': unused_shape(),
                       'sampler': Row(RI([1, 5]), good=[G([1, 3], RI([1, 3])), RI([2, 3]), L.IntegerRange(), L.ComplexSector(modulus=[0, 1], argument=[-pi, pi]), L.ComplexRectangle()],
                                      bad=[L.DiscreteSet((1, 2)), L.DependentSampler(formula='x'), L.RealVectors(), (1, 2), 5, 'a', None, [1], [1, 2, 3], L.RandomFunction()])},
                      revalidates=False))
    # SquareMatrices (sampling.md list of options + docstring)
    def sq_derive(cfg, exp):
        if cfg.get('symmetry') in ('hermitian', 'antihermitian'):
            exp['complex'] = True                                # "If 'hermitian' or 'antihermitian' are chosen, 'complex' is set to True"
    specs.append(Spec('SquareMatrices', L.SquareMatrices, 'sampler',
                      {'dimension': dim(), 'norm': norm(), 'complex': BOOL(False), 'shape': unused_shape(), 'traceless': BOOL(False),
                       'determinant': Row(None, good=[None, 0, 1], bad=[2, -1, '1', 0.5, [1]]),
                       'symmetry': Row(None, good=[None, 'diagonal', 'symmetric', 'antisymmetric', 'hermitian', 'antihermitian'], bad=['skew', 'Hermitian', True, 0, ['symmetric']])},
                      derive=sq_derive, cross=square_impossible, revalidates=False))
    for nm in ('OrthogonalMatrices', 'UnitaryMatrices'):        # "unitdet (bool) ... (False, default)"; "The options 'complex' and 'norm' are ignored"
        specs.append(Spec(nm, getattr(L, nm), 'sampler', {'dimension': dim(), 'norm': norm(), 'complex': BOOL(False), 'shape': unused_shape(), 'unitdet': BOOL(False)}, revalidates=False))


def square_impossible(cfg):
    """SquareMatrices docstring: combinations that cannot be generated / do not exist ("If you select such a combination, an error message will result")"""
    sym, det, dim, tl = cfg.get('symmetry'), cfg.get('determinant'), cfg.get('dimension', 2), cfg.get('traceless', False)
    cx = cfg.get('complex', False) or sym in ('hermitian', 'antihermitian')
    if det == 0 and det is not False:
        if tl:
            return 'zero determinant and traceless'              # "This can't be done for traceless matrices"
        if sym == 'antisymmetric' and (cx or dim % 2 == 0):
            return 'zero determinant antisymmetric, complex or even dimension'      # "can't handle zero determinant antisymmetric matrices that are complex, or real in even dimensions"
    if det == 1 and det is not True:
        if dim == 2 and tl and ((sym in ('diagonal', 'symmetric') and not cx) or sym == 'hermitian'):
            return '2x2 traceless unit-determinant real diagonal/symmetric or hermitian'
        if dim % 2 == 1 and sym in ('antisymmetric', 'antihermitian'):
            return 'odd-dimension unit-determinant antisymmetric/antihermitian'
    return None


def build_specs_misc(L, specs):
    # ---- attemptcredit.py docstrings + graders.md
    specs.append(Spec('LinearCredit', L.LinearCredit, 'credit',
                      {'decrease_credit_after': POSINT(1, [1, 2, 5]),          # "(positive int) ... (default 1)"
                       'decrease_credit_steps': POSINT(4, [1, 2, 4, 10]),      # "(positive int) ... (default 4)"
                       'minimum_credit': Row(0.2, good=[0, 0.2, 0.5, 1, 0.0, 1.0], bad=[-0.1, 1.5, 2, -1, '0.2', None, [0.2]])}))     # "(float between 0 and 1) ... (default 0.2)"
    # "factor (float): Number between 0 and 1 inclusive"; default: graders.md says 0.5, the docstring says 0.75 -> inconsistent documentation, default not checked
    specs.append(Spec('GeometricCredit', L.GeometricCredit, 'credit', {'factor': Row(SKIP, good=[0, 0.5, 0.75, 1, 0.1], bad=[-0.5, 1.5, 2, 'a', None, [0.5]])}))
    specs.append(Spec('ReciprocalCredit', L.ReciprocalCredit, 'credit', {}))     # "There are no options to set."
    # ---- comparer_functions.md + LinearComparer docstring.  Credits: "(None | number)"; None for 'equals' and for the messages, the message defaults ('' vs None)
    # and the admissible range of the credits are stated inconsistently or not at all between the page and the docstring: in neither pool / not checked
    credit = lambda d, good: Row(d, good=good, bad=['a', [1], {'c': 1}, 'proportional'])
    msg = lambda d: Row(d, good=['Off by a factor', ''], bad=[5, ['a'], True])
    specs.append(Spec('LinearComparer', L.LinearComparer, 'comparer',
                      {'equals': credit(1.0, [1, 0.5, 0, 1.0]), 'proportional': credit(0.5, [None, 0, 0.3, 1]), 'offset': credit(None, [None, 0, 0.4, 1]),
                       'linear': credit(None, [None, 0, 0.7, 1]), 'equals_msg': msg(SKIP), 'offset_msg': msg(SKIP), 'linear_msg': msg(SKIP),
                       'proportional_msg': msg('The submitted answer differs from an expected answer by a constant factor.')}))
    # EqualityComparer: "transform option allows the author to specify a transforming function"; MatrixEntryComparer docstring
    tr = lambda: Row(SKIP, good=[G(np.real), G(abs), G(None, SKIP)], bad=[5, 'real', [abs], {'f': abs}], why='default None is stored as the identity transform')
    specs.append(Spec('EqualityComparer', L.EqualityComparer, 'comparer', {'transform': tr()}))
    specs.append(Spec('MatrixEntryComparer', L.MatrixEntryComparer, 'comparer',
                      {'transform': tr(),
                       'entry_partial_credit': Row(0, good=['proportional', 0, 0.5, 1, 1.0, 0.25], bad=[1.5, -0.1, 2, 'partial', None, [0.5]]),
                       'entry_partial_msg': Row("Some array entries are incorrect, marked below:\n{error_locations}", good=['', 'x {error_locations}', 'wrong'], bad=[5, None, ['a']])}))


# ---------------------------------------------------------------------------------------------------------------- reference normalisation of answers (item_grader.md)
def ref_norm(raw):
    """item_grader.md / ItemGrader docstring: a single expect value, a dictionary {expect, grade_decimal=1, msg='', ok='computed'}, or a tuple of those;
    'ok' is ignored unless grade_decimal is 1 and is computed from the grade when 'computed'."""
    out = []
    for a in (raw if isinstance(raw, tuple) else (raw,)):
        d = a if (isinstance(a, dict) and 'expect' in a) else {'expect': a}
        exp = d['expect'] if isinstance(d['expect'], tuple) else (d['expect'],)
        grade, msg, ok = d.get('grade_decimal', 1), d.get('msg', ''), d.get('ok', 'computed')
        if ok == 'computed' or grade != 1:
            ok = True if grade == 1 else (False if grade == 0 else 'partial')
        out.append(dict(expect=list(exp), grade=grade, msg=msg, ok=ok))
    return out


def match_answers(got, raw, kind, path='answers'):
    """problems (strings) found when comparing the stored answers with the documented canonical form of raw; kind describes the grader nesting"""
    if kind[0] == 'lg':                                           # ListGrader: a list of item answers, or a tuple of such lists
        lists = raw if isinstance(raw, tuple) else ((raw,) if raw else ())
        if not isinstance(got, tuple) or len(got) != len(lists):
            return ['%s: expected a tuple of %d answer lists, got %s' % (path, len(lists), desc(got)[:120])]
        probs = []
        for i, (gl, rl) in enumerate(zip(got, lists)):
            if not isinstance(gl, list) or len(gl) != len(rl):
                probs.append('%s[%d]: expected a list of %d entries, got %s' % (path, i, len(rl), desc(gl)[:120]))
                continue
            for j, (ge, re_) in enumerate(zip(gl, rl)):
                sub = kind[1][j] if isinstance(kind[1], list) else kind[1]
                probs += match_answers(ge, re_, sub, '%s[%d][%d]' % (path, i, j))
        return probs
    want = ref_norm(raw)
    if not isinstance(got, tuple):
        return ['%s: stored as %s, not a tuple of dictionaries' % (path, type(got).__name__)]
    if len(got) != len(want):
        return ['%s: %d stored answers for %d supplied' % (path, len(got), len(want))]
    probs = []
    for i, (g, w) in enumerate(zip(got, want)):
        p = '%s[%d]' % (path, i)
        if not isinstance(g, dict) or set(g) != {'expect', 'grade_decimal', 'msg', 'ok'}:
            probs.append('%s: not a dictionary with exactly the keys expect, grade_decimal, msg, ok: %s' % (p, desc(g)[:120]))
            continue
        if g['grade_decimal'] != w['grade'] or isinstance(g['grade_decimal'], bool):
            probs.append('%s: grade_decimal %r, expected %r' % (p, g['grade_decimal'], w['grade']))
        if g['msg'] != w['msg']:
            probs.append('%s: msg %r, expected %r' % (p, g['msg'], w['msg']))
        if g['ok'] != w['ok'] or type(g['ok']) is not type(w['ok']):
            probs.append('%s: ok %r, expected %r' % (p, g['ok'], w['ok']))
        if not isinstance(g['expect'], tuple) or len(g['expect']) != len(w['expect']):
            probs.append('%s: expect %s, expected a tuple of %d values' % (p, desc(g['expect'])[:120], len(w['expect'])))
            continue
        for k, (ge, we) in enumerate(zip(g['expect'], w['expect'])):
            pe = '%s.expect[%d]' % (p, k)
            if kind[0] == 'str':
                if ge != we:
                    probs.append('%s: %r, expected %r' % (pe, ge, we))
            elif kind[0] == 'formula':                           # validate_expect doctest: {'comparer_params': [string], 'comparer': default comparer}
                params = [we] if isinstance(we, str) else we['comparer_params']
                if not isinstance(ge, dict) or set(ge) != {'comparer', 'comparer_params'} or ge['comparer_params'] != params or not callable(ge['comparer']):
                    probs.append('%s: %s, expected comparer_params %r with a comparer' % (pe, desc(ge)[:120], params))
                elif isinstance(we, dict) and ge['comparer'] is not we['comparer']:
                    probs.append('%s: the stored comparer is not the supplied one' % pe)
            else:                                                # single-box lists
                delim, sub = kind[1], kind[2]
                if isinstance(we, str):
                    if kind[0] == 'interval':
                        s = we.strip()
                        we = [s[0]] + s[1:-1].split(delim) + [s[-1]]
                    else:
                        we = we.split(delim)
                subs = [('str',), sub, sub, ('str',)] if kind[0] == 'interval' else [sub] * len(we)
                if not isinstance(ge, list) or len(ge) != len(we):
                    probs.append('%s: %s, expected a list of %d entries' % (pe, desc(ge)[:120], len(we)))
                    continue
                for m, (gi, wi) in enumerate(zip(ge, we)):
                    probs += match_answers(gi, wi, subs[m], '%s[%d]' % (pe, m))
    return probs


class _NS(object):
    pass


BROKEN = type('BROKEN', (), {'__repr__': lambda s: 'BROKEN-FIXTURE'})()


class Ctor(object):
    """guarded constructor used for FIXTURES (objects the cases are built from): if the library cannot build a fixture that the documentation
    allows, that is recorded once as a failure and the cases that need the fixture are skipped instead of aborting the whole run"""
    def __init__(self, cls, sink):
        self.cls, self.sink, self.__name__ = cls, sink, cls.__name__

    def __call__(self, *a, **kw):
        try:
            return self.cls(*a, **kw)
        except Exception as e:
            self.sink.append(('%s(%s)' % (self.cls.__name__, ', '.join([desc(x) for x in a] + ['%s=%s' % (k, desc(v)) for k, v in sorted(kw.items())])), e))
            return BROKEN


def has_broken(x):
    if x is BROKEN:
        return True
    if isinstance(x, dict):
        return any(has_broken(v) for v in x.values())
    if isinstance(x, (list, tuple)):
        return any(has_broken(v) for v in x)
    return False


def library():
    """the library's public classes, always through rtcheck.real_module (honours VERIF_REPO)"""
    L = _NS()
    mods = ['mitxgraders/baseclasses.py', 'mitxgraders/stringgrader.py', 'mitxgraders/listgrader.py', 'mitxgraders/formulagrader/formulagrader.py',
            'mitxgraders/formulagrader/matrixgrader.py', 'mitxgraders/formulagrader/intervalgrader.py', 'mitxgraders/formulagrader/integralgrader.py',
            'mitxgraders/sampling.py', 'mitxgraders/matrixsampling.py', 'mitxgraders/attemptcredit.py', 'mitxgraders/comparers/__init__.py',
            'mitxgraders/helpers/calc/__init__.py', 'mitxgraders/exceptions.py']
    want = ['ObjectWithSchema', 'AbstractGrader', 'ItemGrader', 'StringGrader', 'ListGrader', 'SingleListGrader', 'FormulaGrader', 'NumericalGrader', 'MatrixGrader',
            'IntervalGrader', 'SumGrader', 'RealInterval', 'IntegerRange', 'DiscreteSet', 'ComplexRectangle', 'ComplexSector', 'SpecificFunctions', 'RandomFunction',
            'DependentSampler', 'RealVectors', 'ComplexVectors', 'RealMatrices', 'ComplexMatrices', 'RealTensors', 'ComplexTensors', 'IdentityMatrixMultiples',
            'SquareMatrices', 'OrthogonalMatrices', 'UnitaryMatrices', 'LinearCredit', 'GeometricCredit', 'ReciprocalCredit', 'LinearComparer', 'EqualityComparer',
            'MatrixEntryComparer', 'MathArray', 'identity', 'ConfigError']
    for rel in mods:
        m = rtcheck.real_module(rel)
        for n in want:
            if hasattr(m, n) and not hasattr(L, n):
                setattr(L, n, getattr(m, n))
    L.raw, L.broken = _NS(), []
    base = L.ObjectWithSchema
    for n in want:
        c = getattr(L, n)
        setattr(L.raw, n, c)
        if isinstance(c, type) and issubclass(c, base):
            setattr(L, n, Ctor(c, L.broken))
    L.voluptuous = sys.modules['voluptuous']                      # the copy the library itself imported
    L.public_sampling = list(rtcheck.real_module('mitxgraders/sampling.py').__all__) + list(rtcheck.real_module('mitxgraders/matrixsampling.py').__all__)
    L.public_credit = list(rtcheck.real_module('mitxgraders/attemptcredit.py').__all__)
    return L


# ---------------------------------------------------------------------------------------------------------------- the engine
class Engine(object):
    def __init__(self, t, L):
        self.t, self.L = t, L
        self.errors = (L.ConfigError, L.voluptuous.Error)

    def construct(self, spec, cfg, form, extra_kw=None):
        """-> ('ok', obj) | ('rejected', exc) | ('crash', exc); form: 'kw' Cls(**cfg), 'dict' Cls(cfg), 'pos' Cls(value), 'both' Cls(cfg, **extra_kw)"""
        try:
            if form == 'kw':
                obj = spec.cls(**cfg)
            elif form == 'both':
                obj = spec.cls(cfg, **extra_kw)
            else:
                obj = spec.cls(cfg)
        except self.errors as e:
            return ('rejected', e)
        except Exception as e:                                    # any other exception type is a failure of the case
            return ('crash', e)
        return ('ok', obj)

    def expected(self, spec, cfg, canon):
        exp = {}
        for opt, row in spec.rows.items():
            exp[opt] = SKIP if row.default is REQUIRED else row.default
        for opt in cfg:
            # supplied companions are stored as given; answers have their own check (f)
            exp[opt] = SKIP if canon is None else (canon[opt] if opt in canon else (SKIP if opt == 'answers' else cfg[opt]))
        if spec.derive:
            spec.derive(cfg, exp)
        return exp

    def config_problems(self, spec, obj, exp):
        probs = []
        conf = obj.config
        if not isinstance(conf, dict):
            return ['config is %s, not a dictionary' % type(conf).__name__]
        for k in conf:
            if k not in spec.rows:
                probs.append("option %r has no row in the table" % (k,))
        for opt, want in exp.items():
            if want is SKIP:
                continue
            if want is ABSENT:
                if opt in conf:
                    probs.append('option %r present (%s) although not supplied and documented without default' % (opt, desc(conf[opt])[:80]))
                continue
            if opt not in conf:
                probs.append('option %r missing from config' % (opt,))
                continue
            eq = spec.rows[opt].eq or eq_plain
            try:
                same = eq(conf[opt], want)
            except Exception as e:
                same = False
            if not same:
                probs.append('config[%r] = %s, documented %s' % (opt, desc(conf[opt])[:120], desc(want)[:120]))
        return probs

    def revalidate_problems(self, spec, obj):
        """(e) Cls(obj.config) succeeds, equals obj, has the same config, and leaves obj.config as it was"""
        before = snap(obj.config)
        out, again = self.construct(spec, obj.config, 'dict')
        probs = []
        if out != 'ok':
            return ['%s(obj.config) %s: %s: %s' % (spec.name, out, type(again).__name__, str(again)[:160])]
        try:
            if not (again == obj):
                probs.append('%s(obj.config) != obj' % spec.name)
        except Exception as e:
            probs.append('comparing %s(obj.config) with obj raised %s' % (spec.name, type(e).__name__))
        if snap(again.config) != before:
            probs.append('%s(obj.config).config differs from obj.config' % spec.name)
        if snap(obj.config) != before:
            probs.append('obj.config was modified by %s(obj.config)' % spec.name)
        return probs

    def case(self, contract, key, spec, cfg, canon, accept, why, forms=('kw', 'dict'), revalidate=True):
        """one configuration through the given call forms; accept: True (in-domain) / False (out-of-domain, why says which rule)"""
        objs = {}
        if has_broken(cfg) or has_broken(canon):
            self.t.skipped += 1
            return objs
        for form in forms:
            mine = clone(cfg)
            before = snap(mine)
            out, res = self.construct(spec, mine, form)
            k = '%s|%s' % (key, form)
            shown = '%s(%s%s)' % (spec.name, '**' if form == 'kw' else '', desc(cfg)[:300])
            if snap(mine) != before:                              # (i) the author's configuration is never modified
                self.t.fail(contract, k + '|mutation', '%s: the configuration passed in was modified (%s): now %s' % (shown, out, desc(mine)[:200]))
            if out == 'crash':
                self.t.fail(contract, k, '%s raised %s: %s; expected %s' % (shown, type(res).__name__, str(res)[:160],
                                                                           'construction to succeed' if accept else 'ConfigError or a voluptuous Error (%s)' % why))
                continue
            if accept and out == 'rejected':
                self.t.fail(contract, k, '%s was rejected (%s: %s) although every option is in its documented domain' % (shown, type(res).__name__, str(res)[:200]))
                continue
            if not accept and out == 'ok':
                self.t.fail(contract, k, '%s was accepted although %s; config %s' % (shown, why, desc(res.config)[:200]))
                continue
            if not accept:
                self.t.ok(contract, k, sample={'construct': shown, 'outcome': 'rejected: %s' % type(res).__name__})
                continue
            objs[form] = res
            probs = []
            if isinstance(cfg, dict) and isinstance(res.config, dict):
                probs = self.config_problems(spec, res, self.expected(spec, cfg, canon))
            if revalidate and (spec.kind == 'grader' or spec.revalidates):
                probs += self.revalidate_problems(spec, res)
            if probs:
                self.t.fail(contract, k, '%s: %s' % (shown, '; '.join(probs)[:900]))
            else:
                self.t.ok(contract, k, sample={'construct': shown, 'outcome': 'accepted, config as documented'})
        if len(objs) == 2:                                        # (d) keyword and dictionary forms are equivalent
            a, b = objs['kw'], objs['dict']
            k = '%s|kw==dict' % key
            try:
                same = (a == b) and snap(a.config) == snap(b.config)
            except Exception as e:
                same = False
            if same:
                self.t.ok(contract, k)
            else:
                self.t.fail(contract, k, '%s(**cfg) and %s(cfg) differ for cfg = %s: %s vs %s' % (spec.name, spec.name, desc(cfg)[:200], desc(a.config)[:200], desc(b.config)[:200]))
        return objs

    # -------------------------------------------------------------------------------------------------- (a) (b) (c) (d) (e) (i)
    def single_option_sweep(self, spec):
        name = spec.name
        if spec.positional and spec.positional.get('whole'):
            for i, g in enumerate(spec.positional['good']):
                if has_broken(g.v) or has_broken(g.canon):
                    continue
                out, res = self.construct(spec, clone(g.v), 'pos')
                k = 'value|good|%d:%s' % (i, desc(g.v)[:60])
                if out != 'ok':
                    self.t.fail(name + ' option domain', k, '%s(%s) %s (%s: %s) although the value is in the documented domain' % (name, desc(g.v), out, type(res).__name__, str(res)[:160]))
                elif not eq_plain(res.config, g.canon):
                    self.t.fail(name + ' option domain', k, '%s(%s).config = %s, documented %s' % (name, desc(g.v), desc(res.config), desc(g.canon)))
                else:
                    probs = self.revalidate_problems(spec, res)
                    if probs:
                        self.t.fail(name + ' option domain', k, '%s(%s): %s' % (name, desc(g.v), '; '.join(probs)))
                    else:
                        self.t.ok(name + ' option domain', k, sample={'construct': '%s(%s)' % (name, desc(g.v))})
            for i, b in enumerate(spec.positional['bad']):
                out, res = self.construct(spec, clone(b.v), 'pos')
                k = 'value|bad|%d:%s' % (i, desc(b.v)[:60])
                if out == 'rejected':
                    self.t.ok(name + ' option domain', k)
                else:
                    self.t.fail(name + ' option domain', k, '%s(%s) %s; expected ConfigError or a voluptuous Error (value outside the documented domain)'
                                % (name, desc(b.v), 'was accepted with config ' + desc(res.config)[:120] if out == 'ok' else 'raised %s: %s' % (type(res).__name__, str(res)[:120])))
            out, res = self.construct(spec, {}, 'kw')             # no value at all
            (self.t.ok if out == 'rejected' else self.t.fail)(*((name + ' option domain', 'value|missing') + (() if out == 'rejected' else ('%s() without a value: %s' % (name, out),))))
            out, res = self.construct(spec, {'unknown_option': 1}, 'kw')
            (self.t.ok if out == 'rejected' else self.t.fail)(*((name + ' unknown option', 'unknown_option') + (() if out == 'rejected' else ('%s(unknown_option=1): %s' % (name, out),))))
            return
        base = spec.base()
        # (b) minimal configuration: every option present with its documented default; schema keys enumerated too
        objs = self.case(name + ' defaults', 'minimal', spec, base, {}, True, '')
        for obj in list(objs.values())[:1]:
            sch = getattr(getattr(obj, 'schema_config', None), 'schema', None)
            if isinstance(sch, dict):
                for kk in sch:
                    kname = getattr(kk, 'schema', kk)
                    if isinstance(kname, str) and kname not in spec.rows:
                        self.t.fail(name + ' defaults', 'schema|%s' % kname, "option %r of %s.schema_config has no row in the table" % (kname, name))
            for opt in spec.rows:
                if isinstance(sch, dict) and opt not in [getattr(kk, 'schema', kk) for kk in sch]:
                    self.t.fail(name + ' defaults', 'table|%s' % opt, "documented option %r is not an option of %s.schema_config" % (opt, name))
        # required options: omission is rejected
        for opt, row in spec.rows.items():
            if row.default is REQUIRED:
                cfg = {k: v for k, v in base.items() if k != opt}
                self.case(name + ' defaults', 'required|%s' % opt, spec, cfg, {}, False, 'the required option %r is missing' % opt)
        # (a) single-option deviations
        for opt, row in spec.rows.items():
            for i, g in enumerate(row.good):
                cfg = dict(base)
                cfg.update(g.ctx)
                cfg[opt] = g.v
                why = spec.cross(cfg) if spec.cross else None
                self.case(name + ' option domain', '%s|good|%d:%s' % (opt, i, desc(g.v)[:60]), spec, cfg, {opt: g.canon}, why is None, why or '')
            for i, b in enumerate(row.bad):
                cfg = dict(base)
                cfg.update(b.ctx)
                cfg[opt] = b.v
                self.case(name + ' option domain', '%s|bad|%d:%s' % (opt, i, desc(b.v)[:60]), spec, cfg, {}, False, '%s=%s is outside the documented domain' % (opt, desc(b.v)[:80]))
        # positional list form (RealInterval([a, b]))
        if spec.positional:
            for i, g in enumerate(spec.positional['good']):
                out, res = self.construct(spec, clone(g.v), 'pos')
                k = 'list form|good|%d:%s' % (i, desc(g.v))
                if out == 'ok' and eq_plain(res.config, g.canon) and res == spec.cls(**g.canon):
                    self.t.ok(name + ' option domain', k)
                else:
                    self.t.fail(name + ' option domain', k, '%s(%s): %s, expected the same object as %s(**%s)' % (name, desc(g.v), out if out != 'ok' else desc(res.config), name, desc(g.canon)))
            for i, b in enumerate(spec.positional['bad']):
                out, res = self.construct(spec, clone(b.v), 'pos')
                k = 'list form|bad|%d:%s' % (i, desc(b.v))
                if out == 'rejected':
                    self.t.ok(name + ' option domain', k)
                else:
                    self.t.fail(name + ' option domain', k, '%s(%s): %s; expected ConfigError or a voluptuous Error' % (name, desc(b.v), 'accepted' if out == 'ok' else 'raised %s: %s' % (type(res).__name__, str(res)[:100])))
        # (c) unknown option names: a made-up name, and case/plural variants of every real name
        names = ['unknown_option', 'answer', 'Answers', '']
        for opt in spec.rows:
            names += [opt.upper(), opt + 's', opt + '_']
        for nm in dict.fromkeys(names):
            if nm in spec.rows:
                continue
            cfg = dict(base)
            cfg[nm] = 1
            self.case(name + ' unknown option', 'unknown|%s' % nm, spec, cfg, {}, False, 'the option name %r is not documented' % nm, forms=('kw', 'dict') if nm else ('dict',))
        # (d) a dictionary wins over keyword arguments (graders.md: "if a configuration dictionary is supplied, any keyword arguments are ignored")
        if spec.kind == 'grader':
            base = dict(base, debug=False)                     # never empty (the empty dictionary is a separate case below)
            ref_out, ref = self.construct(spec, clone(base), 'dict')
            others = [(o, r.good[-1]) for o, r in spec.rows.items() if r.good and o not in base and not r.good[-1].ctx and r.default not in (SKIP, ABSENT, REQUIRED)
                      and not (r.eq or eq_plain)(r.good[-1].v, r.default)]
            trials = [('valid keyword', dict([(o, g.v)])) for o, g in others[:6]] + [('unknown keyword', {'unknown_option': 1}), ('all of base as keywords too', dict(base))]
            for label, kw in trials:
                out, res = self.construct(spec, clone(base), 'both', extra_kw=clone(kw))
                k = 'dict+kwargs|%s|%s' % (label, desc(kw)[:80])
                shown = '%s(%s, **%s)' % (name, desc(base)[:100], desc(kw)[:100])
                if ref_out == 'ok' and out == 'ok' and snap(res.config) == snap(ref.config) and res == ref:
                    self.t.ok(name + ' kwargs/dict', k, sample={'construct': shown, 'outcome': 'keyword arguments ignored'})
                else:
                    self.t.fail(name + ' kwargs/dict', k, '%s: %s; documented: the dictionary is used and keyword arguments are ignored (expected the same grader as %s(%s))'
                                % (shown, out if out != 'ok' else 'config ' + desc({o: res.config.get(o) for o in kw})[:160], name, desc(base)[:100]))
            # an EMPTY dictionary is still a configuration dictionary
            o, g = (others[0] if others else (None, None))
            if o is not None:
                kw = dict(spec.base())
                kw[o] = g.v
                out, res = self.construct(spec, {}, 'both', extra_kw=clone(kw))
                ref_out2, ref2 = self.construct(spec, {}, 'dict')
                k = 'empty dict+kwargs|%s' % o
                shown = '%s({}, **%s)' % (name, desc(kw)[:120])
                agree = (out == ref_out2) and (out != 'ok' or snap(res.config) == snap(ref2.config)) and out != 'crash'
                if agree:
                    self.t.ok(name + ' kwargs/dict', k)
                else:
                    self.t.fail(name + ' kwargs/dict', k, '%s: %s, but %s({}) alone: %s; documented: if a configuration dictionary is supplied, any keyword arguments are ignored'
                                % (shown, out if out != 'ok' else 'accepted with %s=%s' % (o, desc(res.config.get(o))), name, ref_out2 if ref_out2 != 'ok' else 'accepted with %s=%s' % (o, desc(ref2.config.get(o)))))

    # -------------------------------------------------------------------------------------------------- (f) answers formats
    def answers_sweep(self):
        L = self.L
        S = L.StringGrader

        def item_forms(e1, e2, e3):
            good = [e1, {'expect': e1}, {'expect': e1, 'grade_decimal': 1, 'msg': 'Yay!'}, {'expect': e1, 'grade_decimal': 0.5, 'msg': 'half'}, {'expect': e1, 'grade_decimal': 0},
                    {'expect': e1, 'grade_decimal': 0.0, 'msg': 'No'}, {'expect': e1, 'grade_decimal': 1.0}, {'expect': e1, 'grade_decimal': 0.25, 'ok': True},
                    {'expect': e1, 'ok': 'partial'}, {'expect': e1, 'ok': False}, {'expect': e1, 'ok': True}, {'expect': e1, 'ok': 'computed'}, {'expect': e1, 'grade_decimal': 0, 'ok': 'computed'},
                    {'expect': e1, 'grade_decimal': 0.5, 'ok': False}, {'expect': (e1, e2), 'grade_decimal': 0, 'msg': 'Wrong universe!'}, {'expect': (e1,)},
                    (e1, e2), (e1,), (e1, {'expect': e2, 'grade_decimal': 0.5, 'msg': 'No, not dog!'}, {'expect': e3, 'grade_decimal': 0, 'msg': 'm'}, {'expect': (e2, e3), 'grade_decimal': 0}),
                    ({'expect': e1}, {'expect': e2, 'ok': 'partial'})]
            bad = [{'grade_decimal': 0.5}, {'expect': e1, 'grade_decimal': 1.5}, {'expect': e1, 'grade_decimal': -0.1}, {'expect': e1, 'grade_decimal': 'a'}, {'expect': e1, 'grade_decimal': None},
                   {'expect': e1, 'grade_decimal': 2}, {'expect': e1, 'ok': 'yes'}, {'expect': e1, 'ok': None}, {'expect': e1, 'ok': 'Partial'}, {'expect': e1, 'ok': 2}, {'expect': e1, 'msg': 5},
                   {'expect': e1, 'msg': None}, {'expect': e1, 'extra': 1}, {'expect': e1, 'grade': 1}, 5, None, {'expect': 5}, {'expect': None}, (e1, 5), {'expect': (e1, 5)}, (e1, {'expect': e2, 'grade_decimal': 7}),
                   (e1, None), 2.5, True]
            return good, bad

        cases = []
        good, bad = item_forms('cat', 'dog', 'unicorn')
        cases.append(('StringGrader', L.StringGrader, {}, ('str',), good, bad + [['cat'], ['cat', 'dog'], {'expect': ['cat']}]))       # "answers=(str, dict, (str, dict))": no lists
        cmp_dict = {'comparer': _comparer3, 'comparer_params': ['x^2', '2']}
        for nm, e in (('FormulaGrader', ('x+1', '2*x', 'x^3')), ('NumericalGrader', ('3', '4', '2+2')), ('MatrixGrader', ('[1,2]', '[x,1]', '3*x'))):
            extra = {} if nm == 'NumericalGrader' else {'variables': ['x']}
            good, bad = item_forms(*e)
            # FormulaGrader docstring: "The expect value can be a string, or can itself be a dictionary" with keys comparer_params (list of strings) and comparer (3 arguments)
            good += [cmp_dict, {'expect': cmp_dict, 'grade_decimal': 0.5}, (e[0], cmp_dict), {'expect': (e[0], cmp_dict)}]
            bad += [[e[0]], {'comparer': _comparer2, 'comparer_params': ['x']}, {'comparer': _comparer3, 'comparer_params': 'x'}, {'comparer_params': ['x']},
                    {'comparer': 'equality', 'comparer_params': ['x']}, {'comparer': _comparer3, 'comparer_params': [1]}, {'comparer': _comparer3}, {'expect': {'comparer': _comparer3}}]
            cases.append((nm, getattr(L, nm), extra, ('formula',), good, bad))
        # single_list_grader.md: "lists of strings or dictionaries", "tuples to specify multiple lists", "literally all possible answer input styles", "an answer that is just a string"
        sl_good = [['cat', 'dog'], (['cat', 'dog'], ['goat', 'vole']), ([('cat', 'feline'), 'dog'], ['goat', 'vole']),
                   ([('cat', {'expect': 'feline', 'msg': 'Good enough!'}), 'dog'], {'expect': ['unicorn', 'lumberjack'], 'msg': 'strange', 'grade_decimal': 0.5}),
                   'cat, dog', {'expect': ['a', 'b', 'c'], 'grade_decimal': 0.5}, {'expect': (['a', 'b'], ['c', 'd']), 'grade_decimal': 0}, {'expect': 'a, b', 'msg': 'm'},
                   [{'expect': 'a', 'grade_decimal': 0.5}, 'b'], (['a', 'b'],), ('a, b', ['c', 'd'])]
        sl_bad = [5, None, {'expect': 5}, ['a', 5], {'expect': ['a', 'b'], 'grade_decimal': 2}, {'expect': ['a', 'b'], 'ok': 'maybe'}, ['a', {'expect': 'b', 'grade_decimal': 3}],
                  ['a', None], {'grade_decimal': 1}, (['a', 'b'], 5), {'expect': ['a', 'b'], 'extra': 1}]
        cases.append(('SingleListGrader', L.SingleListGrader, {'subgrader': S()}, ('slist', ',', ('str',)), sl_good, sl_bad))
        cases.append(('SingleListGrader(formula)', L.SingleListGrader, {'subgrader': L.FormulaGrader(variables=['x']), 'delimiter': ';'}, ('slist', ';', ('formula',)),
                      [['x', '2*x'], 'x; x^2', (['x', ('2*x', 'x*2')], ['1', '2'])], [['x', 5], 5]))
        # "If you set length_error to True, then all answers in a tuple of lists must have the same length" (without length_error: documentation silent, not swept)
        cases.append(('SingleListGrader(length_error)', L.SingleListGrader, {'subgrader': S(), 'length_error': True}, ('slist', ',', ('str',)),
                      [(['a', 'b'], ['c', 'd'])], [(['a', 'b'], ['c', 'd', 'e']), {'expect': (['a'], ['c', 'd'])}]))
        nested = lambda: L.SingleListGrader(subgrader=S())
        cases.append(('SingleListGrader(nested)', L.SingleListGrader, {'subgrader': nested(), 'delimiter': ';'}, ('slist', ';', ('slist', ',', ('str',))),
                      [[['a', 'b'], ['c', 'd']], 'a,b;c,d', ([['a', 'b'], ['c', 'd']], [['e', 'f'], ['g', 'h']]), [['a', ('b', 'B')], 'c,d']], [[['a', 'b'], 5], [[5, 'b'], ['c', 'd']]]))
        # interval_grader.md: a string, a list of four parts, each part with the full ItemGrader flexibility
        iv_good = ['[0, 1]', '[1,2)', ['[', '0', '1', ']'], (['[', '0', '1', ']'], ['(', '0', '1', ')']), {'expect': '[0,1]', 'grade_decimal': 0.5, 'msg': 'm'},
                   [('[', {'expect': '(', 'msg': 'Your opening bracket is wrong.', 'grade_decimal': 0.5}), '0', '1', (']', {'expect': ')', 'msg': 'Your closing bracket is wrong.', 'grade_decimal': 0.5})],
                   ['(', {'expect': '0', 'grade_decimal': 0.5}, ('1', '1.0'), ')'], ('[0,1]', '(0,1)')]
        iv_bad = [['[', '0', '1'], ['[', '0', '1', '2', ']'], ['[', '0', '1', ']', ']'], ['(', '0', '1', ')', 'extra'], '[1,2,3]', 5, None, ['[', 0, 1, ']'], {'expect': '[0,1]', 'grade_decimal': 1.5}, {'expect': ['[', '0', ']']}, ['[', '0', '1', 5]]
        cases.append(('IntervalGrader', L.IntervalGrader, {}, ('interval', ',', ('formula',)), iv_good, iv_bad))
        # list_grader.md: "a python list of individual ItemGrader answers (or a tuple of such lists)"; "ListGrader requires either a list, or a tuple of lists"
        a1 = ({'expect': 'zebra', 'grade_decimal': 1}, {'expect': 'horse', 'grade_decimal': 0.45}, {'expect': 'unicorn', 'grade_decimal': 0, 'msg': 'Unicorn? Really?'})
        a2 = ({'expect': 'cat', 'grade_decimal': 1}, {'expect': 'feline', 'grade_decimal': 0.5})
        lg_good = [['cat', 'dog'], [a1, a2], (['cat', 'dog'], ['goat', 'vole']), ['cat', {'expect': 'dog', 'grade_decimal': 0.5}, ('a', 'b')], (['a', 'b'],), [('x', 'y'), {'expect': ('p', 'q')}]]
        lg_bad = ['cat', {'expect': 'cat'}, 5, None, ['cat', 5], [['a', 'b'], 'c'], (['a', 'b'], 'c'), ['cat', {'expect': 'dog', 'grade_decimal': 2}], ['cat', {'grade_decimal': 1}], ('cat', 'dog')]
        cases.append(('ListGrader', L.ListGrader, {'subgraders': S()}, ('lg', ('str',)), lg_good, lg_bad))
        cases.append(('ListGrader(subgrader list)', L.ListGrader, {'subgraders': [S(), L.FormulaGrader(variables=['x'])], 'ordered': True}, ('lg', [('str',), ('formula',)]),
                      [['cat', 'x^2+1'], (['cat', 'x'], ['dog', ('2*x', 'x*2')])], [['cat', 5], ['cat', 'x', 'y'], ['cat']]))    # "the length of answers must be the same as the number of subgraders"
        cases.append(('ListGrader(SingleListGrader)', L.ListGrader, {'subgraders': L.SingleListGrader(subgrader=L.NumericalGrader()), 'ordered': True}, ('lg', ('slist', ',', ('formula',))),
                      [[['2', '4'], ['1', '3']], ['2, 4', '1, 3'], [(['2', '4'], ['4', '2']), ['1', '3']]], [[['2', '4'], 5], [['2', 4], ['1', '3']]]))
        inner = lambda: L.ListGrader(subgraders=[S(), L.NumericalGrader()], ordered=True)
        cases.append(('ListGrader(grouped)', L.ListGrader, {'subgraders': inner(), 'grouping': [1, 1, 2, 2, 3, 3]}, ('lg', ('lg', [('str',), ('formula',)])),
                      [[['cat', '1'], ['dog', '2'], ['tiger', '3']]], [[['cat', 1], ['dog', '2'], ['tiger', '3']], [['cat', '1', '5'], ['dog', '2'], ['tiger', '3']]]))
        eig = lambda: L.ListGrader(subgraders=[L.NumericalGrader(), L.SingleListGrader(subgrader=L.NumericalGrader(), ordered=True)], ordered=True, partial_credit=False)
        cases.append(('ListGrader(eigen)', L.ListGrader, {'subgraders': eig(), 'grouping': [1, 1, 2, 2]}, ('lg', ('lg', [('formula',), ('slist', ',', ('formula',))])),
                      [[['1', (['1', '0'], ['-1', '0'])], ['-1', (['0', '1'], ['0', '-1'])]]], []))
        for label, cls, extra, kind, good, bad in cases:
            spec = Spec(label, cls, 'grader', {})
            contract = label + ' answers'
            if has_broken(extra):
                continue
            for i, raw in enumerate(good):
                for form in ('kw', 'dict'):
                    cfg = dict(extra)
                    cfg['answers'] = clone(raw)
                    before = snap(cfg)
                    out, res = self.construct(spec, cfg, form)
                    k = 'good|%d:%s|%s' % (i, desc(raw)[:70], form)
                    shown = '%s(answers=%s%s) [%s]' % (label.split('(')[0], desc(raw)[:260], ''.join(', %s=%s' % (a, desc(b)[:40]) for a, b in extra.items()), form)
                    if snap(cfg) != before:
                        self.t.fail(contract, k + '|mutation', '%s: the configuration passed in was modified: %s' % (shown, desc(cfg)[:300]))
                    if out != 'ok':
                        self.t.fail(contract, k, '%s: %s (%s: %s) although this answers format is documented' % (shown, out, type(res).__name__, str(res)[:200]))
                        continue
                    probs = match_answers(res.config['answers'], raw, kind)
                    probs += self.revalidate_problems(spec, res)
                    if probs:
                        self.t.fail(contract, k, '%s: %s' % (shown, '; '.join(probs)[:800]))
                    else:
                        self.t.ok(contract, k, sample={'construct': shown, 'stored': desc(res.config['answers'])[:300]})
            for i, raw in enumerate(bad):
                for form in ('kw', 'dict'):
                    cfg = dict(extra)
                    cfg['answers'] = clone(raw)
                    before = snap(cfg)
                    out, res = self.construct(spec, cfg, form)
                    k = 'bad|%d:%s|%s' % (i, desc(raw)[:70], form)
                    shown = '%s(answers=%s%s) [%s]' % (label.split('(')[0], desc(raw)[:260], ''.join(', %s=%s' % (a, desc(b)[:40]) for a, b in extra.items()), form)
                    if snap(cfg) != before:
                        self.t.fail(contract, k + '|mutation', '%s: the configuration passed in was modified: %s' % (shown, desc(cfg)[:300]))
                    if out == 'rejected':
                        self.t.ok(contract, k)
                    elif out == 'ok':
                        self.t.fail(contract, k, '%s was accepted (stored %s) although the answers are not in a documented format/domain' % (shown, desc(res.config['answers'])[:200]))
                    else:
                        self.t.fail(contract, k, '%s raised %s: %s; expected ConfigError or a voluptuous Error' % (shown, type(res).__name__, str(res)[:160]))

    # -------------------------------------------------------------------------------------------------- (g) cross-option rules, each violated and satisfied
    def cross_rules(self, specs):
        L = self.L
        S = L.StringGrader
        by = {s.name: s for s in specs}
        rules = []          # (rule label, spec name, cfg, accept, why)

        def add(rule, name, cfg, accept, why=''):
            rules.append((rule, name, cfg, accept, why or rule))
        sa = {'lower': '0', 'upper': '10', 'summand': 'n', 'summation_variable': 'n'}
        for name, base in (('FormulaGrader', {}), ('NumericalGrader', {}), ('MatrixGrader', {}), ('SumGrader', {'answers': sa})):
            mk = lambda **kw: dict(base, **kw)
            r = 'whitelist and blacklist'                        # "You cannot use a whitelist and a blacklist at the same time."
            add(r, name, mk(whitelist=['sin'], blacklist=['cos']), False)
            add(r, name, mk(whitelist=[None], blacklist=['cos']), False)
            add(r, name, mk(whitelist=['sin', 'cos'], blacklist=['tan', 'exp']), False)
            add(r, name, mk(whitelist=['sin'], blacklist=[]), True)
            add(r, name, mk(whitelist=[], blacklist=['cos']), True)
            add(r, name, mk(whitelist=[None]), True)
            r = 'override of a default needs suppress_warnings'   # graders.md "Validation"; formula_grader.md "Overriding Default Functions and Constants"
            over = [dict(user_functions={'sin': _sq}), dict(user_constants={'pi': 3}), dict(user_constants={'e': 2.7, 'c': 1}), dict(user_functions={'sqrt': _sq, 'f': _sq})]
            if name not in ('NumericalGrader',):
                over += [dict(variables=['pi']), dict(variables=['x', 'e']), dict(numbered_vars=['pi'])]
            for o in over:
                add(r, name, mk(**o), False, 'a default is overridden without suppress_warnings=True')
                add(r, name, mk(suppress_warnings=False, **o), False, 'a default is overridden with suppress_warnings=False')
                add(r, name, mk(suppress_warnings=True, **o), True)
            add(r, name, mk(user_functions={'f': _sq}, user_constants={'c': 1}), True)
            if name != 'NumericalGrader':
                r = 'name collisions'                              # changelog "We now check for naming collisions in your configuration"; property statement "no name collisions"
                add(r, name, mk(variables=['x', 'y'], user_constants={'x': 5}), False, 'x is both a variable and a user constant')
                add(r, name, mk(variables=['x', 'x']), False, 'a variable is declared twice')
                add(r, name, mk(numbered_vars=['a', 'a']), False, 'a numbered variable is declared twice')
                add(r, name, mk(variables=['x', 'y'], user_constants={'c': 5}), True)
                add(r, name, mk(variables=['x', 'y'], user_constants={'x': 5}, suppress_warnings=True), False, 'x is both a variable and a user constant (not a warning)')
                r = 'sample_from names declared variables'          # "a dictionary of 'variable_name': sampling_set pairs"
                add(r, name, mk(variables=['x'], sample_from={'y': [1, 2]}), False, 'sample_from names y, which is not a variable')
                add(r, name, mk(sample_from={'x': [1, 2]}), False, 'sample_from names x but there are no variables')
                add(r, name, mk(variables=['x'], numbered_vars=['a'], sample_from={'x': [1, 2], 'a': [3, 4]}), True)
                add(r, name, mk(variables=['x'], numbered_vars=['a'], sample_from={'x': [1, 2], 'a_{1}': [3, 4]}), False, "sample_from names a_{1}; numbered variables are sampled through the base name")
        # list_grader.md "Multiple Graders": "you must set ordered=True when using a list of subgraders"; "the length of answers must be the same as the number of subgraders"
        F = L.FormulaGrader(variables=['x'])
        r = 'list of subgraders needs ordered=True'
        add(r, 'ListGrader', dict(answers=['cat', 'x'], subgraders=[S(), F]), False, 'a list of subgraders with the default ordered=False')
        add(r, 'ListGrader', dict(answers=['cat', 'x'], subgraders=[S(), F], ordered=False), False, 'a list of subgraders with ordered=False')
        add(r, 'ListGrader', dict(answers=['cat', 'x'], subgraders=[S(), F], ordered=True), True)
        add(r, 'ListGrader', dict(answers=['cat', 'x'], subgraders=S(), ordered=False), True)
        add(r, 'ListGrader', dict(answers=['cat', 'x'], subgraders=S(), ordered=True), True)
        r = 'answers match the list of subgraders'
        add(r, 'ListGrader', dict(answers=['cat', 'x', 'y'], subgraders=[S(), F], ordered=True), False, '3 answers for 2 subgraders')
        add(r, 'ListGrader', dict(answers=['cat', 'x'], subgraders=[S(), F, F], ordered=True), False, '2 answers for 3 subgraders')
        add(r, 'ListGrader', dict(answers=['cat', 'x', '2*x'], subgraders=[S(), F, F], ordered=True), True)
        # list_grader.md "Grouped Inputs"
        pair = lambda **kw: L.ListGrader(subgraders=[S(), L.NumericalGrader()], ordered=True, **kw)
        three = [['cat', '1'], ['dog', '2'], ['tiger', '3']]
        r = 'grouping: contiguous integers from 1'               # "all numbers from 1 to N must be present ... need not be in monotonic order. So for example, [1, 2, 1, 2] is a valid grouping"
        add(r, 'ListGrader', dict(answers=three, subgraders=pair(), grouping=[1, 1, 2, 2, 3, 3]), True)
        add(r, 'ListGrader', dict(answers=three[:2], subgraders=pair(), grouping=[1, 2, 1, 2]), True)
        add(r, 'ListGrader', dict(answers=three[:2], subgraders=pair(), grouping=[2, 1, 1, 2]), True)
        add(r, 'ListGrader', dict(answers=three[:2], subgraders=pair(), grouping=[1, 1, 3, 3]), False, 'group 2 is missing')
        add(r, 'ListGrader', dict(answers=three[:2], subgraders=pair(), grouping=[2, 2, 3, 3]), False, 'the groups do not start at 1')
        add(r, 'ListGrader', dict(answers=three[:2], subgraders=pair(), grouping=[0, 0, 1, 1]), False, 'group 0')
        add(r, 'ListGrader', dict(answers=three, subgraders=pair(), grouping=[1, 1, 2, 2, 4, 4]), False, 'group 3 is missing')
        r = 'grouping: unordered groups have equal sizes'          # "For unordered groups, the groupings must each have the same number of elements."
        single3 = lambda: L.ListGrader(subgraders=S())
        add(r, 'ListGrader', dict(answers=[['a', 'b'], ['c', 'd', 'e']], subgraders=single3(), grouping=[1, 1, 2, 2, 2]), False, 'unordered groups of sizes 2 and 3')
        add(r, 'ListGrader', dict(answers=[['a', 'b'], ['c', 'd']], subgraders=single3(), grouping=[1, 1, 2, 2]), True)
        # every combination of 2..4 groups of sizes 2..4 (group numbers in blocks and interleaved): accepted exactly when all sizes are equal
        import itertools as _it
        for G in (2, 3, 4):
            for sizes in _it.product((2, 3, 4), repeat=G):
                if G == 4 and len(set(sizes)) > 2:
                    continue
                blocks = [g + 1 for g, n_ in enumerate(sizes) for _ in range(n_)]
                inter = [g + 1 for k in range(max(sizes)) for g in range(G) if k < sizes[g]]        # round-robin interleaving, still 1..G all present
                answers = [[chr(97 + g) + str(k) for k in range(n_)] for g, n_ in enumerate(sizes)]
                for grouping in (blocks, inter):
                    add(r, 'ListGrader', dict(answers=answers, subgraders=single3(), grouping=grouping), len(set(sizes)) == 1,
                        'unordered groups of sizes %s' % (sizes,))
        add(r, 'ListGrader', dict(answers=[['bat', 'ghost', 'pumpkin'], 'Halloween'], subgraders=[single3(), S()], ordered=True, grouping=[1, 1, 1, 2]), True)
        add(r, 'ListGrader', dict(answers=[['a', 'b'], ['c', 'd', 'e']], subgraders=[single3(), single3()], ordered=True, grouping=[1, 1, 2, 2, 2]), True)
        r = 'grouping: groups of several inputs go to a ListGrader'   # "the second level of grader is receiving multiple inputs, and so itself needs to be a ListGrader"
        add(r, 'ListGrader', dict(answers=['cat', 'dog'], subgraders=S(), grouping=[1, 1, 2, 2]), False, 'grouped inputs with a StringGrader subgrader')
        add(r, 'ListGrader', dict(answers=['cat', 'dog'], subgraders=L.SingleListGrader(subgrader=S()), grouping=[1, 1, 2, 2]), False, 'grouped inputs with a SingleListGrader subgrader')
        add(r, 'ListGrader', dict(answers=[['a', 'b', 'c'], 'd'], subgraders=[S(), S()], ordered=True, grouping=[1, 1, 1, 2]), False, 'group 1 has three inputs but a StringGrader')
        add(r, 'ListGrader', dict(answers=['d', ['a', 'b', 'c']], subgraders=[S(), single3()], ordered=True, grouping=[2, 2, 2, 1]), True)
        r = 'grouping: one subgrader per group'                   # second "Grouped Inputs" example: one subgrader for each grouping
        add(r, 'ListGrader', dict(answers=[['a', 'b'], 'c'], subgraders=[single3(), S()], ordered=True, grouping=[1, 1, 2, 3]), False, '3 groups for 2 subgraders')
        add(r, 'ListGrader', dict(answers=[['a', 'b'], 'c', 'd'], subgraders=[single3(), S(), S()], ordered=True, grouping=[1, 1, 2]), False, '2 groups for 3 subgraders')
        add(r, 'ListGrader', dict(answers=['c', 'd'], subgraders=[S(), S()], ordered=True, grouping=[1]), False, '1 group for 2 subgraders')
        add(r, 'ListGrader', dict(answers=[['a', 'b'], 'c', 'd'], subgraders=[single3(), S(), S()], ordered=True, grouping=[1, 1, 2, 3]), True)
        r = 'nested grouping'                                      # last example of list_grader.md
        vec = lambda: L.ListGrader(subgraders=[L.NumericalGrader(), L.ListGrader(subgraders=L.NumericalGrader(), ordered=True)], ordered=True, grouping=[1, 2, 2])
        add(r, 'ListGrader', dict(answers=[['1', (['1', '0'], ['-1', '0'])], ['-1', (['0', '1'], ['0', '-1'])]], subgraders=vec(), grouping=[1, 1, 1, 2, 2, 2]), True)
        # single_list_grader.md "Choosing Delimiters": nesting works "By using different delimiters"
        r = 'nested SingleListGraders use distinct delimiters'
        SL = L.SingleListGrader
        add(r, 'SingleListGrader', dict(subgrader=SL(subgrader=S())), False, 'both levels use the default delimiter')
        add(r, 'SingleListGrader', dict(subgrader=SL(subgrader=S(), delimiter=';'), delimiter=';'), False, 'both levels use ;')
        add(r, 'SingleListGrader', dict(subgrader=SL(subgrader=S()), delimiter=';'), True)
        add(r, 'SingleListGrader', dict(subgrader=SL(subgrader=S(), delimiter=';')), True)
        add(r, 'SingleListGrader', dict(subgrader=SL(subgrader=SL(subgrader=S()), delimiter=';'), delimiter='|'), True)
        add(r, 'SingleListGrader', dict(subgrader=SL(subgrader=SL(subgrader=S()), delimiter=';'), delimiter=','), False, 'levels 1 and 3 both use the comma')
        add(r, 'SingleListGrader', dict(subgrader=SL(subgrader=SL(subgrader=S(), delimiter='|'), delimiter=';'), delimiter=';'), False, 'levels 1 and 2 both use ;')
        # sum_grader.md input_positions
        r = 'input_positions: consecutive from 1, no repeats'
        for ip, ok in (({'lower': 1, 'upper': 2}, True), ({'lower': 2, 'upper': 1, 'summand': 3, 'summation_variable': 4}, True), ({'lower': 1, 'upper': 1}, False),
                       ({'lower': 1, 'upper': 2, 'summand': 2}, False), ({'lower': 1, 'summand': 3}, False), ({'upper': 2, 'summand': 3}, False), ({'lower': 1, 'upper': 2, 'summand': 4}, False)):
            add(r, 'SumGrader', dict(answers=sa, input_positions=ip), ok, 'input_positions %s' % desc(ip))
        for rule, name, cfg, accept, why in rules:
            if accept is None:
                continue
            self.case('cross-option: ' + rule, '%s|%s' % (name, desc(cfg)[:150]), by[name], cfg, None, accept, why)     # stored form of the supplied options: checks (a)/(f)
        # SquareMatrices: the docstring's list of impossible combinations, exhaustively
        sq = by['SquareMatrices']
        n = 0
        for sym in (None, 'diagonal', 'symmetric', 'antisymmetric', 'hermitian', 'antihermitian'):
            for tl in (False, True):
                for det in (None, 0, 1):
                    for dim in (2, 3, 4):
                        for cx in (False, True):
                            cfg = dict(symmetry=sym, traceless=tl, determinant=det, dimension=dim, complex=cx)
                            why = square_impossible(cfg)
                            self.case('cross-option: SquareMatrices combinations', desc(cfg), sq, cfg, None, why is None, why or '', forms=('kw',))
                            n += 1
        return len(rules) + n

    # -------------------------------------------------------------------------------------------------- (h) random multi-option combinations
    def random_combinations(self, specs, rnd, n_per_class, tag):
        for spec in specs:
            opts = [(o, r) for o, r in spec.rows.items() if r.h and (r.good or r.bad)]
            if len(opts) < 2:
                continue
            for i in range(n_per_class):
                k = rnd.randint(2, min(4, len(opts)))
                chosen = rnd.sample(opts, k)
                with_bad = rnd.random() < 0.5
                bad_at = rnd.randrange(k) if with_bad else -1
                cfg, canon, why, clash = dict(spec.base()), {}, None, False
                ctxs = {}
                for j, (o, r) in enumerate(chosen):
                    if j == bad_at and r.bad:
                        b = rnd.choice(r.bad)
                        cfg[o] = b.v
                        ctxs.update(b.ctx)
                        why = '%s=%s is outside the documented domain' % (o, desc(b.v)[:80])
                    elif r.good:
                        g = rnd.choice(r.good)
                        cfg[o] = g.v
                        canon[o] = g.canon
                        ctxs.update(g.ctx)
                    else:
                        clash = True
                for o, v in ctxs.items():
                    if o in dict(chosen):
                        clash = True                              # a companion option was also drawn independently: outside the modelled space
                    cfg[o] = v
                if clash:
                    continue
                if why is None and spec.cross:
                    why = spec.cross(cfg)
                self.case(spec.name + ' random combinations', '%s|%d|%s' % (tag, i, desc({o: cfg[o] for o, _ in chosen})[:160]), spec, cfg, canon, why is None, why or '',
                          forms=(rnd.choice(['kw', 'dict']),))

    # -------------------------------------------------------------------------------------------------- (j) registered defaults (plugins.md)
    def registered_defaults(self):
        L = self.L.raw
        t = self.t
        c = 'registered defaults'
        saved = [(cls, cls.default_values) for cls in (L.StringGrader, L.AbstractGrader, L.ItemGrader, L.FormulaGrader)]
        try:
            L.StringGrader.register_defaults({'case_sensitive': False})      # plugins.md example
            checks = [('registered default used', lambda: L.StringGrader().config['case_sensitive'] is False),
                      ('registered default used (dict form)', lambda: L.StringGrader({'answers': 'cat'}).config['case_sensitive'] is False),
                      ('explicit option wins', lambda: L.StringGrader(case_sensitive=True).config['case_sensitive'] is True),
                      ('other classes unaffected', lambda: 'case_sensitive' not in L.FormulaGrader().config and L.FormulaGrader().config['debug'] is False)]
            for k, f in checks:
                try:
                    good = f()
                except Exception as e:
                    good = False
                (t.ok(c, k) if good else t.fail(c, k, "after StringGrader.register_defaults({'case_sensitive': False}): %s does not hold" % k))
            L.StringGrader.register_defaults({'min_length': -1})               # a registered default is validated like any option
            out, res = self.construct(Spec('StringGrader', L.StringGrader, 'grader', {}), {}, 'kw')
            (t.ok(c, 'invalid registered default rejected') if out == 'rejected' else
             t.fail(c, 'invalid registered default rejected', "StringGrader() with registered default min_length=-1: %s" % out))
            def holds(f):
                try:
                    return bool(f())
                except Exception:
                    return False
            L.StringGrader.clear_registered_defaults()                          # "you can call clear_registered_defaults() on the class"
            good = holds(lambda: L.StringGrader().config['case_sensitive'] is True and L.StringGrader().config['min_length'] == 0)
            (t.ok(c, 'cleared') if good else t.fail(c, 'cleared', 'after clear_registered_defaults() the library defaults are not back'))
            L.AbstractGrader.register_defaults({'debug': True})               # defaults_sample.py: registered on a higher-level class
            good = holds(lambda: L.StringGrader().config['debug'] is True and L.FormulaGrader().config['debug'] is True and L.StringGrader(debug=False).config['debug'] is False)
            (t.ok(c, 'inherited') if good else t.fail(c, 'inherited', "AbstractGrader.register_defaults({'debug': True}) is not picked up by the grader classes"))
        finally:
            for cls, val in saved:
                cls.default_values = val


def all_specs(L):
    specs, H = build_specs(L)
    build_specs_lists(L, H, specs)
    build_specs_samplers(L, specs)
    build_specs_misc(L, specs)
    return specs


def run(tier, seed):
    load_contracts()
    rnd = random.Random(seed)
    np.random.seed(seed + 20)
    t = Tally('C20')
    B = rtcheck.real_module('mitxgraders/baseclasses.py')
    L = library()
    try:
        specs = all_specs(L)
    except Exception as e:                                         # a fixture of the table itself is unusable in a way the guarded constructors do not cover
        import traceback
        t.fail('phase', 'table', 'building the table raised %s: %s | %s' % (type(e).__name__, str(e)[:200], ' <- '.join(l.strip() for l in traceback.format_exc().splitlines()[-6:])[:500]))
        return t.report(rule='table could not be built', bounds={}, exhaustive=False)
    eng = Engine(t, L)
    # every public sampler / credit class has a table
    have = {s.name for s in specs}
    for nm in L.public_sampling + L.public_credit:
        if nm not in have:
            t.fail('coverage', nm, 'public class %s has no table' % nm)
        else:
            t.ok('coverage', nm)
    def phase(label, f, *a):
        """an exception escaping a whole phase (the library misbehaving in a way no case anticipated) is reported as a failure with its traceback, never swallowed"""
        try:
            return f(*a)
        except Exception as e:
            import traceback
            t.fail('phase', label, 'unexpected %s in phase %s: %s | %s' % (type(e).__name__, label, str(e)[:200], ' <- '.join(l.strip() for l in traceback.format_exc().splitlines()[-7:])[:600]))
            return 0
    for spec in specs:
        if not issubclass(spec.cls, B.ObjectWithSchema):
            t.fail('coverage', spec.name + '|base', '%s is not an ObjectWithSchema' % spec.name)
        phase('single-option sweep ' + spec.name, eng.single_option_sweep, spec)
    phase('answers formats', eng.answers_sweep)
    n_rules = phase('cross-option rules', eng.cross_rules, specs)
    n = 60 if tier == 'quick' else 2000
    phase('random combinations', eng.random_combinations, specs, rnd, n, '@%s:%d' % (tier, seed))
    phase('registered defaults', eng.registered_defaults)

    def behavioural_equivalence():
        """keyword and dictionary forms of one configuration are the same grader: same configuration AND same verdicts (options that select behaviour
        outside the stored configuration -- MatrixGrader's entry_partial_credit / entry_partial_msg choose the comparer -- are only visible in the verdicts)"""
        mgm_ = rtcheck.real_module('mitxgraders/formulagrader/matrixgrader.py')
        fgm_ = rtcheck.real_module('mitxgraders/formulagrader/formulagrader.py')
        sgm_ = rtcheck.real_module('mitxgraders/stringgrader.py')
        cases = [
            (mgm_.MatrixGrader, dict(answers='[[1, 2], [3, 4]]', max_array_dim=2, entry_partial_credit='proportional'), ['[[1, 2], [3, 4]]', '[[1, 2], [3, 5]]', '[[0, 0], [0, 0]]', '[1, 2]']),
            (mgm_.MatrixGrader, dict(answers='[1, 2, 3]', entry_partial_credit=0.5, entry_partial_msg='some entries are off'), ['[1, 2, 3]', '[1, 2, 4]', '[9, 9, 9]']),
            (mgm_.MatrixGrader, dict(answers='[1, 2, 3]', entry_partial_msg='entries: {error_indices}'), ['[1, 2, 3]', '[1, 0, 3]']),
            (fgm_.FormulaGrader, dict(answers='x + 1', variables=['x'], tolerance='1%', samples=3), ['x + 1', '1.001*(x + 1)', 'x']),
            (sgm_.StringGrader, dict(answers='Cat', case_sensitive=False, strip_all=True), ['cat', ' C a t ', 'dog']),
        ]
        for cls, cfg, inputs in cases:
            try:
                by_kw, by_dict, by_config = cls(**copy.deepcopy(cfg)), cls(copy.deepcopy(cfg)), None
                by_config = cls(by_kw.config)
            except Exception as e:
                t.fail('kwargs/dict/config behavioural equivalence', (cls.__name__, repr(sorted(cfg))), '%s(%r): construction failed in one form: %s: %s' % (cls.__name__, cfg, type(e).__name__, str(e)[:150]))
                continue
            for inp in inputs:
                outs = []
                for g in (by_kw, by_dict, by_config):
                    try:
                        r = g(None, inp)
                        outs.append((r['ok'], round(r['grade_decimal'], 9), r['msg']))
                    except Exception as e:
                        outs.append((type(e).__name__, str(e)[:80]))
                key = (cls.__name__, repr(sorted(cfg)), inp)
                ok = outs[0] == outs[1] == outs[2] and by_kw.config == by_dict.config
                (t.ok if ok else t.fail)('kwargs/dict/config behavioural equivalence', key, *([] if ok else [
                    '%s with options %r on %r: keyword form %r, dictionary form %r, rebuilt from obj.config %r (must all agree)' % (cls.__name__, cfg, inp, outs[0], outs[1], outs[2])]))
    import copy
    phase('behavioural equivalence', behavioural_equivalence)
    for shown, e in {a: b for a, b in L.broken}.items():
        t.fail('fixture', shown[:200], 'the documented configuration %s could not be constructed: %s: %s' % (shown[:300], type(e).__name__, str(e)[:200]))
    return t.report(rule="per public class a table of options transcribed from the documentation (default, in-domain pool with the documented stored form, out-of-domain pool); "
                         "every single-option deviation from the minimal configuration in keyword and dictionary form, defaults, unknown names, dictionary-over-keywords, "
                         "Cls(obj.config) == obj, every documented answers format against a reference normaliser written from item_grader.md, every cross-option rule violated and "
                         "satisfied, random multi-option combinations; oracle: in-domain => accepted with the documented config, out-of-domain => ConfigError or voluptuous Error "
                         "(any other exception or acceptance fails), author's dictionary never modified",
                    bounds={'classes': len(specs), 'options': sum(len(s.rows) for s in specs), 'cross-option configurations': n_rules, 'random combinations per class': n},
                    exhaustive=False)


def replay(case):
    m = re.search(r'@(quick|thorough):(\d+)', case.get('key', ''))
    out = run(m.group(1), int(m.group(2))) if m else run('quick', 0)
    hit = [f for f in out['failures'] if f['key'] == case.get('key')]
    return {'reproduced': bool(hit), 'case': hit[:1]}
