"""
Bounded stand-in for C12 (never counted as proved): every sampler class x option grids x many draws x random evaluation points.
Intervals incl. degenerate, reversed and negative ones (integer endpoints attainable); complex rectangles and sectors; discrete sets and
function lists; random functions (arity, output dimension, |f - center| <= amplitude for input_dim 1-4, fixed once drawn); array samplers
(shape, realness/complexness, norm range, triangular); every SquareMatrices combination of dimension 2-5 x symmetry x traceless x determinant x
complex that the constructor accepts; identity multiples.
"""
import itertools
import random
import cmath
import numpy as np
from bounded._common import Tally, rtcheck, load_contracts

ASSUMPTIONS = ["bounded tier: draws per configuration as stated; numerical tolerances 1e-9 relative (determinant 1e-6); orthogonal/unitary samplers need scipy (absent)"]


def run(tier, seed):
    load_contracts()
    rnd = random.Random(seed)
    t = Tally('C12')
    S = rtcheck.real_module('mitxgraders/sampling.py')
    M = rtcheck.real_module('mitxgraders/matrixsampling.py')
    MA = rtcheck.real_module('mitxgraders/helpers/calc/math_array.py').MathArray
    exc = rtcheck.real_module('mitxgraders/exceptions.py')
    S.set_seed(seed + 12)
    draws = 60 if tier == 'quick' else 600

    def check(name, key, cond, what, sample=None):
        if cond:
            t.ok(name, key, sample=sample)
        else:
            t.fail(name, key, what)

    # intervals
    for a, b in [(1, 5), (5, 1), (-3, -1), (-1, -3), (2, 2), (-2.5, 4), (0, 1e-9), (3, -7.25)]:
        s = S.RealInterval(start=a, stop=b)
        lo, hi = min(a, b), max(a, b)
        vals = [s.gen_sample() for _ in range(draws)]
        check('RealInterval', (a, b), all(lo <= v <= hi for v in vals), 'RealInterval(%r, %r) drew %r' % (a, b, [v for v in vals if not lo <= v <= hi][:3]), sample={'start': a, 'stop': b, 'draw': vals[0]})
        s2 = S.RealInterval([a, b])
        check('RealInterval', ('list', a, b), all(lo <= s2.gen_sample() <= hi for _ in range(20)), 'RealInterval([%r, %r]) out of range' % (a, b))
    for a, b in [(1, 5), (5, 1), (-3, -1), (2, 2), (0, 1), (-2, 3), (4, -4)]:
        s = S.IntegerRange(start=a, stop=b)
        lo, hi = min(a, b), max(a, b)
        vals = [s.gen_sample() for _ in range(max(draws, 40 * (hi - lo + 1)))]
        okr = all(lo <= v <= hi and int(v) == v for v in vals)
        both = (lo in vals) and (hi in vals)
        check('IntegerRange', (a, b), okr and both, 'IntegerRange(%r, %r): in range=%s, endpoints drawn: start %s stop %s' % (a, b, okr, lo in vals, hi in vals), sample={'start': a, 'stop': b, 'distinct': sorted(set(vals))})
    # complex rectangle / sector
    for re_, im in [((1, 3), (1, 3)), ((3, 1), (-2, -1)), ((0, 0), (2, 5)), ((-1, 1), (4, 4))]:
        s = S.ComplexRectangle(re=list(re_), im=list(im))
        vals = [s.gen_sample() for _ in range(draws)]
        check('ComplexRectangle', (re_, im), all(min(re_) <= v.real <= max(re_) and min(im) <= v.imag <= max(im) for v in vals), 'ComplexRectangle(%r, %r) left the rectangle' % (re_, im), sample={'re': re_, 'im': im, 'draw': str(vals[0])})
    for mod, arg in [((1, 3), (0, 1.5)), ((3, 1), (-3.0, -2.0)), ((2, 2), (0.5, 0.5)), ((0.5, 4), (-np.pi, np.pi))]:
        s = S.ComplexSector(modulus=list(mod), argument=list(arg))
        vals = [s.gen_sample() for _ in range(draws)]
        ok = all(min(mod) - 1e-12 <= abs(v) <= max(mod) + 1e-12 and min(arg) - 1e-9 <= cmath.phase(v) <= max(arg) + 1e-9 for v in vals)
        check('ComplexSector', (mod, arg), ok, 'ComplexSector(modulus=%r, argument=%r) left the sector' % (mod, arg), sample={'modulus': mod, 'argument': arg, 'draw': str(vals[0])})
    # discrete sets / specific functions
    for members in [(1,), (1, 2, 3), (0.5, -2, 7j), (MA([1, 2]), 4)]:
        s = S.DiscreteSet(members if len(members) > 1 else members[0])
        vals = [s.gen_sample() for _ in range(draws)]
        check('DiscreteSet', repr(members), all(any(v is m or (not isinstance(m, MA) and not isinstance(v, MA) and v == m) for m in members) for v in vals), 'DiscreteSet%r drew a non-member' % (members,))
    # a single array-valued member (documented: DiscreteSet(MathArray([...]))): every draw is that array, never one of its rows or entries
    for arr in (MA([[1, 0], [0, 1]]), MA([1, 2, 3]), MA([[1, 2, 3]])):
        for cfg in (arr, (arr,), (arr, 5)):
            s = S.DiscreteSet(cfg)
            vals = [s.gen_sample() for _ in range(draws)]
            ok = all((isinstance(v, MA) and v.shape == arr.shape and np.array_equal(v, arr)) or (isinstance(cfg, tuple) and len(cfg) == 2 and not isinstance(v, MA) and v == 5) for v in vals)
            check('DiscreteSet (array member)', (repr(arr), type(cfg).__name__, len(cfg) if isinstance(cfg, tuple) else 0), ok,
                  'DiscreteSet(%r) drew %r, which is not a listed member' % (cfg, [repr(v) for v in vals[:3]]))
    fns = [np.sin, np.cos, abs]
    s = S.SpecificFunctions(fns)
    check('SpecificFunctions', 'list', all(any(v is f for f in fns) for v in [s.gen_sample() for _ in range(draws)]), 'SpecificFunctions drew a function that is not listed')
    # random functions
    for idim, odim, nt, center, amp, cplx in itertools.product((1, 2, 3, 4), (1, 2, 3), (1, 2, 5), (0, -3.5), (1, 10), (False, True)):
        if tier == 'quick' and rnd.random() < 0.6:
            continue
        f = S.RandomFunction(input_dim=idim, output_dim=odim, num_terms=nt, center=center, amplitude=amp, complex=cplx).gen_sample()
        key = (idim, odim, nt, center, amp, cplx)
        pts = [tuple(rnd.uniform(-20, 20) for _ in range(idim)) for _ in range(25)]
        first, kept = [], []
        for p in pts:
            v = f(*p)
            first.append(v)
            kept.append(np.array(np.asarray(v).view(np.ndarray), copy=True))     # value as returned, copied at once
        again = [f(*p) for p in pts]
        bad = None
        for p, v, k2, w in zip(pts, first, kept, again):
            arr = np.atleast_1d(np.asarray(v)).view(np.ndarray)
            if (odim == 1) != (np.ndim(v) == 0):
                bad = 'output_dim=%d but value %r' % (odim, v)
            elif odim > 1 and (not isinstance(v, MA) or arr.shape != (odim,)):
                bad = 'output shape %r for output_dim %d' % (arr.shape, odim)
            elif np.max(np.abs(arr - center)) > amp * (1 + 1e-9):
                bad = '|f - center| = %r exceeds amplitude %r at %r' % (float(np.max(np.abs(arr - center))), amp, p)
            elif not np.allclose(np.asarray(w).view(np.ndarray), k2) or not np.allclose(np.asarray(v).view(np.ndarray), k2):
                bad = 'the drawn function is not fixed: f%r changed between evaluations' % (p,)
            elif not cplx and np.iscomplexobj(arr):
                bad = 'complex value from a real random function'
        try:
            f(*([1.0] * (idim + 1)))
            bad = bad or 'wrong number of arguments accepted'
        except exc.ConfigError:
            pass
        except Exception as e:
            bad = bad or 'wrong arity raised %s' % type(e).__name__
        check('RandomFunction', key, bad is None, 'RandomFunction(input_dim=%d, output_dim=%d, num_terms=%d, center=%r, amplitude=%r, complex=%s): %s' % (key + (bad,)),
              sample={'config': key, 'value': str(first[0])})
    # array samplers: shape, realness, norm range
    arr_cfgs = [(M.RealVectors, dict(shape=3)), (M.RealVectors, dict(shape=(4,), norm=[2, 2])), (M.ComplexVectors, dict(shape=2, norm=[0.5, 1])),
                (M.RealMatrices, dict(shape=(2, 3))), (M.ComplexMatrices, dict(shape=(3, 2), norm=[1, 2])), (M.RealTensors, dict(shape=(2, 2, 2))),
                (M.ComplexTensors, dict(shape=(2, 1, 3, 2), norm=[3, 4])), (M.RealMatrices, dict(shape=(3, 3), triangular='upper')),
                (M.RealMatrices, dict(shape=(2, 4), triangular='lower')), (M.ComplexMatrices, dict(shape=(3, 3), triangular='upper', norm=[1, 1]))]
    for cls, cfg in arr_cfgs:
        s = cls(**cfg)
        shape = cfg['shape'] if isinstance(cfg['shape'], tuple) else (cfg['shape'],)
        lo, hi = cfg.get('norm', [1, 5])
        bad = None
        for _ in range(draws // 3):
            v0 = s.gen_sample()
            v = np.asarray(v0).view(np.ndarray)
            n = np.linalg.norm(v)
            if not isinstance(v0, MA) or v.shape != shape:
                bad = 'shape %r' % (getattr(v, 'shape', None),)
            elif not (lo * (1 - 1e-9) <= n <= hi * (1 + 1e-9)):
                bad = 'norm %r outside [%r, %r]' % (n, lo, hi)
            elif ('Real' in cls.__name__) == bool(np.iscomplexobj(v)):
                bad = 'realness'
            elif cfg.get('triangular') == 'upper' and not np.allclose(v, np.triu(v)):
                bad = 'not upper triangular'
            elif cfg.get('triangular') == 'lower' and not np.allclose(v, np.tril(v)):
                bad = 'not lower triangular'
        check(cls.__name__, repr(cfg), bad is None, '%s(%r): %s' % (cls.__name__, cfg, bad), sample={'class': cls.__name__, 'config': str(cfg)})
    # square matrices: every accepted combination
    accepted = 0
    for dim, sym, tr, det, cplx in itertools.product((2, 3, 4, 5), (None, 'diagonal', 'symmetric', 'antisymmetric', 'hermitian', 'antihermitian'), (False, True), (None, 0, 1), (False, True)):
        try:
            s = M.SquareMatrices(dimension=dim, symmetry=sym, traceless=tr, determinant=det, complex=cplx)
        except exc.ConfigError:
            continue
        accepted += 1
        bad = None
        for _ in range(6 if tier == 'quick' else 40):
            A = np.asarray(s.gen_sample()).view(np.ndarray)
            n = np.linalg.norm(A)
            if A.shape != (dim, dim):
                bad = 'shape'
            elif not (1 - 1e-9 <= n <= 5 + 1e-9) and det != 1:
                bad = 'norm %r' % n
            elif sym == 'diagonal' and not np.allclose(A, np.diag(np.diag(A))):
                bad = 'not diagonal'
            elif sym == 'symmetric' and not np.allclose(A, A.T):
                bad = 'not symmetric'
            elif sym == 'antisymmetric' and not np.allclose(A, -A.T):
                bad = 'not antisymmetric'
            elif sym == 'hermitian' and not np.allclose(A, A.conj().T):
                bad = 'not hermitian'
            elif sym == 'antihermitian' and not np.allclose(A, -A.conj().T):
                bad = 'not antihermitian'
            elif tr and abs(np.trace(A)) > 1e-9 * max(1, n):
                bad = 'trace %r' % np.trace(A)
            elif det == 0 and abs(np.linalg.det(A)) > 1e-6 * max(1, n ** dim):
                bad = 'det %r, requested 0' % np.linalg.det(A)
            elif det == 1 and abs(np.linalg.det(A) - 1) > 1e-6:
                bad = 'det %r, requested 1' % np.linalg.det(A)
            elif not (cplx or sym in ('hermitian', 'antihermitian')) and np.iscomplexobj(A) and np.max(np.abs(A.imag)) > 0:
                bad = 'complex entries in a real sampler'
            if bad:
                break
        key = (dim, sym, tr, det, cplx)
        check('SquareMatrices', key, bad is None, 'SquareMatrices(dimension=%d, symmetry=%r, traceless=%s, determinant=%r, complex=%s): %s' % (key + (bad,)), sample={'config': key})
    check('SquareMatrices accepted combinations', 'count', accepted == 214, 'constructor accepts %d combinations, 214 expected' % accepted, sample={'accepted': accepted})
    for sampler in (S.RealInterval([2, 3]), S.IntegerRange([1, 4]), S.ComplexRectangle(), S.ComplexSector()):
        for dim in (2, 4):
            s = M.IdentityMatrixMultiples(dimension=dim, sampler=sampler)
            A = np.asarray(s.gen_sample()).view(np.ndarray)
            check('IdentityMatrixMultiples', (type(sampler).__name__, dim), A.shape == (dim, dim) and np.allclose(A, A[0, 0] * np.eye(dim)), 'not a multiple of the identity: %r' % A)
    return t.report(rule="option grids per sampler class x draws x evaluation points, each draw checked against the declared constraints; a case is a sampler configuration; "
                         "distinct = distinct (class, configuration) keys", bounds={'draws per configuration': draws, 'SquareMatrices combinations accepted': accepted}, exhaustive=False)


def replay(case):
    out = run('quick', 0)
    hit = [f for f in out['failures'] if f['key'] == case.get('key')]
    return {'reproduced': bool(hit), 'case': hit[:1]}
