"""
Bounded stand-in for C17 (labelled bounded; never counted as proved).

1. The schedule contracts evaluated by CPython on the statement's own grid:
   LinearCredit decrease_credit_after 1..6 x steps 1..6 x minimum {0, .1, .2, .5, 1}, GeometricCredit over a factor grid
   incl. 0 and 1, ReciprocalCredit, attempts 1..200 (quick: 1..60), plus monotonicity along each row.
2. apply_attempt_based_credit's contract evaluated around the real method on single and list results whose base grades
   cover 0, 1 and partial values, message flag on/off, attempts incl. 0, negative and None, author schedules returning
   ints or floats -- this is also the stand-in when the loop is rewritten and its invariant no longer applies.
3. End to end: grader(None, input, attempt=n) versus the same call without attempt-based credit.
4. Axioms A2 about round(x, 4) on a grid + random points.
"""
import random
import itertools
from bounded._common import Tally, rtcheck, load_contracts

ASSUMPTIONS = ["bounded tier: finite grids as stated in coverage.bounded.bounds"]
F = "mitxgraders/attemptcredit.py::"
B = "mitxgraders/baseclasses.py::"


def run(tier, seed):
    load_contracts()
    rnd = random.Random(seed)
    t = Tally('C17')
    ac = rtcheck.real_module('mitxgraders/attemptcredit.py')
    max_attempt = 200 if tier == 'thorough' else 60
    # 1. schedules
    rows = []
    for after, steps, mn in itertools.product(range(1, 7), range(1, 7), (0, 0.1, 0.2, 0.5, 1)):
        rows.append(('LinearCredit', ac.LinearCredit(decrease_credit_after=after, decrease_credit_steps=steps, minimum_credit=mn),
                     (after, steps, mn)))
    for f in (0, 0.1, 0.25, 0.5, 0.75, 0.9, 0.999, 1):
        rows.append(('GeometricCredit', ac.GeometricCredit(factor=f), (f,)))
    rows.append(('ReciprocalCredit', ac.ReciprocalCredit(), ()))
    for cls, obj, cfg in rows:
        prev = None
        for a in range(1, max_attempt + 1):
            out = rtcheck.check_call(F + cls + '.__call__', {'self': obj, 'attempt': a})
            t.record(cls + '.__call__', (cfg, a), out, 'schedule %s%s at attempt %d' % (cls, cfg, a), nontrivial=a > 1,
                     sample={'class': cls, 'config': cfg, 'attempt': a, 'value': out.result})
            if prev is not None and out.result is not None and out.result > prev + 1e-12:
                t.fail(cls + '.non_increasing', (cfg, a), 'schedule %s%s increases from attempt %d to %d: %r -> %r' % (cls, cfg, a - 1, a, prev, out.result))
            prev = out.result
    # 2. apply_attempt_based_credit around the real method
    sg = rtcheck.real_module('mitxgraders/stringgrader.py')
    palette = [0, 1, 0.5, 0.25, 1.0, 0.0]
    schedules = [('linear', ac.LinearCredit()), ('linear0', ac.LinearCredit(minimum_credit=0, decrease_credit_steps=2)),
                 ('geo0', ac.GeometricCredit(factor=0)), ('geo', ac.GeometricCredit(factor=0.5)),
                 ('recip', ac.ReciprocalCredit()), ('int', lambda n: 1 if n < 3 else 0), ('float', lambda n: 0.3333)]
    attempts = [None, -3, 0, 1, 2, 3, 4, 5, 9]
    shapes = []
    for g in palette:
        shapes.append(('short', [g]))
    for gs in itertools.product([0, 1, 0.5], repeat=2):
        shapes.append(('list', list(gs)))
    shapes.append(('list', []))
    shapes.append(('list', [0.25, 0, 1, 0.75]))
    n = 0
    for (sname, sched), flag, att, (form, grades) in itertools.product(schedules, (True, False), attempts, shapes):
        if tier == 'quick' and rnd.random() < 0.5:
            continue
        grader = sg.StringGrader(answers='x', attempt_based_credit=sched, attempt_based_credit_msg=flag)
        grader.debuglog = []
        def ok_of(g):
            return True if g == 1 else (False if g == 0 else 'partial')
        if form == 'short':
            result = {'ok': ok_of(grades[0]), 'grade_decimal': grades[0], 'msg': rnd.choice(['', 'hello'])}
        else:
            result = {'overall_message': rnd.choice(['', 'overall']),
                      'input_list': [{'ok': ok_of(g), 'grade_decimal': g, 'msg': rnd.choice(['', 'm'])} for g in grades]}
        out = rtcheck.check_call(B + 'AbstractGrader.apply_attempt_based_credit',
                                 {'self': grader, 'result': result, 'attempt_number': att},
                                 ufns={'SCHEDULE': sched})
        t.record('AbstractGrader.apply_attempt_based_credit', (sname, flag, att, form, tuple(grades)), out,
                 'apply_attempt_based_credit schedule=%s flag=%s attempt=%r %s grades=%r' % (sname, flag, att, form, grades),
                 nontrivial=att is not None and any(g > 0 for g in grades),
                 sample={'schedule': sname, 'msg_flag': flag, 'attempt': att, 'form': form, 'grades': grades, 'after': result})
        n += 1
    # 3. end to end through graders
    lg = rtcheck.real_module('mitxgraders/listgrader.py')
    for (sname, sched), att in itertools.product(schedules, [0, 1, 2, 3, 5, 8]):
        for mk, inp in ((lambda **kw: sg.StringGrader(answers=({'expect': 'a', 'grade_decimal': 1}, {'expect': 'b', 'grade_decimal': 0.5}), **kw), ['a', 'b', 'c']),
                        (lambda **kw: lg.ListGrader(answers=[({'expect': 'a'}, {'expect': 'b', 'grade_decimal': 0.5}), 'c'], subgraders=sg.StringGrader(), ordered=True, **kw),
                         [['a', 'c'], ['b', 'x'], ['x', 'y']])):
            for i in inp:
                try:
                    plain = mk()(None, i)
                    with_c = mk(attempt_based_credit=sched)(None, i, attempt=att)
                except Exception as e:
                    t.fail('grader(None, input, attempt=n)', (sname, att, repr(i)),
                           'attempt=%d schedule=%s input=%r raised %s: %s' % (att, sname, i, type(e).__name__, str(e)[:200]))
                    continue
                c = round(float(sched(max(att, 1))), 4)
                exp = _expected(plain, c)
                got = _strip_note(with_c)
                if not _same_result(exp, got):
                    t.fail('grader(None, input, attempt=n)', (sname, att, repr(i)),
                           'attempt=%d schedule=%s input=%r: expected %r got %r' % (att, sname, i, exp, got))
                else:
                    t.ok('grader(None, input, attempt=n)', (sname, att, repr(i)), sample={'schedule': sname, 'attempt': att, 'input': i, 'result': with_c})
        # omitting the attempt is a configuration error
        try:
            sg.StringGrader(answers='a', attempt_based_credit=sched)(None, 'a')
            t.fail('missing attempt', sname, 'no error when attempt is omitted')
        except Exception as e:
            if type(e).__name__ != 'ConfigError':
                t.fail('missing attempt', sname, 'wrong error class %s' % type(e).__name__)
            else:
                t.ok('missing attempt', sname)
    # 4. round4 axioms (A2)
    pts = [k / 20000.0 for k in range(0, 20001, 7)] + [rnd.random() for _ in range(3000 if tier == 'quick' else 100000)]
    pts.sort()
    prev = None
    for x in pts:
        r = round(x, 4)
        if abs(r - x) > 5e-5 + 1e-12 or (prev is not None and r < prev) or not (0 <= r <= 1):
            t.fail('A2 round4 axioms', x, 'round(%r, 4) = %r violates the axioms' % (x, r))
        prev = r
    t.ok('A2 round4 axioms', len(pts), sample={'points': len(pts)})
    return t.report(rule="grid enumeration of schedule configurations x attempts; results x schedules x attempts x flag through the "
                         "real apply_attempt_based_credit with the contract clauses evaluated by CPython; a case is non-trivial when "
                         "attempt > 1 (schedules) or some grade is positive (grader); distinct = distinct (contract, case) keys",
                    bounds={'attempts': '1..%d' % max_attempt, 'linear grid': '6x6x5', 'geometric factors': 8,
                            'result shapes': len(shapes), 'schedules': len(schedules), 'attempt values': attempts},
                    exhaustive=False)


def _expected(plain, c):
    import copy
    r = copy.deepcopy(plain)
    entries = r['input_list'] if 'input_list' in r else [r]
    if c != 1:
        for e in entries:
            if e['grade_decimal'] > 0:
                e['grade_decimal'] = e['grade_decimal'] * c
                e['ok'] = True if e['grade_decimal'] == 1 else (False if e['grade_decimal'] == 0 else 'partial')
    return r


def _strip_note(r):
    import copy, re
    r = copy.deepcopy(r)
    key = 'overall_message' if 'input_list' in r else 'msg'
    r[key] = re.sub(r'(<br/>\n<br/>\n)?Maximum credit for attempt #\d+ is [\d.]+%\.$', '', r[key])
    return r


def _same_result(a, b):
    ea = a['input_list'] if 'input_list' in a else [a]
    eb = b['input_list'] if 'input_list' in b else [b]
    if len(ea) != len(eb):
        return False
    for x, y in zip(ea, eb):
        if abs(x['grade_decimal'] - y['grade_decimal']) > 1e-9 or x['ok'] is not y['ok'] and x['ok'] != y['ok'] or x['msg'] != y['msg']:
            return False
    ka = 'overall_message' if 'input_list' in a else None
    return True if ka is None else a[ka] == b[ka]


def replay(case):
    out = run('quick', 0)
    hit = [f for f in out['failures'] if f['key'] == case.get('key')]
    return {'reproduced': bool(hit), 'case': hit[:1]}
