"""
Bounded stand-in for C05 (never counted as proved): ListGrader against an exhaustive-search oracle through a table-driven ItemGrader.
Ordered: the i-th result is exactly what the i-th subgrader returns for the i-th answer and input.  Unordered: total credit maximal over all
one-to-one assignments (all n! for n <= 5, permutations of the inputs), results reported at the position of the input they grade; 1-3 alternative
answer lists (maximal total); partial_credit=False zeroing; groupings (equal-size groups when unordered, nested List/SingleList subgraders).
"""
import itertools
import random
from bounded._common import Tally, rtcheck, load_contracts

ASSUMPTIONS = ["bounded tier: n <= 5 inputs for exhaustive assignment search, credit palette {0, .25, .5, 1}, groupings of up to 8 inputs"]


def run(tier, seed):
    load_contracts()
    rnd = random.Random(seed)
    t = Tally('C05')
    lg = rtcheck.real_module('mitxgraders/listgrader.py')
    bc = rtcheck.real_module('mitxgraders/baseclasses.py')
    sg = rtcheck.real_module('mitxgraders/stringgrader.py')
    exc = rtcheck.real_module('mitxgraders/exceptions.py')
    palette = [0, 0.25, 0.5, 1]

    class TableGrader(bc.ItemGrader):
        table = {}
        calls = []

        def check_response(self, answer, student_input, **kwargs):
            g = self.table.get((answer['expect'], student_input), 0)
            return {'ok': bc.AbstractGrader.grade_decimal_to_ok(g), 'grade_decimal': g, 'msg': '%s|%s' % (answer['expect'], student_input)}

    n_cfg = 200 if tier == 'quick' else 2500
    for cfg in range(n_cfg):
        n = rnd.randint(2, 5)
        n_lists = rnd.choice([1, 1, 2, 3])
        ordered = rnd.random() < 0.35
        pc = rnd.random() < 0.7
        inputs = ['s%d' % i for i in range(n)]
        lists = [['L%da%d' % (l, i) for i in range(n)] for l in range(n_lists)]
        table = {}
        for l in range(n_lists):
            for a in lists[l]:
                for s in inputs:
                    table[(a, s)] = rnd.choice(palette) if rnd.random() < 0.6 else 0
        TableGrader.table = table
        g = lg.ListGrader(answers=tuple(lists) if n_lists > 1 else lists[0], subgraders=TableGrader(), ordered=ordered, partial_credit=pc)
        perms = [inputs] if ordered or n > 4 else [list(p) for p in itertools.permutations(inputs)][:24]
        for perm in perms:
            try:
                r = g(None, list(perm))
            except Exception as e:
                t.fail('ListGrader', (cfg, tuple(perm)), 'raised %s: %s' % (type(e).__name__, e))
                continue
            il = r['input_list']
            key = (cfg, tuple(perm))
            # oracle: best total over lists and assignments
            best = -1
            for l in range(n_lists):
                if ordered:
                    tot = sum(table[(lists[l][i], perm[i])] for i in range(n))
                else:
                    tot = max(sum(table[(lists[l][sig[i]], perm[i])] for i in range(n)) for sig in itertools.permutations(range(n)))
                best = max(best, tot)
            bad = None
            if len(il) != n:
                bad = '%d results for %d inputs' % (len(il), n)
            else:
                # every result is the subgrader's result for the input at that position (the message names answer|input)
                used = []
                for i, e in enumerate(il):
                    a, s = e['msg'].split('|')
                    if s != perm[i]:
                        bad = 'result %d grades input %r but box %d holds %r' % (i, s, i, perm[i])
                    used.append(a)
                    raw = table.get((a, s), 0)
                    if not pc and abs(sum(table.get(tuple(x['msg'].split('|')), 0) for x in il) - n) > 1e-12:
                        if e['grade_decimal'] != 0 or e['ok'] is not False:
                            bad = bad or 'partial_credit=False but entry %d keeps %r although not every entry is fully correct' % (i, e)
                    elif abs(e['grade_decimal'] - raw) > 1e-12:
                        bad = bad or 'entry %d has grade %r but the subgrader gives %r for (%s, %s)' % (i, e['grade_decimal'], raw, a, s)
                if not bad:
                    if len(set(used)) != n:
                        bad = 'an answer is used twice: %r' % used
                    elif not any(sorted(used) == sorted(L) for L in lists):
                        bad = 'answers %r are not one of the answer lists' % used
                    elif ordered and not any(used == L for L in lists):
                        bad = 'ordered grader did not pair positionally: %r' % used
                    tot = sum(table[(a, s)] for a, s in zip(used, perm))
                    if not bad and abs(tot - best) > 1e-9:
                        bad = 'total credit %r but an assignment / answer list with %r exists' % (tot, best)
            if bad:
                t.fail('ListGrader', key, 'lists=%r inputs=%r ordered=%s partial_credit=%s table=%r: %s' % (lists, perm, ordered, pc, {k: v for k, v in table.items() if v}, bad))
            else:
                t.ok('ListGrader', key, sample={'answers': lists, 'inputs': perm, 'ordered': ordered, 'partial_credit': pc, 'grades': [e['grade_decimal'] for e in il]})
    # siblings / exact pass-through in ordered mode
    class Spy(bc.ItemGrader):
        seen = []

        def check_response(self, answer, student_input, **kwargs):
            Spy.seen.append((answer['expect'], student_input, [s['input'] for s in kwargs.get('siblings', [])]))
            return {'ok': True, 'grade_decimal': 1, 'msg': ''}
    Spy.seen = []
    lg.ListGrader(answers=['a', 'b', 'c'], subgraders=[Spy(), Spy(), Spy()], ordered=True)(None, ['x', 'y', 'z'])
    if Spy.seen != [('a', 'x', ['x', 'y', 'z']), ('b', 'y', ['x', 'y', 'z']), ('c', 'z', ['x', 'y', 'z'])]:
        t.fail('ordered pairing and siblings', 'spy', 'subgraders saw %r' % Spy.seen)
    else:
        t.ok('ordered pairing and siblings', 'spy', sample={'seen': Spy.seen})
    # groupings: results at the position of the input they grade
    cases = [
        (dict(answers=[['a', 'b'], ['c', 'd']], subgraders=lg.ListGrader(subgraders=sg.StringGrader(), ordered=False), grouping=[1, 1, 2, 2], ordered=False),
         {('a', 'b', 'c', 'd'): [1, 1, 1, 1], ('d', 'c', 'b', 'a'): [1, 1, 1, 1], ('a', 'x', 'c', 'd'): [1, 0, 1, 1], ('c', 'x', 'a', 'b'): [1, 0, 1, 1], ('a', 'c', 'b', 'd'): None}),
        (dict(answers=[['a', 'b'], ['c', 'd']], subgraders=lg.ListGrader(subgraders=sg.StringGrader(), ordered=False), grouping=[1, 2, 1, 2], ordered=False),
         {('a', 'c', 'b', 'd'): [1, 1, 1, 1], ('c', 'a', 'd', 'b'): [1, 1, 1, 1], ('a', 'c', 'x', 'd'): [1, 1, 0, 1]}),
        (dict(answers=[['a', 'b', 'c'], 'z', ['p', 'q']], subgraders=[lg.ListGrader(subgraders=sg.StringGrader(), ordered=False), sg.StringGrader(),
                                                                      lg.SingleListGrader(subgrader=sg.StringGrader())],
              grouping=[1, 3, 1, 2, 1], ordered=True),
         {('c', 'p, q', 'a', 'z', 'b'): [1, 1, 1, 1, 1], ('c', 'p', 'x', 'z', 'b'): [1, 0.5, 0, 1, 1], ('a', 'q,p', 'b', 'w', 'c'): [1, 1, 1, 0, 1]}),
        (dict(answers=[['a', 'b', 'c'], ['d', 'e', 'f']], subgraders=lg.ListGrader(subgraders=sg.StringGrader(), ordered=False), grouping=[1, 1, 1, 2, 2, 2], ordered=False),
         {('e', 'x', 'y', 'z', 'a', 'w'): [1, 0, 0, 0, 1, 0], ('a', 'b', 'c', 'd', 'e', 'f'): [1] * 6, ('f', 'e', 'x', 'c', 'b', 'a'): [1, 1, 0, 1, 1, 1]}),
    ]
    for cfgk, (kw, expected) in enumerate(cases):
        g = lg.ListGrader(**kw)
        for inp, want in expected.items():
            r = g(None, list(inp))
            got = [e['grade_decimal'] for e in r['input_list']]
            key = ('grouping', cfgk, inp)
            if want is None:
                want_tot = 2
                ok = abs(sum(got) - want_tot) < 1e-9 and len(got) == len(inp)
            else:
                ok = len(got) == len(want) and all(abs(a - b) < 1e-9 for a, b in zip(got, want))
            if ok:
                t.ok('grouped ListGrader', key, sample={'grouping': kw['grouping'], 'inputs': inp, 'grades': got})
            else:
                t.fail('grouped ListGrader', key, 'grouping %r inputs %r: grades %r expected %r' % (kw['grouping'], inp, got, want))
    # wrong number of inputs is refused
    g = lg.ListGrader(answers=['a', 'b'], subgraders=sg.StringGrader())
    for inp in (['a'], ['a', 'b', 'c'], []):
        try:
            r = g(None, inp)
            t.fail('ListGrader.validate_submission', tuple(inp), '%d inputs for 2 answers were graded: %r' % (len(inp), r))
        except exc.ConfigError:
            t.ok('ListGrader.validate_submission', tuple(inp))
    F = 'mitxgraders/listgrader.py::ListGrader.validate_submission'
    for grouping, na, ni in itertools.product((None, [], [1, 2], [1, 1, 2]), (1, 2, 3), (0, 1, 2, 3, 4)):
        selfobj = object.__new__(lg.ListGrader)
        selfobj.config = {'grouping': grouping}
        out = rtcheck.check_call(F, {'self': selfobj, 'answers': ['x'] * na, 'student_list': ['y'] * ni})
        t.record('ListGrader.validate_submission (contract)', (repr(grouping), na, ni), out, 'validate_submission grouping=%r answers=%d inputs=%d' % (grouping, na, ni))
    # the assignment step itself, exhaustively on the statement's small family: every 4 x 4 matrix of 0/1 credits (65536) through find_optimal_order
    # (the real cost-matrix construction + Munkres), total credit compared with the best over all 24 one-to-one assignments
    perms4 = list(itertools.permutations(range(4)))
    answers4, inputs4 = ['a0', 'a1', 'a2', 'a3'], ['s0', 's1', 's2', 's3']
    n_bad = 0
    for bits in range(1 << 16):
        m = [[(bits >> (4 * r + c)) & 1 for c in range(4)] for r in range(4)]        # m[input][answer]
        def chk(a, s, m=m):
            g = m[int(s[1])][int(a[1])]
            return {'ok': bool(g), 'grade_decimal': g, 'msg': ''}
        try:
            got = sum(e['grade_decimal'] for e in lg.find_optimal_order(chk, answers4, inputs4))
        except Exception as e:
            got = '%s: %s' % (type(e).__name__, str(e)[:80])
        best = max(sum(m[i][p[i]] for i in range(4)) for p in perms4)
        if got != best:
            n_bad += 1
            if n_bad <= 10:
                t.fail('find_optimal_order (exhaustive 4x4 over {0,1})', ('bits', bits), 'credit matrix (rows = inputs) %r: assignment with total credit %r, the best one-to-one assignment has %r' % (m, got, best))
    t.evaluations += (1 << 16)
    t.by_contract['find_optimal_order (exhaustive 4x4 over {0,1})'] = 1 << 16
    t.distinct.add(('find_optimal_order exhaustive', 1 << 16))
    # ... and random 5 x 5 / 6 x 6 credit tables with ties and fractional credits
    n_rand = 3000 if tier == 'quick' else 30000
    for k in range(n_rand):
        n = rnd.choice((5, 6))
        m = [[rnd.choice((0, 0, 1, 1, 0.5, 0.25)) for _ in range(n)] for _ in range(n)]
        ans, inp = ['a%d' % i for i in range(n)], ['s%d' % i for i in range(n)]
        def chk(a, s, m=m):
            g = m[int(s[1:])][int(a[1:])]
            return {'ok': bc.AbstractGrader.grade_decimal_to_ok(g), 'grade_decimal': g, 'msg': ''}
        try:
            got = sum(e['grade_decimal'] for e in lg.find_optimal_order(chk, ans, inp))
        except Exception as e:
            got = '%s: %s' % (type(e).__name__, str(e)[:80])
        best = max(sum(m[i][p[i]] for i in range(n)) for p in itertools.permutations(range(n)))
        ok = not isinstance(got, str) and abs(got - best) < 1e-9
        (t.ok if ok else t.fail)('find_optimal_order (random 5x5 / 6x6)', ('rand', k), *([] if ok else ['credit matrix %r: total credit %r, best assignment %r' % (m, got, best)]))
    return t.report(rule="random ListGrader configurations with a table-driven subgrader (every permutation of <= 4 inputs) against exhaustive search over assignments and answer lists; "
                         "fixed grouped/nested cases; contract of validate_submission under CPython; distinct = distinct (configuration, input order) keys",
                    bounds={'configurations': n_cfg, 'inputs': '1..5', 'alternative lists': '1..3'}, exhaustive=False)


def replay(case):
    out = run('quick', 0)
    hit = [f for f in out['failures'] if f['key'] == case.get('key')]
    return {'reproduced': bool(hit), 'case': hit[:1]}
