"""
Bounded stand-in for C09 (never counted as proved): combinations of blacklist / whitelist / whitelist=[None] / required_functions / forbidden_strings /
instructor_vars / user functions and constants / numbered variables / metric suffixes x 'cheating' formulas = a correct answer combined with a neutral
term that uses the restricted construct (f(0)*0, +z-z, z^0, nested in function arguments, array entries, exponents, primed and case-variant names), for
Formula, Numerical, Matrix and Sum graders and ordered lists whose answers reference sibling inputs, at full and at partial credit.  Each must raise a
student-facing error and never return credit; the author's own answers may use all of these.
"""
import itertools
import random
from bounded._common import Tally, rtcheck, load_contracts

ASSUMPTIONS = ["bounded tier: fixed cheating-formula templates (listed in bounded/C09.py) x configuration grid"]


def run(tier, seed):
    load_contracts()
    rnd = random.Random(seed)
    t = Tally('C09')
    fgm = rtcheck.real_module('mitxgraders/formulagrader/formulagrader.py')
    mgm = rtcheck.real_module('mitxgraders/formulagrader/matrixgrader.py')
    sumg = rtcheck.real_module('mitxgraders/formulagrader/integralgrader.py')
    lg = rtcheck.real_module('mitxgraders/listgrader.py')
    exc = rtcheck.real_module('mitxgraders/exceptions.py')
    cexc = rtcheck.real_module('mitxgraders/helpers/calc/exceptions.py')
    mh = rtcheck.real_module('mitxgraders/helpers/math_helpers.py')

    def outcome(g, inp):
        try:
            r = g(None, inp)
            if isinstance(r, dict) and 'input_list' in r:
                return ('credit', max(e['grade_decimal'] for e in r['input_list']))
            return ('credit', r['grade_decimal'])
        except exc.StudentFacingError as e:
            return (type(e).__name__, str(e)[:80])
        except Exception as e:
            return ('foreign ' + type(e).__name__, str(e)[:80])

    def must_refuse(name, key, g, inp, classes):
        out = outcome(g, inp)
        ok = out[0] in classes
        if ok:
            t.ok(name, key, sample={'input': inp, 'outcome': out[0]})
        else:
            t.fail(name, key, '%s: input %r should be refused with %s but gave %r' % (name, inp, '/'.join(classes), out))

    def must_accept(name, key, g, inp, grade):
        out = outcome(g, inp)
        ok = out[0] == 'credit' and abs(out[1] - grade) < 1e-9
        (t.ok if ok else t.fail)(name, key, *([] if ok else ['%s: input %r should earn %r but gave %r' % (name, inp, grade, out)]))

    neutral = ['{base} + {f}(0)*0', '{base} + 0*{f}(x)', '{base}*{f}(0)^0', '{base} + {f}(1) - {f}(1)', '{base} + sin({f}(0)*0)', '({base})^({f}(0)^0)', '{f}(0)*0 + {base}']
    # function restrictions, at full and partial credit
    for credit in (1, 0.5):
        ans = {'expect': 'x^2', 'grade_decimal': credit}
        cfgs = {
            'blacklist': (dict(blacklist=['tan']), 'tan', 'cos'),
            'whitelist': (dict(whitelist=['cos']), 'tan', 'cos'),
            'whitelist=[None]': (dict(whitelist=[None]), 'cos', None),
            'user function not whitelisted': (dict(whitelist=['cos'], user_functions={'g': lambda z: z}), 'sin', 'g'),
        }
        for cname, (kw, bad_f, ok_f) in cfgs.items():
            g = fgm.FormulaGrader(answers=ans, variables=['x'], **kw)
            must_accept('function restrictions', (cname, credit, 'plain'), g, 'x^2', credit)
            for tpl in neutral:
                must_refuse('function restrictions', (cname, credit, tpl), g, tpl.format(base='x^2', f=bad_f), ('InvalidInput',))
                if ok_f and 'sin(' not in tpl:
                    must_accept('function restrictions', (cname, credit, tpl, 'allowed'), g, tpl.format(base='x^2', f=ok_f), credit)
            must_refuse('function restrictions', (cname, credit, 'case variant'), g, 'x^2 + %s(0)*0' % bad_f.capitalize(), ('UndefinedFunction', 'InvalidInput'))
        # required functions / forbidden strings
        g = fgm.FormulaGrader(answers={'expect': 'sin(x)^2', 'grade_decimal': credit}, variables=['x'], required_functions=['sin'])
        must_accept('required_functions', (credit, 'uses'), g, 'sin(x)*sin(x)', credit)
        must_refuse('required_functions', (credit, 'omits'), g, '1 - cos(x)^2', ('InvalidInput',))
        g = fgm.FormulaGrader(answers={'expect': '2*x + 2', 'grade_decimal': credit}, variables=['x'], forbidden_strings=['x + 1', '+2'])
        must_accept('forbidden_strings', (credit, 'ok'), g, '2 + x*2', credit)
        for s in ('2*(x + 1)', '2*( x+1 )', '2*(x   +   1)', '2*x+2', '2*x + 2', '2*x +  2'):
            must_refuse('forbidden_strings', (credit, s), g, s, ('InvalidInput',))
        # matrix grader with entry partial credit: restrictions still apply to partially correct answers
        g = mgm.MatrixGrader(answers='[1, 2, 3, 4]', entry_partial_credit='proportional', blacklist=['trans'], max_array_dim=1)
        must_refuse('function restrictions (partial credit)', ('matrix', 'trans'), g, 'trans([1, 2, 3, 5])', ('InvalidInput',))
        g = fgm.NumericalGrader(answers=({'expect': 'sqrt(2)'}, {'expect': '-sqrt(2)', 'grade_decimal': 0.5}), blacklist=['sqrt'], suppress_warnings=True)
        must_refuse('function restrictions (partial credit)', ('numerical',), g, '-sqrt(2)', ('InvalidInput',))
        must_accept('function restrictions (partial credit)', ('numerical ok',), g, '-(2^0.5)', 0.5)
    # names: instructor variables, undefined names, constants, numbered variables, primes
    g = fgm.FormulaGrader(answers='c*x', variables=['x', 'c', "x'"], instructor_vars=['c'], numbered_vars=['a'], user_constants={'k0': 3.0})
    must_accept('names', 'allowed', g, "c*x + x' - x' + a_{1} - a_{1} + k0 - k0" .replace('c*x', '0*x + c*x') if False else "x*1 + x' - x' + a_{1} - a_{1} + k0 - k0 + 0", 0) if False else None
    for s in ('c*x', 'x*c^1', 'x + c - c', 'x + 0*c', 'x*c^0', 'x + sin(c)*0', 'x + [c, 1]*[0, 0]'):
        must_refuse('instructor variables', s, g, s, ('UndefinedVariable',))
    for s in ('x + z - z', 'x + 0*z', 'x*Z^0', "x + x'' - x''", 'x + b_{1}*0', 'x + a_1*0', 'x + K0*0', 'x + X - X'):
        must_refuse('undefined names', s, g, s, ('UndefinedVariable', 'UndefinedFunction'))
    # suffixes: metric suffixes only where enabled -- also after a grader with metric suffixes has been built in the same process
    plain = fgm.FormulaGrader(answers='5*x', variables=['x'])
    must_refuse('suffixes', 'before', plain, '5*x + 0k', ('UnableToParse', 'UndefinedVariable', 'UndefinedFunction', 'InvalidInput'))
    metric = fgm.FormulaGrader(answers='5000*x', variables=['x'], metric_suffixes=True)
    must_accept('suffixes', 'metric grader', metric, '5k*x', 1)
    later = fgm.NumericalGrader(answers='2000')
    for name, g2, s in (('early grader', plain, '5*x + 0k'), ('early grader', plain, '5000m*x'), ('later grader', later, '2k'), ('later grader', later, '2000 + 0M'),
                        ('matrix', mgm.MatrixGrader(answers='[1, 2]', max_array_dim=1), '[1, 2000m]'),
                        ('sum', sumg.SumGrader(answers={'lower': '1', 'upper': '3', 'summand': 'n', 'summation_variable': 'n'}, input_positions={'summand': 1}), 'n + 0k')):
        must_refuse('suffixes', (name, s), g2, s, ('UnableToParse', 'UndefinedVariable', 'UndefinedFunction', 'InvalidInput'))
    must_accept('suffixes', 'percent still fine', plain, '500%*x', 1)
    # sibling variables: only the author's answers may reference them
    g = lg.ListGrader(answers=['x^2', 'sibling_1 + 1'], subgraders=fgm.FormulaGrader(variables=['x']), ordered=True)
    must_accept('sibling variables', 'author uses sibling', g, ['x^2', 'x^2 + 1'], 1)
    for lst in (['x^2', 'sibling_1 + 1'], ['x^2 + 0*sibling_2', 'x^2+1'], ['x^2', 'x^2 + 1 + sibling_1 - sibling_1']):
        must_refuse('sibling variables', repr(lst), g, lst, ('UndefinedVariable',))
    # SumGrader: instructor variables and restrictions
    g = sumg.SumGrader(answers={'lower': '1', 'upper': '3', 'summand': 'c*n', 'summation_variable': 'n'}, variables=['c'], instructor_vars=['c'],
                       input_positions={'summand': 1}, blacklist=['cos'])
    must_refuse('SumGrader', 'instructor var', g, 'c*n', ('UndefinedVariable',))
    # ... a restricted function is refused in EVERY box of a sum (either limit or the summand), under blacklist, whitelist and whitelist=[None]
    S = rtcheck.real_module('mitxgraders/sampling.py')
    for label, kw, bad in (('blacklist', dict(blacklist=['sin', 'cos']), 'sin'), ('whitelist', dict(whitelist=['exp']), 'cos'), ('whitelist=[None]', dict(whitelist=[None]), 'sqrt')):
        g = sumg.SumGrader(answers={'lower': '1', 'upper': '10', 'summand': 'x^2', 'summation_variable': 'x'}, input_positions={'lower': 1, 'upper': 2, 'summand': 3, 'summation_variable': 4}, **kw)
        must_accept('SumGrader restrictions', (label, 'clean'), g, ['1', '10', 'x^2', 'x'], 1)
        neutral = {'sin': '0*sin(0)', 'cos': '0*cos(0)', 'sqrt': '0*sqrt(1)'}[bad]
        for pos, lst in ((0, ['1 + %s' % neutral, '10', 'x^2', 'x']), (1, ['1', '10 + %s' % neutral, 'x^2', 'x']), (2, ['1', '10', 'x^2 + %s' % neutral, 'x']),
                         (0, ['abs(1 + %s)' % neutral if label == 'blacklist' else '1 - %s' % neutral, '10', 'x^2', 'x'])):
            must_refuse('SumGrader restrictions', (label, pos, lst[pos]), g, lst, ('InvalidInput',))
    # sibling inputs that reach a box only through a dependent sampler are just as unavailable to the student as those the author's answer names
    def dep_list():
        return lg.ListGrader(answers=['1', 'x'], subgraders=[fgm.FormulaGrader(), fgm.FormulaGrader(variables=['x'], sample_from={'x': S.DependentSampler(formula='sibling_1+1')})], ordered=True)
    must_accept('sibling variables (dependent sampler)', 'honest', dep_list(), ['1', 'x'], 1)
    for cheat in ('sibling_1 + 1', 'x + sibling_1 - sibling_1', 'x*sibling_1^0', 'x + 0*sin(sibling_1)'):
        must_refuse('sibling variables (dependent sampler)', cheat, dep_list(), ['1', cheat], ('UndefinedVariable',))
    # contracts under CPython
    F = 'mitxgraders/helpers/math_helpers.py::'
    for used, req in itertools.product([set(), {'sin'}, {'sin', 'cos'}], [[], ['sin'], ['sin', 'tan'], ['cos', 'sin']]):
        o = rtcheck.check_call(F + 'validate_required_functions_used', {'used_funcs': used, 'required_funcs': req})
        t.record('validate_required_functions_used', (repr(sorted(used)), repr(req)), o, 'required %r used %r' % (req, used))
    for expr, forb in itertools.product([['x + 1'], ['a b', 'c  d'], ['x+1', '2 * y'], []], [[], ['x+1'], ['b c'], ['* y', ' ab']]):
        o = rtcheck.check_call(F + 'validate_forbidden_strings_not_used', {'expr': list(expr), 'forbidden_strings': forb, 'forbidden_msg': 'no!'})
        t.record('validate_forbidden_strings_not_used', (repr(expr), repr(forb)), o, 'expr %r forbidden %r' % (expr, forb))
    # get_permitted_functions: the statement's set algebra
    dflt, always = ['sin', 'cos', 'tan'], ['f']
    for wl, bl, want in (([], [], {'sin', 'cos', 'tan', 'f'}), ([], ['tan'], {'sin', 'cos', 'f'}), (['cos'], [], {'cos', 'f'}), ([None], [], {'f'})):
        got = mh.get_permitted_functions(dflt, wl, bl, always)
        (t.ok if set(got) == want else t.fail)('get_permitted_functions', (repr(wl), repr(bl)), *([] if set(got) == want else ['whitelist %r blacklist %r: %r expected %r' % (wl, bl, got, want)]))
    return t.report(rule="configuration grid x cheating-formula templates (neutral terms using the restricted construct) at full and partial credit, each classified as refused / credited / foreign error; "
                         "control formulas must keep their credit; distinct = distinct (restriction, template) keys", bounds={'templates': len(neutral)}, exhaustive=False)


def replay(case):
    out = run('quick', 0)
    hit = [f for f in out['failures'] if f['key'] == case.get('key')]
    return {'reproduced': bool(hit), 'case': hit[:1]}
