"""
Bounded stand-in for C03 (never counted as proved): formula strings evaluate to the value mathematics assigns them.

An independent reference (own AST, own precedence-climbing parser written from the property statement, own evaluator in Python float/complex/numpy
arithmetic, own renderer printing an AST with the minimal parentheses that the documented precedence demands) is compared with
`evaluator(formula, variables, functions, suffixes)[0]` and with NumericalGrader/FormulaGrader verdicts.

Swept:
 1. operator sequences: every sequence of n <= 4 binary operators from {+ - * / ^ ||} with an optional unary minus before every leaf
    (quick: n <= 3 exhaustively and every 41st sequence of length 4; thorough: all of length 4, two leaf assignments each), leaves = distinct values from
    {2, 3, 5, 7, 1.5} as literals, as real variables and as complex variables (names with subscripts, primes, tensor indices),
    renderings: flat string, whitespace / em-dash / spaces-anywhere rendering, fully parenthesised rendering;
 2. random derivations of depth <= 4 (quick) / 6 (thorough) with functions (sin cos exp sqrt abs min max + user functions f, f', g_1, F), subscripted,
    tensor-indexed, primed names, upper/lower-case pairs, default constants, all literal formats, real and complex bindings, three renderings;
 3. vector / matrix literals under + - unary minus, scalar * and / (compared with numpy);
 4. every number literal format x every exponent format x every suffix (720 literals), suffixed numbers next to every operator, suffix letters that are
    also variables;
 5. strings invalid by construction (doubled operators, juxtaposition, empty brackets / argument lists, unbalanced brackets, dangling operators, foreign
    characters, tabs or line breaks inside a token, wrong-case names), and every token string of length <= 4 over a 13-token
    alphabet plus random longer ones, classified by the reference grammar;
 6. empty input -> nan; grader verdicts on constant expressions and on sampled formulas (same tree in another rendering: correct, regrouped tree with a
    different value: incorrect).
"""
import cmath
import itertools
import math
import os
import random
import numpy as np
from bounded._common import Tally, rtcheck, load_contracts

ASSUMPTIONS = ["bounded tier: operator sequences of length <= 4 over 5 leaf values (quick: length 4 subsampled 1/41), random derivations of depth <= 4 (quick, 800 trees) / "
               "<= 6 (thorough, 20000 trees), token strings of length <= 4 over 13 tokens; reference values outside 1e-100..1e100, zero divisors / zero bases, "
               "exactly cancelling sums, arguments on a branch cut and trees whose forward error bound exceeds 1e-11 are skipped (counted); comparison relative 1e-9"]

EMDASH = u'—'
# oracle multipliers: taken from docs/grading_math/formula_grader.md ("Suffixes"), not from the library
MULT = {'': 1.0, '%': 0.01, 'k': 1e3, 'M': 1e6, 'G': 1e9, 'T': 1e12, 'm': 1e-3, 'u': 1e-6, 'n': 1e-9, 'p': 1e-12}
OPS = ['+', '-', '*', '/', '^', '||']
LEVEL = {'add': 1, 'mul': 2, 'par': 3, 'neg': 4, 'pow': 5, 'num': 6, 'var': 6, 'fn': 6, 'arr': 6, 'paren': 6}
BIG, SMALL = 1e100, 1e-100
RTOL = 1e-9


class Skip(Exception):
    """the reference declines to predict a value (overflow, zero divisor, ill-conditioned)"""


class ParseFail(Exception):
    """the token string is outside the reference grammar"""


# ------------------------------------------------------------------------------------------------ reference evaluator
# Every value is carried with a bound on its relative error (in units of 1): literals and bindings are exact, every operation adds a few ulps and
# propagates the operands' bounds by its condition number.  The reference declines (Skip) when its own bound exceeds ERR_MAX, so that the comparison
# at RTOL is meaningful for whatever tree the generator produces.
EPS = 2.3e-16
ERR_MAX = 1e-11


def _chk(v):
    if isinstance(v, np.ndarray):
        a = np.abs(v)
        if a.size == 0 or not np.all(np.isfinite(a)) or a.max() > BIG or np.any((a > 0) & (a < SMALL)):
            raise Skip('range')
        return v
    a = abs(v)
    if a != a or a == float('inf') or a > BIG or (0 < a < SMALL):
        raise Skip('range')
    return v


def _is_arr(v):
    return isinstance(v, np.ndarray)


def _on_cut(z, e=0.0):
    return isinstance(z, complex) and z.real < 0 and abs(z.imag) <= max(1e-9, 10 * e) * abs(z.real)


def p_add(p, q, sign=1):
    (a, ea), (b, eb) = p, q
    r = a + b if sign > 0 else a - b
    ar, aa, ab = np.abs(r), np.abs(a), np.abs(b)
    if np.any((ar == 0) & (aa + ab > 0)):
        raise Skip('exact cancellation')
    with np.errstate(all='ignore'):
        e = np.where(ar > 0, (aa * ea + ab * eb) / np.where(ar > 0, ar, 1.0), 0.0) + EPS
    if not _is_arr(r):
        e = float(e)
    return _chk(r), e


def p_mul(p, q):
    (a, ea), (b, eb) = p, q
    if not _is_arr(a) and not _is_arr(b) and a != 0 and b != 0 and a * b == 0:
        raise Skip('underflow')
    return _chk(a * b), ea + eb + 2 * EPS


def p_div(p, q):
    (a, ea), (b, eb) = p, q
    if _is_arr(b) or b == 0:
        raise Skip('zero divisor')
    return _chk(a / b), ea + eb + 2 * EPS


def p_pow(p, q):
    (a, ea), (b, eb) = p, q
    if _is_arr(a) or _is_arr(b):
        raise Skip('array power')
    if a == 0:
        raise Skip('zero base')
    if isinstance(a, float) and isinstance(b, float) and (a > 0 or b == int(b)):
        try:
            r = a ** b
        except (OverflowError, ZeroDivisionError):
            raise Skip('overflow')
        if r == 0:
            raise Skip('underflow')
        cond_b = abs(b * math.log(abs(a)))
        return _chk(r), abs(b) * ea + cond_b * eb + (2 + cond_b) * EPS
    if isinstance(a, float):
        a = complex(a, 0.0)           # negative base, fractional exponent: principal branch, log(a) = ln|a| + i*pi
    elif _on_cut(a, ea):
        raise Skip('branch cut')
    la, bc = cmath.log(a), complex(b)
    if abs(bc.real * la.real) > 700 or abs(bc.imag * la.imag) > 700:
        # the polar factors |a|^Re(b) and e^(-arg(a)*Im(b)) are not both representable in double precision even when their product is: out of floating-point range
        raise Skip('polar factor out of range')
    try:
        r = cmath.exp(bc * la)
    except (OverflowError, ValueError):
        raise Skip('overflow')
    if r == 0:
        raise Skip('underflow')
    cond_b = abs(bc * la)
    return _chk(r), abs(bc) * ea + cond_b * eb + 4 * (2 + cond_b + abs(bc)) * EPS


def _f_sin(p):
    z, e = p
    if abs(z) > 1e3:
        raise Skip('large argument')
    s, c = (cmath.sin(z), cmath.cos(z)) if isinstance(z, complex) else (math.sin(z), math.cos(z))
    if s == 0:
        raise Skip('zero of sin')
    return s, abs(z * c / s) * (e + EPS) + 4 * EPS


def _f_cos(p):
    z, e = p
    if abs(z) > 1e3:
        raise Skip('large argument')
    s, c = (cmath.sin(z), cmath.cos(z)) if isinstance(z, complex) else (math.sin(z), math.cos(z))
    if c == 0:
        raise Skip('zero of cos')
    return c, abs(z * s / c) * (e + EPS) + 4 * EPS


def _f_exp(p):
    z, e = p
    if abs(z) > 200:
        raise Skip('large argument')
    return (cmath.exp(z) if isinstance(z, complex) else math.exp(z)), abs(z) * e + 4 * EPS


def _f_sqrt(p):
    z, e = p
    if isinstance(z, complex):
        if _on_cut(z, e):
            raise Skip('branch cut')
        return cmath.sqrt(z), e / 2 + 4 * EPS
    return (math.sqrt(z) if z >= 0 else complex(0.0, math.sqrt(-z))), e / 2 + 4 * EPS


def _f_abs(p):
    return float(abs(p[0])), p[1] + 4 * EPS


def _f_select(pick):
    def g(*ps):
        if not all(isinstance(p[0], float) for p in ps):
            raise AssertionError('harness: min/max generated with a non-real argument')
        best = pick(ps, key=lambda p: p[0])
        for p in ps:
            if p is not best and abs(p[0] - best[0]) <= 1e-9 * max(abs(p[0]), abs(best[0])):
                raise Skip('tie')
        return best
    return g


ONE, TWO, THREE = (1.0, 0.0), (2.0, 0.0), (3.0, 0.0)
# name -> (arity or None for n-ary >= 2, reference implementation on (value, error bound) pairs)
REF_FUNCS = {
    'sin': (1, _f_sin), 'cos': (1, _f_cos), 'exp': (1, _f_exp), 'sqrt': (1, _f_sqrt), 'abs': (1, _f_abs),
    'min': (None, _f_select(min)), 'max': (None, _f_select(max)),
    'f': (2, lambda x, y: p_add(p_mul(x, y), ONE)), "f'": (1, lambda x: p_mul(TWO, x)), 'g_1': (3, lambda x, y, z: p_add(x, p_mul(y, z))),
    'F': (1, lambda x: p_mul(THREE, x)),
}
# the same user functions as handed to the library
USER_FUNCS = {'f': lambda x, y: x * y + 1, "f'": lambda x: 2 * x, 'g_1': lambda x, y, z: x + y * z, 'F': lambda x: 3 * x}
REF_CONSTS = {'pi': math.pi, 'e': math.e, 'i': 1j, 'j': 1j}


def _ev(n, env):
    k = n[0]
    if k == 'num':
        return n[2], 0.0
    if k == 'var':
        v = env[n[1]] if n[1] in env else REF_CONSTS[n[1]]
        return (float(v) if isinstance(v, int) else v), 0.0
    if k == 'paren':
        return _ev(n[1], env)
    if k == 'neg':
        v, e = _ev(n[1], env)
        return -v, e
    if k == 'pow':
        b, x = _ev(n[1], env), _ev(n[2], env)
        if n[3]:
            x = (-x[0], x[1])
        return p_pow(b, x)
    if k == 'par':
        ps = [_ev(x, env) for x in n[1]]
        if any(_is_arr(p[0]) for p in ps):
            raise Skip('array parallel')
        if any(p[0] == 0 for p in ps):
            return 0.0, 0.0
        s = p_div(ONE, ps[0])
        for p in ps[1:]:
            s = p_add(s, p_div(ONE, p))
        return p_div(ONE, s)
    if k == 'mul':
        acc = _ev(n[1], env)
        for op, x in n[2]:
            acc = p_mul(acc, _ev(x, env)) if op == '*' else p_div(acc, _ev(x, env))
        return acc
    if k == 'add':
        acc = _ev(n[1], env)
        for op, x in n[2]:
            acc = p_add(acc, _ev(x, env), 1 if op == '+' else -1)
        return acc
    if k == 'fn':
        arity, impl = REF_FUNCS[n[1]]
        args = [_ev(x, env) for x in n[2]]
        if (arity is None and len(args) < 2) or (arity is not None and len(args) != arity):
            raise Skip('arity')
        if any(_is_arr(a[0]) for a in args):
            raise Skip('array argument')
        try:
            v, e = impl(*args)
        except OverflowError:
            raise Skip('overflow')
        return _chk(v), e
    if k == 'arr':
        ps = [_ev(x, env) for x in n[1]]
        v = _chk(np.array([p[0] for p in ps]))
        e = np.array([np.broadcast_to(p[1], np.shape(p[0])) for p in ps])
        return v, e
    raise AssertionError('harness: unknown node %r' % (k,))


def ev(n, env):
    """value of the tree n under the variable binding env (floats / complexes / numpy arrays); raises Skip when the reference cannot vouch for 1e-11"""
    v, e = _ev(n, env)
    if np.max(e) > ERR_MAX:
        raise Skip('ill-conditioned')
    return v


# ------------------------------------------------------------------------------------------------ renderer
def toks(n, need=1, rp=None):
    """token list of n with the minimal parentheses demanded by: ^ (right-assoc, signed exponent) > unary minus > || > * / > + -;
    rp(kind) -> number of redundant parenthesis pairs to add around this node"""
    k = n[0]
    if k in ('num', 'var'):
        out = [n[1]]
    elif k == 'paren':
        out = ['('] + toks(n[1], 1, rp) + [')']
    elif k == 'neg':
        out = ['-'] + toks(n[1], 5, rp)
    elif k == 'pow':
        out = toks(n[1], 6, rp) + ['^'] + (['-'] if n[3] else []) + toks(n[2], 5, rp)
    elif k == 'par':
        out = []
        for i, x in enumerate(n[1]):
            out += (['||'] if i else []) + toks(x, 4, rp)
    elif k == 'mul':
        out = toks(n[1], 2, rp)
        for op, x in n[2]:
            out += [op] + toks(x, 3, rp)
    elif k == 'add':
        out = toks(n[1], 1, rp)
        for op, x in n[2]:
            out += [op] + toks(x, 2, rp)
    elif k == 'fn':
        out = [n[1], '(']
        for i, x in enumerate(n[2]):
            out += ([','] if i else []) + toks(x, 1, rp)
        out.append(')')
    elif k == 'arr':
        out = ['[']
        for i, x in enumerate(n[1]):
            out += ([','] if i else []) + toks(x, 1, rp)
        out.append(']')
    else:
        raise AssertionError('harness: unknown node %r' % (k,))
    extra = rp(k) if rp else 0
    if LEVEL[k] < need and not extra:
        extra = 1
    for _ in range(extra):
        out = ['('] + out + [')']
    return out


def rp_full(k):
    return 0 if k in ('num', 'var', 'paren') else 1


def rp_random(rnd, p=0.25):
    def rp(k):
        if rnd.random() < p:
            return 2 if rnd.random() < 0.2 else 1
        return 0
    return rp


WS = ['', '', '', ' ', '  ', '\t', '\n', '\r\n', ' \t', '\t ', '\n  ']


def render_ws(tokens, rnd, dash_p=0.5, space_p=0.12):
    """tabs / line breaks / spaces between tokens, em-dash for operator minus, then spaces anywhere (inside names and numbers too)"""
    out = [rnd.choice(WS)]
    for tk in tokens:
        if tk == '-' and rnd.random() < dash_p:
            tk = EMDASH
        out.append(tk)
        out.append(rnd.choice(WS))
    chars = []
    for ch in ''.join(out):
        if rnd.random() < space_p:
            chars.append(' ')
        chars.append(ch)
    return ''.join(chars)


# ------------------------------------------------------------------------------------------------ reference parser (precedence climbing)
def parse_tokens(tokens, nums, variables, fns, plus_seen=None):
    """tokens -> tree following the statement's table; nums: text -> value; raises ParseFail outside the grammar.
    The statement neither promises nor forbids a '+' in front of a sum ('+2', '(+x)'): when the list plus_seen is given such a plus is consumed and recorded,
    so that the caller can leave the string out of both the valid and the invalid class."""
    pos = [0]

    def peek():
        return tokens[pos[0]] if pos[0] < len(tokens) else None

    def adv():
        pos[0] += 1

    def expect(tk):
        if peek() != tk:
            raise ParseFail('expected %r' % tk)
        adv()

    def atom():
        tk = peek()
        if tk is None:
            raise ParseFail('unexpected end')
        if tk == '(':
            adv()
            inner = summ()
            expect(')')
            return ('paren', inner)
        if tk in nums:
            adv()
            return ('num', tk, nums[tk])
        if tk in fns:
            adv()
            expect('(')
            args = [summ()]
            while peek() == ',':
                adv()
                args.append(summ())
            expect(')')
            return ('fn', tk, args)
        if tk in variables:
            adv()
            return ('var', tk)
        raise ParseFail('unexpected %r' % tk)

    def power():                       # a^b^c = a^(b^c); a^-b^c = a^(-(b^c))
        base = atom()
        if peek() == '^':
            adv()
            neg = False
            if peek() == '-':
                adv()
                neg = True
            return ('pow', base, power(), neg)
        return base

    def negation():
        if peek() == '-':
            adv()
            return ('neg', power())
        return power()

    def parallel():
        xs = [negation()]
        while peek() == '||':
            adv()
            xs.append(negation())
        return xs[0] if len(xs) == 1 else ('par', xs)

    def product():
        first, rest = parallel(), []
        while peek() in ('*', '/'):
            op = peek()
            adv()
            rest.append((op, parallel()))
        return ('mul', first, rest) if rest else first

    def summ():
        if plus_seen is not None and peek() == '+':
            adv()
            plus_seen.append(True)
        first, rest = product(), []
        while peek() in ('+', '-'):
            op = peek()
            adv()
            rest.append((op, product()))
        return ('add', first, rest) if rest else first

    tree = summ()
    if pos[0] != len(tokens):
        raise ParseFail('trailing %r' % peek())
    return tree


# ------------------------------------------------------------------------------------------------ library access
_LIB = {}


def _lib():
    if not _LIB:
        calc = rtcheck.real_module('mitxgraders/helpers/calc/__init__.py')
        _LIB['calc'] = calc
        _LIB['E'] = rtcheck.real_module('mitxgraders/helpers/calc/expressions.py')
        _LIB['cexc'] = rtcheck.real_module('mitxgraders/helpers/calc/exceptions.py')
        _LIB['exc'] = rtcheck.real_module('mitxgraders/exceptions.py')
        _LIB['fgm'] = rtcheck.real_module('mitxgraders/formulagrader/formulagrader.py')
        sufs = dict(calc.DEFAULT_SUFFIXES)
        sufs.update(calc.METRIC_SUFFIXES)           # what FormulaGrader(metric_suffixes=True) passes (sampling.construct_suffixes)
        _LIB['sufs'] = sufs
        funcs = dict(calc.DEFAULT_FUNCTIONS)
        funcs.update(USER_FUNCS)
        _LIB['funcs'] = funcs
        _LIB['consts'] = dict(calc.DEFAULT_VARIABLES)
    return _LIB


def _trim_cache():
    parser = getattr(_lib()['E'], 'PARSER', None)
    cache = getattr(parser, 'cache', None)
    if isinstance(cache, dict) and len(cache) > 20000:
        cache.clear()


def observe(s, env):
    L = _lib()
    variables = dict(L['consts'])
    variables.update(env)
    try:
        v = L['calc'].evaluator(s, variables, L['funcs'], L['sufs'])[0]
    except L['exc'].StudentFacingError as e:
        return ('err', type(e).__name__, str(e)[:160])
    except Exception as e:       # foreign exception types are failures of the case
        return ('exc', type(e).__name__, str(e)[:160])
    return ('val', v)


def fmt(v):
    if isinstance(v, np.ndarray):
        return np.array2string(np.asarray(v), precision=15, separator=',').replace('\n', '')
    return repr(v)


def agree(out, want):
    """out: observe() outcome; want: reference value -> (bool, description of what came out)"""
    if out[0] != 'val':
        return False, '%s: %s' % (out[1], out[2])
    got = out[1]
    if isinstance(want, np.ndarray):
        g = np.asarray(got)
        if not isinstance(got, np.ndarray) or g.shape != want.shape:
            return False, fmt(got)
        return bool(np.all(np.abs(g - want) <= RTOL * np.abs(want) + 1e-300)), fmt(got)
    if isinstance(got, (np.ndarray, bool, str)) or not isinstance(got, (int, float, complex, np.number)):
        return False, '%s (%s)' % (fmt(got), type(got).__name__)
    g, w = complex(got), complex(want)
    return abs(g - w) <= RTOL * abs(w) + 1e-300, fmt(got)


PARSE_ERRORS = ('UnableToParse', 'UnbalancedBrackets')
SCOPE_ERRORS = ('UndefinedVariable', 'UndefinedFunction')


class Out:
    """results of one unit of work; merged into the Tally by the parent in a fixed order"""

    def __init__(self, prefix):
        self.prefix = prefix
        self.rows = []

    def key(self, *parts):
        return '|'.join([self.prefix] + [str(p) for p in parts])

    def ok(self, contract, key, sample=None):
        self.rows.append(('ok', contract, key, sample))

    def fail(self, contract, key, what):
        self.rows.append(('fail', contract, key, what))

    def skip(self, contract):
        self.rows.append(('skip', contract, None, None))

    def value_case(self, contract, key, s, env, want, note=''):
        out = observe(s, env)
        good, got = agree(out, want)
        if good:
            self.ok(contract, key, sample={'formula': s, 'value': fmt(want), 'note': note})
        else:
            self.fail(contract, key, 'formula %r%s: evaluator gave %s, the documented semantics give %s' % (s, (' [' + note + ']') if note else '', got, fmt(want)))

    def reject_case(self, contract, key, s, env, allowed, note=''):
        out = observe(s, env)
        if out[0] == 'err' and out[1] in allowed:
            self.ok(contract, key, sample={'formula': s, 'rejected with': out[1], 'note': note})
        elif out[0] == 'val':
            self.fail(contract, key, 'string %r (%s) is outside the grammar but was given the value %s; expected %s' % (s, note, fmt(out[1]), ' / '.join(allowed)))
        else:
            self.fail(contract, key, 'string %r (%s) raised %s: %s; expected %s' % (s, note, out[1], out[2], ' / '.join(allowed)))


# ------------------------------------------------------------------------------------------------ 1. operator sequences
SEQ_VALUES = [2.0, 3.0, 5.0, 7.0, 1.5]
SEQ_LIT = ['2', '3', '5', '7', '1.5']
SEQ_NAMES = ['a', 'x_1', "b'", 'T_{c}^{ab}', 'U_{c}']
SEQ_REAL = dict(zip(SEQ_NAMES, [2.5, 3.2, 0.7, 5.1, 1.9]))
SEQ_CPLX = dict(zip(SEQ_NAMES, [2 + 1j, 1.5 - 0.5j, 0.5 + 2j, 3 - 1j, -1 + 0.5j]))
SEQ_NUMS = dict(zip(SEQ_LIT, SEQ_VALUES))


def seq_items(tier):
    items = []
    idx = 0
    for n in (1, 2, 3, 4):
        for ops in itertools.product(OPS, repeat=n):
            for negs in itertools.product((0, 1), repeat=n + 1):
                if n < 4 or tier == 'thorough' or idx % 41 == 0:
                    items.append((idx, ops, negs))
                idx += 1
    return items


def seq_tokens(ops, negs, leaves):
    out = []
    for i, leaf in enumerate(leaves):
        if i:
            out.append(ops[i - 1])
        if negs[i]:
            out.append('-')
        out.append(leaf)
    return out


def work_seq(tier, seed, items):
    o = Out('%s%d|seq' % (tier[0], seed))
    C1, C2, C3 = 'operator sequences (flat string)', 'operator sequences (whitespace, em-dash)', 'operator sequences (fully parenthesised)'
    for idx, ops, negs in items:
        rnd = random.Random('%d|seq|%d' % (seed, idx))
        n = len(ops)
        for p in range(1 if tier == 'quick' else 2):
            perm = rnd.sample(range(5), n + 1)
            for b, (bname, env) in enumerate((('literals', {}), ('real variables', SEQ_REAL), ('complex variables', SEQ_CPLX))):
                leaves = [SEQ_LIT[i] if b == 0 else SEQ_NAMES[i] for i in perm]
                tokens = seq_tokens(ops, negs, leaves)
                tree = parse_tokens(tokens, SEQ_NUMS, env, {})
                if toks(tree) != tokens:
                    raise AssertionError('harness: reference parser and renderer disagree on %r' % (tokens,))
                flat = ''.join(tokens)
                # quick: literals and one of the two variable bindings as flat strings, one binding with whitespace, every third item one fully parenthesised
                do_flat = tier == 'thorough' or b == 0 or b == 1 + idx % 2
                do_ws = b == (idx + p) % 3
                do_full = b == (idx + p + 1) % 3 and (tier == 'thorough' or idx % 3 == 0)
                if not (do_flat or do_ws or do_full):
                    continue
                try:
                    want = ev(tree, env)
                except Skip:
                    o.skip(C1)
                    continue
                if do_flat:
                    o.value_case(C1, o.key(flat, bname), flat, env, want, bname)
                if do_ws:
                    o.value_case(C2, o.key(flat, bname, 'ws'), render_ws(tokens, rnd), env, want, bname + ', same as ' + flat)
                if do_full:
                    s = render_ws(toks(tree, 1, rp_full), rnd, dash_p=0.3, space_p=0.05)
                    o.value_case(C3, o.key(flat, bname, 'full'), s, env, want, bname + ', grouping of ' + flat)
        _trim_cache()
    return o.rows


# ------------------------------------------------------------------------------------------------ 2./3. random derivations
NUM_POOL = ['2', '3', '7', '1.5', '.5', '2.', '0.25', '1e1', '2.5E-1', '1e+0', '12', '50%', '150%', '2k', '3m', '4u', '1.5M', '2e-3k']


def literal_value(text):
    """oracle for a literal: float(mantissa and exponent) * documented multiplier"""
    body = text
    suffix = ''
    if body[-1] in MULT:
        body, suffix = body[:-1], body[-1]
    return float(body) * MULT[suffix]


REAL_ALWAYS = {'y': 0.6, 'Y': 4.4, 'x_1': 2.2, "x'": 1.7, 'a_b': 2.6, 'k': 7.0, 'U_{-1}': 1.9, 'm': 11.0}
MIXED = {'x': (1.3, 1.3 + 0.4j), 'X': (-2.7, -2.7 + 1j), 'a_{12}': (-1.4, 0.3 - 1.4j), 'T_{c}^{ab}': (0.8, 0.1 + 0.8j), 'T^{ab}': (3.1, 3.1 - 2j),
         "x''": (-0.9, -0.9 + 0.2j), 'z': (0.5, 0.5 - 1.2j), 'Z': (2.5, -1 + 2.5j), 'T_{12}': (1.2, 1.2 + 1j)}
ENV_R = dict(REAL_ALWAYS)
ENV_R.update({k: v[0] for k, v in MIXED.items()})
ENV_C = dict(REAL_ALWAYS)
ENV_C.update({k: v[1] for k, v in MIXED.items()})


def gen_leaf(rnd, cplx):
    r = rnd.random()
    if r < 0.4:
        text = rnd.choice(NUM_POOL)
        return ('num', text, literal_value(text))
    if r < 0.5:
        return ('var', rnd.choice(['pi', 'e', 'i', 'j'] if cplx else ['pi', 'e']))
    if cplx and r < 0.85:
        return ('var', rnd.choice(sorted(MIXED)))
    return ('var', rnd.choice(sorted(REAL_ALWAYS)))


def gen(rnd, depth, cplx=True):
    """random scalar derivation; cplx=False guarantees a real (float) value"""
    if depth <= 0 or rnd.random() < 0.15:
        return gen_leaf(rnd, cplx)
    d = depth - 1
    r = rnd.random()
    if r < 0.10:
        return ('neg', gen(rnd, d, cplx))
    if r < 0.28:
        if cplx:
            base = gen(rnd, d, True)
        else:
            base = ('fn', 'abs', [gen(rnd, d, True)]) if rnd.random() < 0.5 else ('num', '1.5', 1.5)
        return ('pow', base, gen(rnd, min(d, 2), cplx), rnd.random() < 0.3)
    if r < 0.40:
        return ('par', [gen(rnd, d, cplx) for _ in range(rnd.choice([2, 2, 3]))])
    if r < 0.60:
        return ('mul', gen(rnd, d, cplx), [(rnd.choice('*/'), gen(rnd, d, cplx)) for _ in range(rnd.choice([1, 1, 2, 3]))])
    if r < 0.80:
        return ('add', gen(rnd, d, cplx), [(rnd.choice('+-'), gen(rnd, d, cplx)) for _ in range(rnd.choice([1, 1, 2, 3]))])
    if r < 0.95:
        name = rnd.choice(['sin', 'cos', 'exp', 'sqrt', 'abs', 'min', 'max', 'f', "f'", 'g_1', 'F'])
        if name in ('min', 'max'):
            return ('fn', name, [gen(rnd, d, False) for _ in range(rnd.choice([2, 2, 3, 4]))])
        if name == 'abs':
            return ('fn', name, [gen(rnd, d, True)])
        if name == 'sqrt' and not cplx:
            return ('fn', name, [('fn', 'abs', [gen(rnd, d, True)])])
        return ('fn', name, [gen(rnd, d, cplx) for _ in range(REF_FUNCS[name][0])])
    return ('paren', gen(rnd, d, cplx))


def gen_arr(rnd, depth, shape):
    """array-valued derivation: literals, + -, unary minus, scalar * array, array * scalar, array / scalar"""
    def literal(shp):
        if len(shp) == 1:
            return ('arr', [gen(rnd, min(depth, 2), True) for _ in range(shp[0])])
        return ('arr', [literal(shp[1:]) for _ in range(shp[0])])
    if depth <= 0 or rnd.random() < 0.3:
        return literal(shape)
    d = depth - 1
    r = rnd.random()
    if r < 0.35:
        return ('add', gen_arr(rnd, d, shape), [(rnd.choice('+-'), gen_arr(rnd, d, shape)) for _ in range(rnd.choice([1, 1, 2]))])
    if r < 0.80:
        sc = lambda: gen(rnd, min(d, 2), True)
        form = rnd.randrange(5)
        if form == 0:
            return ('mul', sc(), [('*', gen_arr(rnd, d, shape))])
        if form == 1:
            return ('mul', gen_arr(rnd, d, shape), [('*', sc())])
        if form == 2:
            return ('mul', gen_arr(rnd, d, shape), [('/', sc())])
        if form == 3:
            return ('mul', sc(), [('*', gen_arr(rnd, d, shape)), ('/', sc())])
        return ('mul', sc(), [('/', sc()), ('*', gen_arr(rnd, d, shape)), ('*', sc())])
    if r < 0.92:
        return ('neg', gen_arr(rnd, d, shape))
    return ('paren', gen_arr(rnd, d, shape))


def work_deep(tier, seed, idxs):
    o = Out('%s%d|deep' % (tier[0], seed))
    C = 'random derivations'
    depth = 4 if tier == 'quick' else 6
    for idx in idxs:
        rnd = random.Random('%d|deep|%d' % (seed, idx))
        tree = gen(rnd, rnd.randint(2, depth), True)
        minimal = toks(tree)
        for ename, env in (('real bindings', ENV_R), ('complex bindings', ENV_C)):
            try:
                want = ev(tree, env)
            except Skip:
                o.skip(C)
                continue
            o.value_case(C + ' (minimal parentheses)', o.key(idx, ename, 'min'), ''.join(minimal), env, want, ename)
            o.value_case(C + ' (whitespace, em-dash)', o.key(idx, ename, 'ws'), render_ws(minimal, rnd), env, want, ename + ', same as ' + ''.join(minimal))
            o.value_case(C + ' (redundant parentheses)', o.key(idx, ename, 'rp'), render_ws(toks(tree, 1, rp_random(rnd)), rnd, space_p=0.04), env, want,
                         ename + ', same as ' + ''.join(minimal))
        _trim_cache()
    return o.rows


def work_arr(tier, seed, idxs):
    o = Out('%s%d|arr' % (tier[0], seed))
    C = 'vector / matrix literals'
    for idx in idxs:
        rnd = random.Random('%d|arr|%d' % (seed, idx))
        shape = rnd.choice([(2,), (3,), (3,), (2, 2), (2, 3), (1, 2)])
        tree = gen_arr(rnd, rnd.randint(0, 3), shape)
        minimal = toks(tree)
        for ename, env in (('real bindings', ENV_R), ('complex bindings', ENV_C)):
            try:
                want = ev(tree, env)
            except Skip:
                o.skip(C)
                continue
            if want.shape != shape:
                raise AssertionError('harness: array generator produced shape %r for %r' % (want.shape, shape))
            o.value_case(C, o.key(idx, ename, 'min'), ''.join(minimal), env, want, ename)
            o.value_case(C, o.key(idx, ename, 'ws'), render_ws(toks(tree, 1, rp_random(rnd, 0.15)), rnd, space_p=0.05), env, want, ename + ', same as ' + ''.join(minimal))
    return o.rows


# ------------------------------------------------------------------------------------------------ 4. number literals and suffixes
MANTISSAS = ['7', '12', '0', '1.', '.5', '0.5', '3.25', '007', '1.50']
EXPONENTS = ['', 'e3', 'E3', 'e-3', 'E+2', 'e+2', 'e0', 'E-03']
SUFFIXES = ['', '%', 'k', 'M', 'G', 'T', 'm', 'u', 'n', 'p']


def work_num(tier, seed, _):
    o = Out('%s%d|num' % (tier[0], seed))
    C = 'number literals'
    rnd = random.Random('%d|num' % seed)
    for mant, expo, suf in itertools.product(MANTISSAS, EXPONENTS, SUFFIXES):
        text = mant + expo + suf
        want = float(mant + expo) * MULT[suf]
        o.value_case(C, o.key(text), text, {}, want, 'float(%r) * %r' % (mant + expo, MULT[suf]))
        spaced = ' '.join(text) if rnd.random() < 0.5 else render_ws([text], rnd, space_p=0.4)
        o.value_case(C + ' (spaces inside)', o.key(text, 'sp'), spaced, {}, want, 'same as ' + text)
        o.value_case(C + ' (negated)', o.key(text, 'neg'), rnd.choice(['-', EMDASH]) + text, {}, -want, 'minus ' + text)
    # suffixed numbers are atoms: next to every operator, on both sides, as base and exponent
    C = 'suffixed numbers with operators'
    env = {'k': 7.0, 'm': 11.0, 'M': 13.0, 'n': 3.0, 'p': 0.5, 'u': 2.0, 'G': 5.0, 'T': 17.0, 'x': 1.3}
    nums = {}
    for suf in SUFFIXES[1:]:
        for body in ('3', '2.5', '4e1'):
            nums[body + suf] = float(body) * MULT[suf]
    nums.update({'2': 2.0, '3': 3.0, '0.5': 0.5})
    for suf in SUFFIXES[1:]:
        for op in OPS:
            for tokens in (['3' + suf, op, '2'], ['2', op, '2.5' + suf], ['-', '4e1' + suf, op, '-', '3'], ['x', op, '3' + suf, op, '0.5'],
                           ['3' + suf, op, '3' + suf], ['2', '*', '3' + suf, op, '2.5' + suf], ['(', '3' + suf, ')', op, '2.5' + suf]):
                tree = parse_tokens(tokens, nums, env, {})
                try:
                    want = ev(tree, env)
                except Skip:
                    o.skip(C)
                    continue
                s = ''.join(tokens)
                o.value_case(C, o.key(s), s, env, want)
                o.value_case(C, o.key(s, 'ws'), render_ws(tokens, rnd), env, want, 'same as ' + s)
    # a suffix letter that is also a variable: '2k' is the literal, '2*k' the product
    C = 'suffix letter also a variable'
    for suf in SUFFIXES[2:]:
        v = env[suf]
        for s, want in (('2' + suf, 2 * MULT[suf]), ('2*' + suf, 2 * v), (suf + '*2' + suf, v * 2 * MULT[suf]), ('2' + suf + '*' + suf, 2 * MULT[suf] * v),
                        (suf + '/4' + suf, v / (4 * MULT[suf])), ('1' + suf + '+' + suf, MULT[suf] + v), (suf + '^2-3' + suf, v ** 2 - 3 * MULT[suf]),
                        ('2 ' + suf + ' * ' + suf, 2 * MULT[suf] * v), ('50%*' + suf, 0.5 * v), ('5%^2', 0.0025), ('-50%', -0.5), ('200%||2', 1.0)):
            o.value_case(C, o.key(s), s, env, want)
    return o.rows


# ------------------------------------------------------------------------------------------------ 5. invalid strings
INV_ENV = {'x': 1.3, 'y': 0.6, 'z': 2.0, 'x_1': 2.2, 'k': 7.0}
STRICT = {
    'doubled operator': ['1++1', '1**2', '1*/2', '2^^3', '1+*2', '1//2', '2||||3', '2|||3', '2|3', '--1', '1---1', '2^--2', '1-+1', '2*+3', '1 + + 1', '2/*3', '2^*3',
                         '2||*3', '2*||3', '1+||1', '2^||3', 'x**y', 'x--' + EMDASH + 'y', EMDASH + EMDASH + '1', '2^/2', '1-*1', '1-/1', '1-^1', '1/+1', '1||+1'],
    'dangling operator': ['1+', '2*', '3/', '2^', '2||', '*2', '/2', '^2', '||2', '2^-', '-', EMDASH, '(-)', '1+()', '(1+)', '(*1)', '2*(3/)', 'x-', '+', '*', 'sin(1)+', '[1,2]*'],
    'empty brackets or argument list': ['()', 'f()', '[]', 'sin()', '2*()', '[[]]', 'f(,)', '[,]', '[1,]', '[,1]', 'f(1,)', 'f(,1)', 'min(1,,2)', '(,)', 'max()', '(())', '[()]',
                                        '1+[]', 'f(())', 'sin([])'],
    'unbalanced brackets': ['(1+2', '1+2)', '[1,2', '1,2]', '(1+2]', '[1,2)', '((1)', '(1))', 'f(1,2', 'sin(1', ')1(', ']1[', '(', ')', '[', ']', '2*(3+(4)', 'f(1,(2)', '[[1,2],[3,4]',
                            'x_{1', 'T_{1}^{2', '{', '}'],
    'juxtaposition': ['(1)(2)', '(x)y', '2(3)', '(2)3', '[1,2][3,4]', 'sin(1)2', 'sin(1)x', 'sin(1)sin(1)', '2.5.5', '1.2.3', '(x)(y)', 'x(y)z', '(1+2)(3+4)', '2 (x)', '(x) 2', '[1,2]x',
                      'x[1,2]', '(1)[2]', "x'(1)(2)", '1e3.5', '2(x)', '.5.'],
    'tab or line break inside a token': ['x\ty', '2\t3', '1.\t5', 'si\tn(1)', 'x_\t1', 'x\n1', '1e\t3', 'pi\tpi', '1\n2', 'x\r\ny', '1\t.5', 'x\t_1', 'x\t\'', '2\t2k', 'T_{1}\t^{2}+1'],
    'foreign character': ['2$3', '1;2', '#', '2&3', '1=1', '2!', 'x@y', '1<2', '3~', '`1`', '1\\2', '"1"', '2?', '1:2', u'2−3', u'2–3', u'2×3', u'6÷2', '1_2', '_x', '2,3', 'x,y',
                          "'x", u'1°', u'α', '2**3', '{1}', 'x_{1}{2}', '1>2', '$', '1+2;', '2^{3}', 'x_{a+b}', 'x_{}', 'x^{}+1', 'x_{1}_{2}', u'x²', '0x10+1$', '1e+', '.',
                          '1..2', 'x..', '1e3e3$'],
}
SCOPE = {
    'juxtaposition read as another name': ['2x', 'x y', '2 x', 'x 2', 'x(2)', '2pi', 'xsin(1)', 'x y z', '2 x y', 'x x', 'pi pi', 'i j', 'x(y)', '2sin', 'ee', '3xy', '1.5e\n-3', '1e', 'x^{2}'],
    'names are case-sensitive': ['Pi', 'PI', 'pI', 'E', 'I', 'J', 'SIN(1)', 'Sin(1)', 'Sqrt(4)', 'MAX(1,2)', 'X_1', "F'(1)", 'G_1(1,2,3)', '2K', '2g', '5P', '2U', '1 + Z', 'Y*2', 'K', 'EXP(1)', 'x + y*Z',
                                 'Cos(0)', '3N'],
}


def work_invalid(tier, seed, _):
    o = Out('%s%d|invalid' % (tier[0], seed))
    rnd = random.Random('%d|invalid' % seed)
    for note, strings in sorted(STRICT.items()):
        for s in strings:
            o.reject_case('invalid strings: ' + note, o.key(s), s, INV_ENV, PARSE_ERRORS, note)
            padded = render_ws([s], rnd, dash_p=0, space_p=0.15)       # spaces anywhere / surrounding whitespace do not rescue an invalid string
            o.reject_case('invalid strings: ' + note, o.key(s, 'sp'), padded, INV_ENV, PARSE_ERRORS, note + ', spaced')
    for note, strings in sorted(SCOPE.items()):
        for s in strings:
            o.reject_case('invalid strings: ' + note, o.key(s), s, INV_ENV, SCOPE_ERRORS if 'case' in note else PARSE_ERRORS + SCOPE_ERRORS, note)
    # a valid string made invalid by one edit: insert an operator next to an operator, drop an operand, drop an operator
    C = 'invalid strings: one-token edits of valid operator sequences'
    nums = dict(SEQ_NUMS)
    count = 300 if tier == 'quick' else 3000
    for case in range(count):
        n = rnd.randint(1, 4)
        ops = [rnd.choice(OPS) for _ in range(n)]
        negs = [rnd.random() < 0.3 for _ in range(n + 1)]
        leaves = [rnd.choice(SEQ_LIT + ['x', 'y', 'z']) for _ in range(n + 1)]
        tokens = seq_tokens(ops, negs, leaves)
        edit = rnd.randrange(4)
        pos = rnd.randrange(len(tokens))
        mutated = list(tokens)
        if edit == 0:
            mutated.insert(pos, rnd.choice(OPS))
        elif edit == 1:
            del mutated[pos]
        elif edit == 2:
            mutated[pos] = rnd.choice(OPS + ['(', ')', '$', ','])
        else:
            mutated.insert(pos, rnd.choice(['(', ')', '()', ',', '$', '|']))
        s = ''.join(('\t' + tk) if (i and tk[0].isalnum() and mutated[i - 1][-1].isalnum()) else tk for i, tk in enumerate(mutated))
        plus = []
        try:
            tree = parse_tokens(mutated, nums, INV_ENV, {}, plus)
        except ParseFail:
            o.reject_case(C, o.key(case, s), s, INV_ENV, PARSE_ERRORS + SCOPE_ERRORS, 'edit of %s' % ''.join(tokens))
            continue
        if plus:
            o.skip(C)
            continue
        try:
            want = ev(tree, INV_ENV)
        except Skip:
            o.skip(C)
            continue
        o.value_case('one-token edits that stay inside the grammar', o.key(case, s), s, INV_ENV, want, 'edit of %s' % ''.join(tokens))
    return o.rows


SOUP = ['2', 'x', "f'", '+', '-', '*', '/', '^', '||', '(', ')', ',', '$']
SOUP_LONG = SOUP + ['3', 'y', 'max', '-', '(', ')', '2', 'x']
SOUP_ENV = {'x': 1.3, 'y': 0.6}
SOUP_NUMS = {'2': 2.0, '3': 3.0}
SOUP_FNS = {"f'": 1, 'max': None}


def soup_join(tokens):
    out = []
    for i, tk in enumerate(tokens):
        if i and (tk[0].isalnum()) and (tokens[i - 1][-1].isalnum() or tokens[i - 1][-1] == "'"):
            out.append('\t')            # keeps two names / numbers apart: a tab is not removed, so this stays a juxtaposition
        out.append(tk)
    return ''.join(out)


def soup_case(o, tokens, rnd):
    C_bad, C_good = 'token strings outside the grammar', 'token strings inside the grammar'
    s = soup_join(tokens)
    plus = []
    try:
        tree = parse_tokens(tokens, SOUP_NUMS, SOUP_ENV, SOUP_FNS, plus)
    except ParseFail:
        o.reject_case(C_bad, o.key(s), s, SOUP_ENV, PARSE_ERRORS + SCOPE_ERRORS, 'reference grammar rejects it')
        return
    if plus:
        o.skip(C_bad)
        return
    try:
        want = ev(tree, SOUP_ENV)
    except Skip:
        o.skip(C_good)
        return
    o.value_case(C_good, o.key(s), s, SOUP_ENV, want)
    if '-' in tokens:
        s2 = soup_join([EMDASH if tk == '-' else tk for tk in tokens])
        o.value_case(C_good, o.key(s, 'emdash'), s2, SOUP_ENV, want, 'same as ' + s)


def work_soup(tier, seed, job):
    o = Out('%s%d|soup' % (tier[0], seed))
    kind, arg = job
    if kind == 'exhaustive':
        length, first = arg
        for rest in itertools.product(SOUP, repeat=length - 1):
            soup_case(o, [first] + list(rest), None)
    else:
        for idx in arg:
            rnd = random.Random('%d|soup|%d' % (seed, idx))
            tokens = [rnd.choice(SOUP_LONG) for _ in range(rnd.randint(4, 7))]
            soup_case(o, tokens, rnd)
    _trim_cache()
    return o.rows


# ------------------------------------------------------------------------------------------------ 6. front door and grader verdicts
def left_to_right(ops, negs, leaves, nums, env):
    """the tree a reader ignoring precedence would build: ((l0 op l1) op l2) ..."""
    def leaf(i):
        base = ('num', leaves[i], nums[leaves[i]]) if leaves[i] in nums else ('var', leaves[i])
        return ('neg', base) if negs[i] else base
    acc = leaf(0)
    for i, op in enumerate(ops):
        rhs = leaf(i + 1)
        if op in '+-':
            acc = ('add', acc, [(op, rhs)])
        elif op in '*/':
            acc = ('mul', acc, [(op, rhs)])
        elif op == '^':
            acc = ('pow', acc, rhs, False)
        else:
            acc = ('par', [acc, rhs])
    return acc


def right_to_left(ops, negs, leaves, nums, env):
    def leaf(i):
        base = ('num', leaves[i], nums[leaves[i]]) if leaves[i] in nums else ('var', leaves[i])
        return ('neg', base) if negs[i] else base
    acc = leaf(len(ops))
    for i in range(len(ops) - 1, -1, -1):
        op, lhs = ops[i], leaf(i)
        if op in '+-':
            acc = ('add', lhs, [(op, acc)])
        elif op in '*/':
            acc = ('mul', lhs, [(op, acc)])
        elif op == '^':
            acc = ('pow', lhs, acc, False)
        else:
            acc = ('par', [lhs, acc])
    return acc


def work_grader(tier, seed, _):
    L = _lib()
    o = Out('%s%d|grader' % (tier[0], seed))
    rnd = random.Random('%d|grader' % seed)
    fgm, exc = L['fgm'], L['exc']

    def verdict(g, s):
        try:
            return g(None, s)['ok']
        except exc.MITxError as e:
            return '%s: %s' % (type(e).__name__, str(e)[:100])
        except Exception as e:
            return 'foreign %s: %s' % (type(e).__name__, str(e)[:100])

    # empty input at the front door
    for s in ('', ' ', '   ', '\t', '\n', ' \t\r\n '):
        out = observe(s, {})
        if out[0] == 'val' and isinstance(out[1], float) and out[1] != out[1]:
            o.ok('empty input', o.key(repr(s)), sample={'formula': s, 'value': 'nan'})
        else:
            o.fail('empty input', o.key(repr(s)), 'empty input %r: evaluator gave %r, documented: nan' % (s, out[1:]))
    for s, want in (('0||3', 0.0), ('3||0', 0.0), ('2||0||5', 0.0), ('0||0', 0.0), ('1+0||4', 1.0), ('-0||2', 0.0), ('(1-1)||4', 0.0), ('2^0||1', 0.5), ('0*3||0+7', 7.0)):
        o.value_case('parallel with a zero operand', o.key(s), s, {}, want)
    # parallel chains are n-ary: 1/(1/a + 1/b + ...) -- a prefix whose reciprocals cancel (2 || -2 || 5) does not make the chain undefined
    import itertools as _it
    pool = [2.0, -2.0, 5.0, 1.0, -1.0, 4.0, -4.0, 0.5]
    for n in (3, 4):
        combos = list(_it.product(pool, repeat=n))
        if n == 4:
            combos = combos[::7] if tier == 'quick' else combos
        for vals in combos:
            tot = sum(1.0 / v for v in vals)
            if abs(tot) < 1e-12:
                continue          # the whole chain cancels: division by zero, not judged here
            s_ = '||'.join(('(%r)' % v) if v < 0 else repr(v) for v in vals)
            o.value_case('parallel chains (n-ary, cancelling prefixes)', o.key(s_), s_, {}, 1.0 / tot)
    # NumericalGrader on constant expressions
    C = 'NumericalGrader verdicts'
    count = 60 if tier == 'quick' else 600
    done = 0
    attempts = 0
    while done < count and attempts < 50 * count:
        attempts += 1
        n = rnd.randint(2, 4)
        ops = [rnd.choice(OPS) for _ in range(n)]
        negs = [rnd.random() < 0.3 for _ in range(n + 1)]
        leaves = [SEQ_LIT[i] for i in rnd.sample(range(5), n + 1)]
        tokens = seq_tokens(ops, negs, leaves)
        tree = parse_tokens(tokens, SEQ_NUMS, {}, {})
        try:
            want = ev(tree, {})
        except Skip:
            continue
        flat = ''.join(tokens)
        g = fgm.NumericalGrader(answers=flat, tolerance='0.0001%')
        same = render_ws(toks(tree, 1, rp_random(rnd, 0.4)), rnd)
        got = verdict(g, same)
        if got is True:
            o.ok(C, o.key(done, flat, 'same'), sample={'answers': flat, 'student': same, 'ok': True})
        else:
            o.fail(C, o.key(done, flat, 'same'), 'NumericalGrader(answers=%r) on the same tree rendered as %r: %r, expected True' % (flat, same, got))
        for gname, regroup in (('left-to-right', left_to_right), ('right-to-left', right_to_left)):
            alt = regroup(ops, negs, leaves, SEQ_NUMS, {})
            try:
                v = ev(alt, {})
            except Skip:
                continue
            alt_s = ''.join(toks(alt))
            rel = abs(v - want) / max(abs(v), abs(want))
            if rel > 1e-3:
                expected = False
            elif rel < 1e-12:
                expected = True
            else:
                continue
            got = verdict(g, alt_s)
            if got is expected:
                o.ok(C, o.key(done, flat, gname), sample={'answers': flat, 'student': alt_s, 'ok': expected})
            else:
                o.fail(C, o.key(done, flat, gname), 'NumericalGrader(answers=%r) [= %s] on the %s grouping %r [= %s]: %r, expected %r' % (flat, fmt(want), gname, alt_s, fmt(v), got, expected))
        done += 1
    # FormulaGrader with sampled variables and metric suffixes
    C = 'FormulaGrader verdicts'
    names = ['a', 'b_1', "c'", 'd']
    count = 25 if tier == 'quick' else 250
    for case in range(count):
        n = rnd.randint(2, 3)
        ops = [rnd.choice(['+', '-', '*', '/', '||', '*', '+']) for _ in range(n)]
        if len(set(ops)) == 1 and ops[0] in '+*':
            ops[0] = '/' if ops[0] == '*' else '-'
        negs = [False] * (n + 1)
        leaves = rnd.sample(names, n + 1)
        lit = rnd.randrange(n + 1)
        text = rnd.choice(['2k', '50%', '3m', '1.5', '2e1'])
        leaves[lit] = text
        nums = {text: literal_value(text)}
        tokens = seq_tokens(ops, negs, leaves)
        tree = parse_tokens(tokens, nums, dict.fromkeys(names, 1.0), {})
        flat = ''.join(tokens)
        np.random.seed(seed * 1000 + case)
        g = fgm.FormulaGrader(answers=flat, variables=names, samples=4, metric_suffixes=True, tolerance='0.0001%')
        same = render_ws(toks(tree, 1, rp_random(rnd, 0.4)), rnd)
        got = verdict(g, same)
        if got is True:
            o.ok(C, o.key(case, flat, 'same'), sample={'answers': flat, 'student': same, 'ok': True})
        else:
            o.fail(C, o.key(case, flat, 'same'), 'FormulaGrader(answers=%r) on the same tree rendered as %r: %r, expected True' % (flat, same, got))
        for gname, regroup in (('left-to-right', left_to_right), ('right-to-left', right_to_left)):
            alt = regroup(ops, negs, leaves, nums, None)
            alt_s = ''.join(toks(alt))
            # the two trees are different functions iff they differ at generic points: decide with the reference at three fixed points
            diffs = []
            for pt in ((1.3, 2.9, 4.1, 3.3), (4.7, 1.1, 2.3, 3.9), (2.2, 3.6, 1.4, 4.8)):
                env = dict(zip(names, pt))
                try:
                    v1, v2 = ev(tree, env), ev(alt, env)
                except Skip:
                    diffs.append(None)
                    continue
                diffs.append(abs(v1 - v2) / max(abs(v1), abs(v2)))
            if None in diffs:
                continue
            if all(d > 1e-2 for d in diffs):
                expected = False
            elif all(d < 1e-12 for d in diffs):
                expected = True
            else:
                continue
            got = verdict(g, alt_s)
            if got is expected:
                o.ok(C, o.key(case, flat, gname), sample={'answers': flat, 'student': alt_s, 'ok': expected})
            else:
                o.fail(C, o.key(case, flat, gname), 'FormulaGrader(answers=%r) on the %s grouping %r: %r, expected %r' % (flat, gname, alt_s, got, expected))
    return o.rows


# ------------------------------------------------------------------------------------------------ driver
WORKERS = {'seq': work_seq, 'deep': work_deep, 'arr': work_arr, 'num': work_num, 'invalid': work_invalid, 'soup': work_soup, 'grader': work_grader}


def _call(task):
    section, tier, seed, payload = task
    return WORKERS[section](tier, seed, payload)


def _chunks(xs, size):
    return [xs[i:i + size] for i in range(0, len(xs), size)]


def plan(tier, seed, only=None):
    tasks = []
    quick = tier == 'quick'
    items = seq_items(tier)
    tasks += [('seq', tier, seed, c) for c in _chunks(items, 400)]
    n_deep = 800 if quick else 20000
    tasks += [('deep', tier, seed, c) for c in _chunks(list(range(n_deep)), 250)]
    n_arr = 200 if quick else 4000
    tasks += [('arr', tier, seed, c) for c in _chunks(list(range(n_arr)), 250)]
    tasks.append(('num', tier, seed, None))
    tasks.append(('invalid', tier, seed, None))
    max_len = 4
    for length in range(1, max_len + 1):
        for first in SOUP:
            tasks.append(('soup', tier, seed, ('exhaustive', (length, first))))
    n_soup = 4000 if quick else 60000
    tasks += [('soup', tier, seed, ('random', c)) for c in _chunks(list(range(n_soup)), 2000)]
    tasks.append(('grader', tier, seed, None))
    if only:
        tasks = [tk for tk in tasks if tk[0] in only]
    bounds = {'operator sequences': len(items), 'longest operator sequence': 4, 'leaf assignments per sequence': 1 if quick else 2, 'random derivations': n_deep,
              'derivation depth': 4 if quick else 6, 'array derivations': n_arr, 'number literals': len(MANTISSAS) * len(EXPONENTS) * len(SUFFIXES),
              'token strings: exhaustive length': max_len, 'token strings: random': n_soup, 'relative tolerance': RTOL}
    return tasks, bounds


def _run(tier, seed, only=None):
    load_contracts()
    t = Tally('C03')
    _lib()
    tasks, bounds = plan(tier, seed, only)
    results = None
    if tier == 'thorough' and len(tasks) > 4:
        try:
            import multiprocessing
            ctx = multiprocessing.get_context('fork')
            procs = max(1, min(16, os.cpu_count() or 1))
            if procs > 1:
                pool = ctx.Pool(procs)
                try:
                    results = pool.map(_call, tasks, chunksize=1)
                finally:
                    pool.terminate()
                    pool.join()
        except (ImportError, OSError, ValueError):
            results = None
    if results is None:
        results = [_call(task) for task in tasks]
    seen = set()
    for rows in results:
        for status, contract, key, info in rows:
            if status == 'skip':
                t.evaluations += 1
                t.skipped += 1
                continue
            if key in seen:           # the same string reached twice (random token strings): count once
                continue
            seen.add(key)
            if status == 'ok':
                t.ok(contract, key, sample=info)
            else:
                t.fail(contract, key, info)
    return t.report(rule="strings are produced from the reference's own trees (minimal parentheses by the documented precedence: ^ right-assoc with signed exponent > unary minus > || > * / > + -), "
                         "or from token sequences parsed by the reference's precedence-climbing parser; the oracle is the reference evaluator in Python float/complex/numpy arithmetic "
                         "(|| = 1/(1/a+1/b+...), 0 with a zero operand; literal = float(mantissa) * documented multiplier); renderings with tabs/line breaks between tokens, spaces anywhere, "
                         "em-dash minus and redundant parentheses must give the same value; strings the reference grammar rejects must raise UnableToParse/UnbalancedBrackets "
                         "(or Undefined* when the tokens merge into an unknown name); distinct = distinct (contract, formula, binding) keys",
                    bounds=bounds, exhaustive=False)


def run(tier, seed):
    return _run(tier, seed)


def replay(case):
    key = case.get('key', '')
    tier, seed, only = 'quick', 0, None
    try:
        head = key.split('#', 1)[1].split('|')
        tier = 'thorough' if head[0][0] == 't' else 'quick'
        seed = int(head[0][1:])
        only = {head[1]} if head[1] in WORKERS else None
    except (IndexError, ValueError):
        pass
    out = _run(tier, seed, only)
    hit = [f for f in out['failures'] if f['key'] == key]
    return {'reproduced': bool(hit), 'case': hit[:1]}
