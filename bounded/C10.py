"""
Bounded stand-in for C10 (never counted as proved).
1. Generated expression derivations with known name sets (names that are prefixes/suffixes of one another, variables named like functions, primes,
   underscores, tensor indices, suffix letters next to e-exponents, names only inside array literals or exponents): reported sets must be exact.
2. All call sequences of length <= 3 (thorough: 4) over an alphabet of a dozen strings that includes malformed ones, on the shared module-level parser
   (parse / evaluator interleaved), each outcome compared with a freshly constructed parser.
"""
import itertools
import random
from bounded._common import Tally, rtcheck, load_contracts

ASSUMPTIONS = ["bounded tier: derivations of depth <= 3 over 12 names; call sequences of length <= 3 (quick) / 4 (thorough) over 13 strings"]


def run(tier, seed):
    load_contracts()
    rnd = random.Random(seed)
    t = Tally('C10')
    E = rtcheck.real_module('mitxgraders/helpers/calc/expressions.py')
    cexc = rtcheck.real_module('mitxgraders/helpers/calc/exceptions.py')

    # ---- 1. exact name sets
    variables = ['x', 'xy', 'x_1', "x'", "x''", 'sin', 'e1', 'T_{ij}', 'T_{c}^{ab}', 'T_{-1}', 'k', 'M', 'a_b']
    functions = ['f', 'sin', 'f2', "f'", 'xy', 'g_1']
    suffixes = ['%', 'k', 'M', 'm']

    def gen(depth):
        """returns (text, vars, funcs, sufs)"""
        r = rnd.random()
        if depth == 0 or r < 0.25:
            c = rnd.random()
            if c < 0.45:
                v = rnd.choice(variables)
                return v, {v}, set(), set()
            if c < 0.7:
                n = rnd.choice(['2', '3.5', '1e3', '2.5e-2', '.5', '7'])
                return n, set(), set(), set()
            s = rnd.choice(suffixes)
            n = rnd.choice(['2', '3.5', '1e3', '10'])
            return n + s, set(), set(), {s}
        if r < 0.45:
            f = rnd.choice(functions)
            nargs = rnd.choice([1, 1, 2])
            parts = [gen(depth - 1) for _ in range(nargs)]
            return '%s(%s)' % (f, ', '.join(p[0] for p in parts)), set().union(*[p[1] for p in parts]), {f}.union(*[p[2] for p in parts]), set().union(*[p[3] for p in parts])
        if r < 0.55:
            parts = [gen(depth - 1) for _ in range(2)]
            return '[%s]' % ', '.join(p[0] for p in parts), set().union(*[p[1] for p in parts]), set().union(*[p[2] for p in parts]), set().union(*[p[3] for p in parts])
        a, b = gen(depth - 1), gen(depth - 1)
        op = rnd.choice(['+', '-', '*', '/', '^', '||', ' + ', '*-'])
        if op == '^':
            txt = '(%s)^(%s)' % (a[0], b[0])
        else:
            txt = '(%s)%s(%s)' % (a[0], op, b[0])
        return txt, a[1] | b[1], a[2] | b[2], a[3] | b[3]

    n_expr = 1500 if tier == 'quick' else 20000
    for k in range(n_expr):
        txt, vs, fs, ss = gen(3)
        try:
            p = E.MathParser().parse(txt)
        except Exception as e:
            t.fail('reported name sets', (k, txt), 'generated expression %r does not parse: %s: %s' % (txt, type(e).__name__, str(e)[:100]))
            continue
        got = (set(p.variables_used), set(p.functions_used), set(p.suffixes_used))
        if got == (vs, fs, ss):
            t.ok('reported name sets', (txt,), sample={'expression': txt, 'variables': sorted(vs), 'functions': sorted(fs), 'suffixes': sorted(ss)})
        else:
            t.fail('reported name sets', (txt,), 'expression %r: reported %r, constructed with %r' % (txt, tuple(sorted(x) for x in got), (sorted(vs), sorted(fs), sorted(ss))))
    # ---- 2. history independence on the shared parser
    alphabet = ['x+1', 'f(x)+y', '2k+z', 'b*sin(a + 3k', '(x))', 'x y', 'x\t1 + 1', 'x1 + 1', '3e\n5k + f(q)', '3e5k + f(q)', '', '41 + 1*q', '[a, b]*[c']

    def observe(parser, s, mode):
        try:
            if mode == 'parse':
                p = parser.parse(s)
                return ('ok', tuple(sorted(p.variables_used)), tuple(sorted(p.functions_used)), tuple(sorted(p.suffixes_used)))
            val, meta = parser.parse(s).eval({'x': 1.0, 'y': 2.0, 'z': 3.0, 'q': 4.0, 'a': 1.0, 'b': 2.0, 'c': 3.0, 'x1': 3.0}, {'f': lambda u: u + 1, 'sin': lambda u: u},
                                             {'k': 1000.0, '%': 0.01}) if s.strip() else (float('nan'), None)
            return ('val', repr(val))
        except Exception as e:
            return (type(e).__name__, str(e)[:60])

    fresh_cache = {}

    def fresh_outcome(s, mode):
        key = (s, mode)
        if key not in fresh_cache:
            fresh_cache[key] = observe(E.MathParser(), s, mode)
        return fresh_cache[key]

    L = 4 if tier == 'thorough' else 3
    seqs = list(itertools.product(range(len(alphabet)), repeat=L))
    if tier == 'quick':
        seqs = rnd.sample(seqs, 700)
    for seq in seqs:
        parser = E.MathParser()      # one parser per sequence plays the role of the shared one
        for pos, idx in enumerate(seq):
            s = alphabet[idx]
            mode = 'parse' if (pos + idx) % 2 == 0 else 'eval'
            got = observe(parser, s, mode)
            want = fresh_outcome(s, mode)
            if got != want:
                t.fail('history independence', (seq, pos), 'after %r, %s(%r) gives %r but a fresh parser gives %r' % ([alphabet[i] for i in seq[:pos]], mode, s, got, want))
                break
            if parser.variables_used or parser.functions_used or parser.suffixes_used:
                t.fail('history independence', (seq, pos, 'scratch'), 'scratch sets not empty after %s(%r): %r' % (mode, s, (parser.variables_used, parser.functions_used, parser.suffixes_used)))
                break
        else:
            t.ok('history independence', (seq,), sample={'sequence': [alphabet[i] for i in seq]})
    # the module-level PARSER behaves like a fresh parser as well, after hostile use
    for s in alphabet:
        for mode in ('parse', 'eval'):
            observe(E.PARSER, s, mode)
    for s in alphabet:
        got, want = observe(E.PARSER, s, 'parse'), fresh_outcome(s, 'parse')
        (t.ok if got == want else t.fail)('shared PARSER', s, *([] if got == want else ['shared parser on %r: %r, fresh parser: %r' % (s, got, want)]))
    # graders in between: whatever graders did with the shared parser (their own parse calls, the name sets they read from the parse results),
    # the shared parser afterwards reports for every string exactly what a fresh parser reports
    fgm = rtcheck.real_module('mitxgraders/formulagrader/formulagrader.py')
    igm = rtcheck.real_module('mitxgraders/formulagrader/integralgrader.py')
    probes = ['n^2 + 1', 'x*k^2', 'sin(x) + y', 'x + 1', 'sqrt(16)', 'f(x) + n', '2*m']

    def grader_calls():
        g = igm.SumGrader(answers={'lower': '1', 'upper': 'sqrt(16)', 'summand': 'n^2 + 1', 'summation_variable': 'n'}, input_positions={'lower': 1, 'upper': 2, 'summand': 3})
        for inp in (['1', 'sqrt(16)', 'n^2 + 1'], ['abs(-1)', '4', 'n^2 + 1'], ['1', 'max(4, 2)', 'n^2+1']):
            try:
                g(None, inp)
            except Exception:
                pass
        g = igm.SumGrader(answers={'lower': 'cos(0)', 'upper': '6', 'summand': 'x*k^2', 'summation_variable': 'k'}, variables=['x'], input_positions={'summand': 1})
        for inp in ('x*k^2', 'x*m^2'):
            try:
                g(None, inp)
            except Exception:
                pass
        for ans, inp, kw in (('sin(x) + y', 'y + sin(x)', dict(variables=['x', 'y'])), ('x + 1', 'sin(x)', dict(variables=['x'], blacklist=['cos'])),
                             ('f(x) + n', 'n + f(x)', dict(variables=['x', 'n'], user_functions={'f': lambda u: u * u}))):
            try:
                fgm.FormulaGrader(answers=ans, **kw)(None, inp)
            except Exception:
                pass

    def names(s):
        p = E.PARSER.parse(s)
        return (sorted(p.variables_used), sorted(p.functions_used), sorted(p.suffixes_used))

    def fresh_names(s):
        p = E.MathParser().parse(s)
        return (sorted(p.variables_used), sorted(p.functions_used), sorted(p.suffixes_used))
    for rnd_no in range(2):
        grader_calls()
        for s in probes:
            got, want = names(s), fresh_names(s)
            (t.ok if got == want else t.fail)('shared PARSER after grader calls', (rnd_no, s), *([] if got == want else [
                'after SumGrader/FormulaGrader calls the shared parser reports %r for %r, a fresh parser reports %r' % (got, s, want)]))
    return t.report(rule="random derivations with constructed name sets parsed by fresh parsers; call sequences over a 13-string alphabet (malformed strings included) with parse/evaluate interleaved, "
                         "each step compared with a fresh parser and the scratch sets inspected; distinct = distinct expressions / sequences", bounds={'expressions': n_expr, 'sequence length': L, 'sequences': len(seqs)},
                    exhaustive=(tier == 'thorough'))


def replay(case):
    out = run('quick', 0)
    hit = [f for f in out['failures'] if f['key'] == case.get('key')]
    return {'reproduced': bool(hit), 'case': hit[:1]}
