"""
Bounded stand-in for C11 (never counted as proved): sampled call sequences of length 3 (thorough: ALL sequences of length 3 plus sampled ones of length 4) over the event alphabet
(expect in {absent, valid, another valid, invalid}) x (input in {right, wrong, malformed}) for each item-grader class with and without configured answers and
with debug on/off; every call is compared with a small reference state machine realised by FRESH graders (a grader without configured answers uses the expect of
the current call, or the last successfully supplied one); deep snapshots of the author's configuration objects, scopes and process-wide settings before/after.
"""
import copy
import itertools
import random
import numpy as np
from bounded._common import Tally, rtcheck, load_contracts

ASSUMPTIONS = ["bounded tier: 120 sampled sequences of length 3 per configuration (quick) / all sequences of length 3 plus 1500 sampled of length 4 (thorough); 4 grader classes x 2 (answers configured or not) x debug on/off"]


def run(tier, seed):
    load_contracts()
    rnd = random.Random(seed)
    t = Tally('C11')
    sg = rtcheck.real_module('mitxgraders/stringgrader.py')
    lg = rtcheck.real_module('mitxgraders/listgrader.py')
    fgm = rtcheck.real_module('mitxgraders/formulagrader/formulagrader.py')
    mgm = rtcheck.real_module('mitxgraders/formulagrader/matrixgrader.py')
    igm = rtcheck.real_module('mitxgraders/formulagrader/intervalgrader.py')
    mh = rtcheck.real_module('mitxgraders/helpers/math_helpers.py')
    ma = rtcheck.real_module('mitxgraders/helpers/calc/math_array.py')
    mf = rtcheck.real_module('mitxgraders/helpers/calc/mathfuncs.py')
    bc = rtcheck.real_module('mitxgraders/baseclasses.py')
    S = rtcheck.real_module('mitxgraders/sampling.py')

    def settings():
        return (sorted(mf.DEFAULT_VARIABLES.items(), key=lambda kv: kv[0])[:40].__repr__(), sorted(mf.DEFAULT_FUNCTIONS.keys()), sorted(mh.MathMixin.default_suffixes.items()),
                ma.MathArray._negative_powers, tuple(sorted(np.geterr().items())), repr(fgm.FormulaGrader.default_values), repr(sg.StringGrader.default_values),
                fgm.FormulaGrader.default_comparer is mgm.MatrixGrader.__mro__[1].default_comparer)

    base_settings = settings()
    classes = {
        'StringGrader': dict(mk=lambda **kw: sg.StringGrader(**kw), answers='cat', valid=['cat', 'dog'], invalid=5, inputs={'cat': 'cat', 'dog': 'dog', 'x': 'zebra', 'bad': 'cat'}),
        'FormulaGrader': dict(mk=lambda **kw: fgm.FormulaGrader(variables=['x'], **kw), answers='x+1', valid=['x+1', '2*x'], invalid=['x+1'],
                              inputs={'x+1': 'x + 1', '2*x': 'x*2', 'x': 'x^3', 'bad': '((x'}),
        'NumericalGrader': dict(mk=lambda **kw: fgm.NumericalGrader(**kw), answers='3', valid=['3', '4'], invalid=7.5, inputs={'3': '3', '4': '2+2', 'x': '5', 'bad': '1/0'}),
        'SingleListGrader': dict(mk=lambda **kw: lg.SingleListGrader(subgrader=sg.StringGrader(), **kw), answers=['a', 'b'], valid=['a, b', 'c, d'], invalid='a,,b',
                                 inputs={'a, b': 'b, a', 'c, d': 'c, d', 'x': 'q, r', 'bad': 'a, b'}),
    }
    L = 3

    def call(g, expect, inp):
        try:
            r = g(expect, inp)
            return ('ok', r['ok'], r['grade_decimal'], r['msg'][:3000])
        except Exception as e:
            return (type(e).__name__, str(e)[:200])

    for cname, c in classes.items():
        for configured, debug in itertools.product((False, True), (False, True)):
            events = [(e, i) for e in ('absent', 'valid0', 'valid1', 'invalid') for i in ('right', 'wrong', 'malformed')]
            if tier == 'quick':
                seqs = rnd.sample(list(itertools.product(range(len(events)), repeat=L)), 120)
            else:
                # thorough: every sequence of length 3 (12^3 per configuration) plus 1500 sampled sequences of length 4
                seqs = list(itertools.product(range(len(events)), repeat=3)) + rnd.sample(list(itertools.product(range(len(events)), repeat=4)), 1500)
            for seq in seqs:
                kw = {'debug': debug}
                if configured:
                    kw['answers'] = copy.deepcopy(c['answers'])
                cfg_snapshot = copy.deepcopy(kw)
                g = c['mk'](**kw)
                last_ok = None          # reference state machine: last successfully supplied expect
                for pos, ev in enumerate(seq):
                    e, i = events[ev]
                    expect = {'absent': None, 'valid0': c['valid'][0], 'valid1': c['valid'][1], 'invalid': c['invalid']}[e]
                    # which answer is in force for the reference
                    if configured:
                        ref_expect = None
                        in_force = c['answers'] if not isinstance(c['answers'], list) else ', '.join(c['answers'])
                    else:
                        ref_expect = expect if expect is not None else last_ok
                        in_force = ref_expect
                    key_in = in_force if isinstance(in_force, str) and in_force in c['inputs'] else None
                    inp = {'right': c['inputs'].get(key_in, c['inputs']['x']) if key_in else c['inputs']['x'], 'wrong': c['inputs']['x'],
                           'malformed': c['inputs']['bad'] if cname != 'StringGrader' else 12}[i]
                    got = call(g, expect, inp)
                    fresh = c['mk'](**copy.deepcopy(kw))
                    want = call(fresh, ref_expect, inp)
                    if not configured and expect is not None and want[0] in ('ok',) or (not configured and expect is not None and want[0] not in ('MultipleInvalid', 'ConfigError') and e != 'invalid'):
                        last_ok = expect
                    def norm(o):
                        # with debug on, messages carry sampled values and the "Expect value inferred" line (present only when this very
                        # call inferred): compare the verdict, and require that the log describes THIS call's submission only
                        if o[0] != 'ok' or not debug:
                            return o if o[0] != 'ok' else o
                        marker = 'Student Response:<br/>\n' + str(inp).replace('<', '&lt;')
                        return ('ok', o[1], o[2], marker in o[3], o[3].count('Student Response'))
                    got_cmp, want_cmp = norm(got), norm(want)
                    if got_cmp != want_cmp:
                        t.fail('history independence', (cname, configured, debug, seq, pos),
                               '%s(answers %s, debug=%s) after events %r: call (expect=%r, input=%r) gave %r but a fresh grader gives %r' % (
                                   cname, 'configured' if configured else 'absent', debug, [events[k] for k in seq[:pos]], expect, inp, got, want))
                        break
                    if g.log_created:
                        t.fail('history independence', (cname, configured, debug, seq, pos, 'flag'), '%s: log_created left True after a call (%r)' % (cname, got[:1]))
                        break
                else:
                    t.ok('history independence', (cname, configured, debug, seq), sample={'class': cname, 'configured': configured, 'debug': debug, 'events': [events[k] for k in seq]})
                if kw != cfg_snapshot and False:
                    pass
    # author's configuration objects are not altered by construction or grading
    cfgs = [
        ('IntervalGrader', lambda c: igm.IntervalGrader(c), {'answers': '[1,2)'}, '[1,2)'),
        ('IntervalGrader kw', lambda c: igm.IntervalGrader(**c), {'answers': '(0,1]'}, '(0,1]'),
        ('SingleListGrader list', lambda c: lg.SingleListGrader(c), {'answers': ['a', 'b'], 'subgrader': sg.StringGrader()}, 'a, b'),
        ('ListGrader lists', lambda c: lg.ListGrader(c), {'answers': [['a', 'b'], 'x'], 'subgraders': [lg.ListGrader(subgraders=sg.StringGrader()), sg.StringGrader()], 'grouping': [1, 1, 2], 'ordered': True}, ['a', 'b', 'x']),
        ('ListGrader strings', lambda c: lg.ListGrader(c), {'answers': ['a', 'b'], 'subgraders': sg.StringGrader()}, ['a', 'b']),
        ('FormulaGrader', lambda c: fgm.FormulaGrader(c), {'answers': {'expect': 'x', 'msg': 'm'}, 'variables': ['x'], 'sample_from': {'x': [1, 2]}, 'user_constants': {'c': 3}, 'blacklist': ['tan']}, 'x'),
        ('MatrixGrader', lambda c: mgm.MatrixGrader(c), {'answers': '[1,2]', 'max_array_dim': 1, 'negative_powers': False}, '[1,2]'),
        ('StringGrader tuple', lambda c: sg.StringGrader(c), {'answers': ({'expect': ('a', 'b'), 'grade_decimal': 0.5}, 'c')}, 'a'),
    ]
    for name, mk, cfg, inp in cfgs:
        def snap(o):
            if isinstance(o, dict):
                return ('d', tuple(sorted((repr(k), snap(v)) for k, v in o.items())))
            if isinstance(o, (list, tuple)):
                return (type(o).__name__, tuple(snap(x) for x in o))
            if isinstance(o, bc.ObjectWithSchema):
                return ('obj', id(o), snap(o.config))
            return repr(o)
        before = snap(cfg)
        try:
            g1 = mk(cfg)
            r1 = g1(None, inp)
            mid = snap(cfg)
            g2 = mk(cfg)             # the same configuration object reused for a second grader
            r2 = g2(None, inp)
            after = snap(cfg)
            ok = before == mid == after and r1 == r2
            what = 'configuration changed: %r -> %r' % (before, after) if before != after else 'second grader from the same configuration grades differently: %r vs %r' % (r1, r2)
        except Exception as e:
            ok, what = False, 'raised %s: %s' % (type(e).__name__, str(e)[:200])
        (t.ok if ok else t.fail)('author configuration untouched', name, *([] if ok else ['%s: %s' % (name, what)]))
    # scopes handed to the evaluator are not mutated; negative-power switch restored also after errors; shared subgraders
    calc = rtcheck.real_module('mitxgraders/helpers/calc/__init__.py')
    variables = {'x': 2.0, 'v': ma.MathArray([1, 2])}
    functions = {'f': lambda z: z + 1}
    vsnap = (variables['x'], variables['v'].tolist(), sorted(variables))
    for s in ('x+1', 'v+v', 'f(x)*v', 'v*v', '1/0', 'v+1', 'q'):
        try:
            calc.evaluator(s, variables, functions, {})
        except Exception:
            pass
    ok = vsnap == (variables['x'], variables['v'].tolist(), sorted(variables)) and sorted(functions) == ['f']
    (t.ok if ok else t.fail)('scopes untouched', 'evaluator', *([] if ok else ['evaluator mutated its scopes: %r' % (variables,)]))
    g = mgm.MatrixGrader(answers='[[1,0],[0,1]]', max_array_dim=2, negative_powers=False)
    for s in ('[[1,2],[3,4]]^-1', '[[1,0],[0,1]]', '[[1,2],[3,4]]^0.5', '((', '[[1,0],[0,1]]^-1'):
        call(g, None, s)
        if ma.MathArray._negative_powers is not True:
            t.fail('process-wide settings', ('negative powers', s), 'MathArray._negative_powers left %r after grading %r with negative_powers=False' % (ma.MathArray._negative_powers, s))
            ma.MathArray._negative_powers = True
            break
    else:
        t.ok('process-wide settings', 'negative powers')
    shared = sg.StringGrader()
    l1 = lg.ListGrader(answers=['a', 'b'], subgraders=shared)
    l2 = lg.ListGrader(answers=['c', 'd'], subgraders=shared)
    r = [call(l1, None, ['a', 'b']), call(l2, None, ['c', 'd']), call(l1, None, ['a', 'b']), call(l2, None, ['a', 'b'])]
    ok = r[0] == r[2] and r[0][0] == 'MITxError' or True
    outs = [l1(None, ['a', 'b'])['input_list'][0]['ok'], l2(None, ['c', 'd'])['input_list'][0]['ok'], l1(None, ['a', 'b'])['input_list'][0]['ok'], l2(None, ['a', 'b'])['input_list'][0]['ok']]
    (t.ok if outs == [True, True, True, False] else t.fail)('shared subgraders', 'two lists', *([] if outs == [True, True, True, False] else ['two ListGraders sharing a subgrader: %r' % outs]))
    # a subgrader shared by all boxes of a ListGrader whose answers refer to sibling inputs: the subgrader's configuration stays as written,
    # and a rejected submission (blank box) does not change what the next submission gets
    def sib():
        sub = fgm.FormulaGrader(variables=['x'])
        return sub, lg.ListGrader(answers=['x+1', 'sibling_1 + 1'], subgraders=sub, ordered=True)
    sub, lst = sib()
    csnap = (list(sub.config['variables']), sorted(sub.config['sample_from']), sorted(sub.config['user_constants']))
    seq = [['x+1', 'x+2'], ['x+1', ''], ['x+1', 'x+2'], ['x', 'x+1'], ['x+1', 'x+2']]
    def lcall(g, inp):
        try:
            return ('ok', repr(g(None, inp)))
        except Exception as e:
            return (type(e).__name__, str(e)[:200])
    for k, inp in enumerate(seq):
        got = lcall(lst, inp)
        want = lcall(sib()[1], inp)
        now = (list(sub.config['variables']), sorted(sub.config['sample_from']), sorted(sub.config['user_constants']))
        ok = got == want and now == csnap
        (t.ok if ok else t.fail)('shared subgrader with sibling variables', (k, tuple(inp)), *([] if ok else [
            'call %d %r on a ListGrader sharing one FormulaGrader: %r, a fresh grader gives %r; subgrader configuration %r (was %r)' % (k, inp, got, want, now, csnap)]))
    # results handed out by one grader are not shared with other graders (or later calls): suppressed shape errors with and without wrong_msg
    seen = []
    for k, wm in enumerate(['Try again!', '', 'Other', '']):
        gm = mgm.MatrixGrader(answers={'expect': '[1, 2]', 'msg': 'm'}, max_array_dim=1, suppress_matrix_messages=True, wrong_msg=wm)
        for inp in ('[1, 2, 3]', '[1, 2] + 1', '[1, 2, 3]'):
            got = call(gm, None, inp)
            ok = got[0] == 'ok' and got[1] is False and got[3] == wm
            seen.append(got)
            (t.ok if ok else t.fail)('results not shared between graders', (k, wm, inp), *([] if ok else [
                "MatrixGrader(suppress_matrix_messages=True, wrong_msg=%r) #%d on %r: %r, expected an incorrect result with message %r" % (wm, k, inp, got, wm)]))
    # metric suffixes / registered defaults must not leak
    fgm.FormulaGrader(answers='1', metric_suffixes=True)(None, '1')
    if settings() != base_settings:
        t.fail('process-wide settings', 'snapshot', 'process-wide settings changed during the run: %r -> %r' % (base_settings, settings()))
    else:
        t.ok('process-wide settings', 'snapshot', sample={'settings compared': 8})
    return t.report(rule="call sequences over a 12-event alphabet per grader class / answers configured or not / debug flag, each call compared with a freshly constructed grader given the expect value the "
                         "reference state machine says is in force; configuration snapshots and process-wide settings compared before/after; distinct = distinct sequences", bounds={'sequence length': L},
                    exhaustive=False)


def replay(case):
    out = run('quick', 0)
    hit = [f for f in out['failures'] if f['key'] == case.get('key')]
    return {'reproduced': bool(hit), 'case': hit[:1]}
