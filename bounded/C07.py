"""
Bounded stand-in for C07 (never counted as proved): SingleListGrader against the statement's formula with a brute-force oracle.
Expected lists of 1-4 items, submissions of 1-6 items, item credits arbitrary through a table-driven subgrader, ordered/unordered,
partial_credit, answer-level credit and message, length_error / missing_error, multi-character delimiters, one level of nesting,
permutation invariance for unordered lists.  Also runs the contracts of consolidate_grades / consolidate_single_return /
process_grade_list under CPython on enumerated inputs.
"""
import itertools
import random
from bounded._common import Tally, rtcheck, load_contracts

ASSUMPTIONS = ["bounded tier: expected lists <= 4 items, submissions <= 6 items, credit palette {0, .25, .5, 1}"]
F = "mitxgraders/listgrader.py::"


def best_total(matrix, n_ans, n_inp, ordered):
    """max total credit over one-to-one assignments of inputs to answers (positional when ordered); missing items count 0"""
    if ordered:
        return sum(matrix[i][i] for i in range(min(n_ans, n_inp)))
    best = 0.0
    k = min(n_ans, n_inp)
    if n_inp <= n_ans:
        for cols in itertools.permutations(range(n_ans), n_inp):
            best = max(best, sum(matrix[i][c] for i, c in enumerate(cols)))
    else:
        for rows in itertools.permutations(range(n_inp), n_ans):
            best = max(best, sum(matrix[r][c] for c, r in enumerate(rows)))
    return best


def run(tier, seed):
    load_contracts()
    rnd = random.Random(seed)
    t = Tally('C07')
    lg = rtcheck.real_module('mitxgraders/listgrader.py')
    bc = rtcheck.real_module('mitxgraders/baseclasses.py')
    palette = [0, 0.25, 0.5, 1]

    class TableSub(bc.ItemGrader):
        table = {}

        def check_response(self, answer, student_input, **kwargs):
            g = self.table.get((answer['expect'], student_input.strip()), 0)
            return {'ok': bc.AbstractGrader.grade_decimal_to_ok(g), 'grade_decimal': g, 'msg': ''}

    n_cfg = 250 if tier == 'quick' else 3000
    for cfg in range(n_cfg):
        n_ans = rnd.randint(1, 4)
        n_inp = rnd.randint(1, 6)
        ordered = rnd.random() < 0.4
        pc = rnd.random() < 0.7
        credit = rnd.choice([1, 0.5, 0.8])
        delim = rnd.choice([',', ';', '&&'])
        answers = ['a%d' % i for i in range(n_ans)]
        inputs = ['s%d' % i for i in range(n_inp)]
        matrix = [[rnd.choice(palette) if rnd.random() < 0.7 else 0 for _ in range(n_ans)] for _ in range(n_inp)]
        TableSub.table = {(answers[c], inputs[r]): matrix[r][c] for r in range(n_inp) for c in range(n_ans)}
        g = lg.SingleListGrader(answers={'expect': answers, 'grade_decimal': credit, 'msg': 'overall'}, subgrader=TableSub(),
                                ordered=ordered, partial_credit=pc, delimiter=delim)
        total = best_total(matrix, n_ans, n_inp, ordered)
        item = max(0.0, (total - max(0, n_inp - n_ans)) / n_ans)
        if not pc and item < 1:
            item = 0
        want = credit * item
        perms = [inputs] if ordered else ([list(p) for p in itertools.permutations(inputs)] if n_inp <= 4 else [inputs, inputs[::-1]])
        for perm in perms:
            sub = (delim + ' ').join(perm)
            try:
                r = g(None, sub)
            except Exception as e:
                t.fail('SingleListGrader credit formula', (cfg, tuple(perm)), 'raised %s: %s' % (type(e).__name__, e))
                continue
            key = (cfg, tuple(perm))
            if abs(r['grade_decimal'] - want) > 1e-9:
                t.fail('SingleListGrader credit formula', key, 'answers=%d inputs=%r ordered=%s partial_credit=%s credit=%s matrix=%r: grade %r, formula gives %r' % (
                    n_ans, perm, ordered, pc, credit, matrix, r['grade_decimal'], want))
            else:
                t.ok('SingleListGrader credit formula', key, sample={'n_answers': n_ans, 'inputs': perm, 'ordered': ordered, 'partial_credit': pc, 'answer_credit': credit, 'matrix': matrix, 'grade': r['grade_decimal']})
            # the answer-level message only when every submitted and expected item earned credit (under the chosen matching)
            shown = 'overall' in r['msg']
            if shown:
                idx = [inputs.index(x) for x in perm]
                possible = False
                if n_inp == n_ans:
                    cands = [tuple(range(n_ans))] if ordered else itertools.permutations(range(n_ans))
                    for cols in cands:
                        vals = [matrix[idx[i]][c] for i, c in enumerate(cols)]
                        if all(v > 0 for v in vals) and abs(sum(vals) - total) < 1e-9:
                            possible = True
                            break
                if not possible:
                    t.fail('SingleListGrader message rule', key, 'answer-level message shown although not every submitted and expected item earned credit: inputs %r matrix %r ordered=%s' % (perm, matrix, ordered))
    # systematic corner of the formula: partial_credit x answer-level credit x {perfect, one item at half credit, one item wrong} submissions
    for n_ans, ordered, pc, credit, flaw in itertools.product((1, 2, 3), (False, True), (False, True), (1, 0.8, 0.5, 0.25), ('perfect', 'half', 'wrong')):
        answers = ['a%d' % i for i in range(n_ans)]
        inputs = ['s%d' % i for i in range(n_ans)]
        matrix = [[1 if r == c else 0 for c in range(n_ans)] for r in range(n_ans)]
        if flaw != 'perfect':
            matrix[n_ans - 1][n_ans - 1] = 0.5 if flaw == 'half' else 0
        TableSub.table = {(answers[c], inputs[r]): matrix[r][c] for r in range(n_ans) for c in range(n_ans)}
        g = lg.SingleListGrader(answers={'expect': answers, 'grade_decimal': credit, 'msg': 'overall'}, subgrader=TableSub(), ordered=ordered, partial_credit=pc)
        item = sum(matrix[i][i] for i in range(n_ans)) / n_ans
        if not pc and item < 1:
            item = 0
        want = credit * item
        key = ('corner', n_ans, ordered, pc, credit, flaw)
        try:
            r = g(None, ', '.join(inputs))
        except Exception as e:
            t.fail('SingleListGrader credit formula', key, 'raised %s: %s' % (type(e).__name__, e))
            continue
        if abs(r['grade_decimal'] - want) > 1e-9 or r['ok'] != bc.AbstractGrader.grade_decimal_to_ok(want):
            t.fail('SingleListGrader credit formula', key, '%d expected items, ordered=%s partial_credit=%s answer credit=%s, %s submission: grade %r ok %r, formula gives %r' % (
                n_ans, ordered, pc, credit, flaw, r['grade_decimal'], r['ok'], want))
        else:
            t.ok('SingleListGrader credit formula', key)
    # length_error / missing_error
    sg = rtcheck.real_module('mitxgraders/stringgrader.py')
    for le, me in itertools.product([False, True], repeat=2):
        g = lg.SingleListGrader(answers=['a', 'b', 'c'], subgrader=sg.StringGrader(), length_error=le, missing_error=me)
        for sub, blank, wronglen in (('a, b, c', False, False), ('a, b', False, True), ('a, , c', True, False), ('a, ', True, True), ('a,b,c,d', False, True)):
            try:
                r = g(None, sub)
                got = 'graded'
            except Exception as e:
                got = type(e).__name__ + ':' + ('length' if 'length error' in str(e) else 'empty' if 'Empty entr' in str(e) else '?')
            want = 'MissingInput:length' if (le and wronglen) else ('MissingInput:empty' if (me and blank) else 'graded')
            key = (le, me, sub)
            if got == want:
                t.ok('length_error / missing_error', key, sample={'length_error': le, 'missing_error': me, 'submission': sub, 'outcome': got})
            else:
                t.fail('length_error / missing_error', key, 'length_error=%s missing_error=%s %r: %s, expected %s' % (le, me, sub, got, want))
    # one level of nesting
    g = lg.SingleListGrader(answers=[['a', 'b'], ['c', 'd']], subgrader=lg.SingleListGrader(subgrader=sg.StringGrader(), delimiter=','), delimiter=';')
    for sub, want in (('a,b;c,d', 1.0), ('c,d;a,b', 1.0), ('b,a;d,c', 1.0), ('a,b;c,x', 0.75), ('a,b', 0.5), ('a,x;c,y;z,z', 0.0)):
        r = g(None, sub)
        if abs(r['grade_decimal'] - want) < 1e-9:
            t.ok('nested SingleListGrader', sub)
        else:
            t.fail('nested SingleListGrader', sub, 'nested %r: grade %r expected %r' % (sub, r['grade_decimal'], want))
    # contracts under CPython
    for gs in itertools.product(palette, repeat=3):
        for ne in (None, 1, 2, 3, 5):
            for cut in (1, 2, 3):
                lst = list(gs[:cut])
                out = rtcheck.check_call(F + 'consolidate_grades', {'grade_decimals': lst, 'n_expect': ne})
                t.record('consolidate_grades', (gs[:cut], ne), out, 'consolidate_grades(%r, %r)' % (gs[:cut], ne), sample={'grades': gs[:cut], 'n_expect': ne, 'result': out.result})
                il = [{'ok': bc.AbstractGrader.grade_decimal_to_ok(x), 'grade_decimal': x, 'msg': rnd.choice(['', 'm'])} for x in gs[:cut]]
                for pcr in (True, False):
                    out = rtcheck.check_call(F + 'consolidate_single_return', {'input_list': il, 'n_expect': ne, 'partial_credit': pcr})
                    t.record('consolidate_single_return', (gs[:cut], ne, pcr), out, 'consolidate_single_return(%r, %r, %r)' % (gs[:cut], ne, pcr))
    return t.report(rule="random SingleListGrader configurations with a table-driven subgrader (every permutation of <= 4 submitted items) against a brute-force "
                         "oracle of the statement's formula; error-flag grid; nested case; contracts of the consolidation helpers evaluated by CPython on a palette grid; "
                         "distinct = distinct (contract, case) keys; all cases non-trivial",
                    bounds={'configurations': n_cfg, 'answers': '1..4', 'inputs': '1..6'}, exhaustive=False)


def replay(case):
    out = run('quick', 0)
    hit = [f for f in out['failures'] if f['key'] == case.get('key')]
    return {'reproduced': bool(hit), 'case': hit[:1]}
