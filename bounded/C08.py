"""
Bounded stand-in for C08 (never counted as proved): tuples of 1-4 alternatives (single expect or tuple of values, credit palette,
optional message) in every listing order, through a table-driven ItemGrader subclass (arbitrary credit per (alternative, value))
and through String / Formula / Numerical / SingleList graders, alone and as subgraders; the oracle grades each alternative alone.
Decides the clauses the proof leaves out: the reported result is one of check_response's results, longest message among ties,
wrong_msg exactly when the best grade is 0 and no message applies.
"""
import itertools
import random
from bounded._common import Tally, rtcheck, load_contracts

ASSUMPTIONS = ["bounded tier: <= 4 alternatives, credit palette {0, .25, .5, 1}, messages from a 4-element pool"]


def run(tier, seed):
    load_contracts()
    rnd = random.Random(seed)
    t = Tally('C08')
    bc = rtcheck.real_module('mitxgraders/baseclasses.py')
    sg = rtcheck.real_module('mitxgraders/stringgrader.py')
    lg = rtcheck.real_module('mitxgraders/listgrader.py')
    fg = rtcheck.real_module('mitxgraders/formulagrader/formulagrader.py')

    class TableGrader(bc.ItemGrader):
        """credit and message are looked up in a table keyed by (expect value, input)"""
        table = {}

        def check_response(self, answer, student_input, **kwargs):
            g, m = self.table.get((answer['expect'], student_input), (0, ''))
            return {'ok': bc.AbstractGrader.grade_decimal_to_ok(g), 'grade_decimal': g, 'msg': m}

    palette = [0, 0.25, 0.5, 1]
    msgs = ['', 'a', 'longer message', 'mid msg']
    n_cfg = 400 if tier == 'quick' else 4000
    for cfg in range(n_cfg):
        n = rnd.randint(1, 4)
        alts = []
        table = {}
        for i in range(n):
            vals = tuple('e%d_%d' % (i, j) for j in range(rnd.randint(1, 2)))
            for v in vals:
                table[(v, 'x')] = (rnd.choice(palette), rnd.choice(msgs))
            alts.append({'expect': vals if len(vals) > 1 or rnd.random() < 0.5 else vals[0]})
        wrong = rnd.choice(['', 'Try again', 'W'])
        cells = [table[(v, 'x')] for a in alts for v in (a['expect'] if isinstance(a['expect'], tuple) else (a['expect'],))]
        best = max(g for g, m in cells)
        tied = [m for g, m in cells if g == best]
        longest = max(len(m) for m in tied)
        for perm in (itertools.permutations(alts) if n <= 3 else [alts, alts[::-1]]):
            TableGrader.table = table
            g = TableGrader(answers=tuple(perm), wrong_msg=wrong)
            r = g(None, 'x')
            key = (cfg, tuple(str(a['expect']) for a in perm))
            ok = abs(r['grade_decimal'] - best) < 1e-12
            if ok:
                if best == 0 and longest == 0:
                    ok = r['msg'] == wrong
                else:
                    ok = len(r['msg']) == longest and r['msg'] in tied
            if ok:
                t.ok('ItemGrader.check (table-driven)', key, sample={'alternatives': [a['expect'] for a in perm], 'cells': cells, 'wrong_msg': wrong, 'result': r})
            else:
                t.fail('ItemGrader.check (table-driven)', key, 'alternatives %r cells %r wrong_msg %r: got %r, expected grade %r and a longest message among %r' % (
                    [a['expect'] for a in perm], cells, wrong, r, best, tied))
    # real graders: grade == max over the alternatives graded alone, in every order
    def alone(mk, alt, inp, **kw):
        try:
            return mk(answers=(alt,), **kw)(None, inp)
        except Exception as e:
            return {'grade_decimal': None, 'msg': type(e).__name__}

    suites = [
        ('StringGrader', lambda **kw: sg.StringGrader(**kw),
         [{'expect': 'cat', 'grade_decimal': 1, 'msg': 'yes'}, {'expect': ('dog', 'wolf'), 'grade_decimal': 0.5, 'msg': 'close one'},
          {'expect': 'dog', 'grade_decimal': 0.5, 'msg': 'c'}, {'expect': 'unicorn', 'grade_decimal': 0, 'msg': 'No!'}, {'expect': 'horse', 'grade_decimal': 0},
          # the same expected answer listed again with another credit / a longer message: the better one must win in either order
          {'expect': 'dog', 'grade_decimal': 0.25, 'msg': 'a much longer message'}, {'expect': 'cat', 'grade_decimal': 1, 'msg': 'yes indeed'}],
         ['cat', 'dog', 'wolf', 'unicorn', 'horse', 'zebra']),
        ('FormulaGrader', lambda **kw: fg.FormulaGrader(variables=['x'], **kw),
         [{'expect': 'x+1', 'grade_decimal': 1}, {'expect': ('x', 'x+x-x'), 'grade_decimal': 0.5, 'msg': 'forgot 1'}, {'expect': 'x', 'grade_decimal': 0.25, 'msg': 'long long msg'},
          {'expect': '2*x', 'grade_decimal': 0, 'msg': 'doubled'}],
         ['x+1', 'x', '2*x', '3*x']),
        ('NumericalGrader', lambda **kw: fg.NumericalGrader(**kw),
         [{'expect': '3', 'grade_decimal': 1}, {'expect': '4', 'grade_decimal': 0.5, 'msg': 'off by one'}, {'expect': ('4', '2+2'), 'grade_decimal': 0.5, 'msg': 'o'},
          {'expect': '4', 'grade_decimal': 0.75, 'msg': 'x'}],
         ['3', '4', '5']),
    ]
    for name, mk, alts, inputs in suites:
        for k in (1, 2, 3):
            for sub in itertools.combinations(alts, k):
                for perm in itertools.permutations(sub):
                    for wrong in ('', 'Try again!'):
                        for inp in inputs:
                            singles = [alone(mk, a, inp) for a in perm]
                            best = max(s['grade_decimal'] for s in singles)
                            r = mk(answers=tuple(perm), wrong_msg=wrong)(None, inp)
                            key = (name, tuple(str(a['expect']) for a in perm), wrong, inp)
                            tied = [s['msg'] for s in singles if s['grade_decimal'] == best]
                            longest = max(len(m) for m in tied)
                            if best == 0 and longest == 0:
                                good = r['grade_decimal'] == 0 and r['msg'] == wrong
                            else:
                                good = abs(r['grade_decimal'] - best) < 1e-12 and len(r['msg']) == longest and r['msg'] in tied
                            if good:
                                t.ok(name + ' alternatives', key, sample={'alts': [a['expect'] for a in perm], 'input': inp, 'result': r})
                            else:
                                t.fail(name + ' alternatives', key, '%s alternatives %r input %r wrong_msg %r: got %r; graded alone: %r' % (
                                    name, [a['expect'] for a in perm], inp, wrong, r, singles))
    # as subgraders inside lists
    alts = ({'expect': 'cat', 'grade_decimal': 1}, {'expect': 'dog', 'grade_decimal': 0.5, 'msg': 'half'}, {'expect': 'eel', 'grade_decimal': 0, 'msg': 'Not eel!'})
    for perm in itertools.permutations(alts):
        for inp in ('cat', 'dog', 'eel', 'fox'):
            sub = sg.StringGrader(wrong_msg='Incorrect. Please re-read section 3 and try again.')
            r = lg.ListGrader(answers=[tuple(perm), 'b'], subgraders=sub, ordered=True)(None, [inp, 'b'])['input_list'][0]
            want = {'cat': (1, ''), 'dog': (0.5, 'half'), 'eel': (0, 'Not eel!'), 'fox': (0, 'Incorrect. Please re-read section 3 and try again.')}[inp]
            key = ('ListGrader/StringGrader', tuple(a['expect'] for a in perm), inp)
            if (r['grade_decimal'], r['msg']) == want:
                t.ok('subgrader alternatives', key)
            else:
                t.fail('subgrader alternatives', key, 'subgrader with alternatives %r on %r: got %r expected %r' % ([a['expect'] for a in perm], inp, r, want))
    slg_alts = ({'expect': ['a', 'b'], 'grade_decimal': 0.5}, {'expect': ['a', 'c'], 'grade_decimal': 0.8})
    for perm in itertools.permutations(slg_alts):
        for inp, want in (('a, c', 0.8), ('a, b', 0.5), ('a, x', 0.4)):
            r = lg.SingleListGrader(answers=tuple(perm), subgrader=sg.StringGrader())(None, inp)
            key = ('SingleListGrader', tuple(str(a['expect']) for a in perm), inp)
            if abs(r['grade_decimal'] - want) < 1e-9:
                t.ok('SingleListGrader alternatives', key)
            else:
                t.fail('SingleListGrader alternatives', key, 'SingleListGrader alternatives %r input %r: grade %r expected %r' % ([a['expect'] for a in perm], inp, r['grade_decimal'], want))
    # wrong_msg is written into the zero-grade result of THIS call only: graders whose check_response hands out a suppressed-error result
    # (MatrixGrader, suppress_matrix_messages) must not see another grader's / an earlier call's wrong_msg, whatever the listing order
    mgm = rtcheck.real_module('mitxgraders/formulagrader/matrixgrader.py')
    alts2 = [{'expect': '[1, 2]', 'grade_decimal': 1, 'msg': 'right'}, {'expect': '[2, 1]', 'grade_decimal': 0, 'msg': 'swapped'}]
    for rnd_no, wm in enumerate(['Try again!', '', 'Nope', '']):
        for perm in itertools.permutations(alts2):
            gm = mgm.MatrixGrader(answers=tuple(perm), max_array_dim=1, suppress_matrix_messages=True, wrong_msg=wm)
            for inp, want_msg in (('[1, 2, 3]', wm), ('[2, 1]', 'swapped'), ('[1, 2] + 1', wm), ('[1, 2]', 'right')):
                try:
                    r = gm(None, inp)
                    got = (r['grade_decimal'], r['msg'])
                except Exception as e:
                    got = (type(e).__name__, str(e)[:100])
                want = (1 if inp == '[1, 2]' else 0, want_msg)
                key = ('MatrixGrader suppressed', rnd_no, wm, tuple(a['expect'] for a in perm), inp)
                (t.ok if got == want else t.fail)('MatrixGrader alternatives (suppressed errors)', key, *([] if got == want else [
                    'MatrixGrader(wrong_msg=%r, suppress_matrix_messages=True) alternatives %r on %r: %r, expected %r' % (wm, [a['expect'] for a in perm], inp, got, want)]))
    return t.report(rule="random table-driven configurations (every listing order for <= 3 alternatives) + all 1-3 subsets/permutations of fixed alternative pools "
                         "for String/Formula/Numerical graders x inputs x wrong_msg; oracle = each alternative graded alone; every case is non-trivial; "
                         "distinct = distinct (suite, alternatives order, input) keys",
                    bounds={'table-driven configurations': n_cfg, 'max alternatives': 4}, exhaustive=False)


def replay(case):
    out = run('quick', 0)
    hit = [f for f in out['failures'] if f['key'] == case.get('key')]
    return {'reproduced': bool(hit), 'case': hit[:1]}
