"""
Bounded stand-in for C02 (never counted as proved): all grader classes and nestings x student strings pushed outside every domain (poles, overflow,
0/0, complex where real is required), shape-incompatible arrays, unbalanced and deeply nested brackets, unknown names, wrong arities, blank list items,
stray delimiters, non-ASCII digits/operators/whitespace, plus non-string and wrongly nested input objects.  With debug off a call returns or raises an
MITxError; anticipated problems keep their class and get <br/>; non-text input is a ConfigError; each call terminates within a time limit.
"""
import itertools
import random
import signal
from bounded._common import Tally, rtcheck, load_contracts

ASSUMPTIONS = ["termination is checked with a 5 s limit per call; SumGrader calls whose LIMIT boxes evaluate to astronomically large finite numbers are not judged (the sum has that many terms)", "bounded tier: fixed pools of hostile inputs (listed in bounded/C02.py), 5 s wall limit per call as the termination criterion"]


class _Timeout(BaseException):     # not an Exception: the library must not be able to swallow the watchdog
    pass


def _alarm(signum, frame):
    raise _Timeout()


def _call_with_expect(g, expect, inp, exc):
    signal.signal(signal.SIGALRM, _alarm)
    signal.alarm(5)
    try:
        return ('returned', g(expect, inp))
    except _Timeout:
        return ('timeout', None)
    except exc.MITxError as e:
        return ('mitx', e)
    except Exception as e:
        return ('foreign', e)
    finally:
        signal.alarm(0)


def run(tier, seed):
    load_contracts()
    rnd = random.Random(seed)
    t = Tally('C02')
    sg = rtcheck.real_module('mitxgraders/stringgrader.py')
    lg = rtcheck.real_module('mitxgraders/listgrader.py')
    fgm = rtcheck.real_module('mitxgraders/formulagrader/formulagrader.py')
    mg = rtcheck.real_module('mitxgraders/formulagrader/matrixgrader.py')
    ig = rtcheck.real_module('mitxgraders/formulagrader/intervalgrader.py')
    sumg = rtcheck.real_module('mitxgraders/formulagrader/integralgrader.py')
    exc = rtcheck.real_module('mitxgraders/exceptions.py')
    bc = rtcheck.real_module('mitxgraders/baseclasses.py')

    hostile = ['1/0', '0/0', '1/(x-x)', 'ln(0)', 'ln(-1)', 'sqrt(-1)', 'arcsin(2)', 'tan(pi/2)', '10^10^10', 'exp(1000)', 'fact(-1)', '(-8)^(1/3)',
               '((((((((1))))))))', '(' * 60 + '1' + ')' * 60, '(1', '1)', '[1,2', '1,2]', '(]', '{1}', 'x y', '2x', '++1', '1**2', '1//2', 'sin', 'sin()', 'sin(1,2)',
               'norm(1)', 'unknown(1)', 'zz', 'pi()', '[1,2]+[1,2,3]', '[[1,2],[3]]', '[1,2]*[[1,2],[3,4]]*[1,2]*[3,4]', '[1,2]/[1,2]', '[1,2]^2', '[[1,2],[3,4]]^0.5',
               '１＋２', '1−2', '1 + 2', '1+\t2', 'x\n+1', '', ' ', ',', ',,', 'a,,b', ';', 'é', '∞', '1e999', '-', '1.2.3', '1e', '.', 'i^i^i', '%', '5%%', 'x_{', "x'''", 'x_1_2']
    graders = {
        'StringGrader': lambda: sg.StringGrader(answers='cat'),
        'FormulaGrader': lambda: fgm.FormulaGrader(answers='x+1', variables=['x']),
        'NumericalGrader': lambda: fgm.NumericalGrader(answers='3'),
        'MatrixGrader': lambda: mg.MatrixGrader(answers='[1,2]', max_array_dim=2),
        'MatrixGrader(suppress)': lambda: mg.MatrixGrader(answers='[[1,2],[3,4]]', max_array_dim=2, shape_errors=False, suppress_matrix_messages=True),
        'SingleListGrader(Formula)': lambda: lg.SingleListGrader(answers=['x', '2*x'], subgrader=fgm.FormulaGrader(variables=['x'])),
        'SingleListGrader(errors)': lambda: lg.SingleListGrader(answers=['a', 'b'], subgrader=sg.StringGrader(), length_error=True, missing_error=True),
        'IntervalGrader': lambda: ig.IntervalGrader(answers='[1,2)'),
    }
    multi = {
        'ListGrader(Formula)': (lambda: lg.ListGrader(answers=['x', '2*x'], subgraders=fgm.FormulaGrader(variables=['x'])), 2),
        'ListGrader(nested)': (lambda: lg.ListGrader(answers=[['a', 'b'], 'x+1'], subgraders=[lg.ListGrader(subgraders=sg.StringGrader()), fgm.FormulaGrader(variables=['x'])],
                                                     grouping=[1, 1, 2], ordered=True), 3),
        'SumGrader': (lambda: sumg.SumGrader(answers={'lower': '1', 'upper': '4', 'summand': 'n', 'summation_variable': 'n'},
                                             input_positions={'lower': 1, 'upper': 2, 'summand': 3}), 3),
    }

    def outcome(g, inp):
        signal.signal(signal.SIGALRM, _alarm)
        signal.alarm(5)
        try:
            r = g(None, inp)
            return ('returned', r)
        except _Timeout:
            return ('timeout', None)
        except exc.MITxError as e:
            return ('mitx', e)
        except Exception as e:
            return ('foreign', e)
        finally:
            signal.alarm(0)

    def judge(name, inp, out):
        key = (name, repr(inp)[:80])
        kind, v = out
        if kind == 'timeout':
            t.fail(name, key, '%s on %r did not terminate within 5 s' % (name, inp))
        elif kind == 'foreign':
            t.fail(name, key, '%s on %r let a %s escape: %s' % (name, inp, type(v).__name__, str(v)[:200]))
        elif kind == 'mitx' and '\n' in str(v).replace('<br/>\n', ''):
            t.fail(name, key, '%s on %r: message of %s contains a raw line break: %r' % (name, inp, type(v).__name__, str(v)[:200]))
        else:
            t.ok(name, key, sample={'grader': name, 'input': inp, 'outcome': kind, 'detail': (type(v).__name__ + ': ' + str(v)[:80]) if kind == 'mitx' else str(v)[:80]})

    for name, mk in graders.items():
        for inp in hostile:
            judge(name, inp, outcome(mk(), inp))
    for name, (mk, n) in multi.items():
        pool = hostile if tier == 'thorough' else rnd.sample(hostile, 25)
        for inp in pool:
            for pos in range(n):
                lst = ['1'] * n
                lst[pos] = inp
                out = outcome(mk(), lst)
                if name == 'SumGrader' and pos < 2 and out[0] == 'timeout':
                    # a finite but astronomically large limit of summation (tan(pi/2) = 1.6e16): the sum has that many terms.  It terminates in the
                    # mathematical sense of the statement; the 5 s stand-in for "terminates" cannot tell, so the case is not judged (counted as skipped)
                    t.skipped += 1
                    continue
                judge(name, lst, out)
    # anticipated problems keep their specific class: names that are not in scope (also indexed names with braces, also when a differently-cased name exists)
    cexc = rtcheck.real_module('mitxgraders/helpers/calc/exceptions.py')
    gi = fgm.FormulaGrader(answers='T_{1} + x', variables=['T_{1}', 'x', 'a_{b}^{c}'], user_functions={'f_{1}': lambda z: z, 'G': lambda z: z})
    for inp, want in (('t_{1} + x', 'UndefinedVariable'), ('T_{2} + x', 'UndefinedVariable'), ('T_{1} + X', 'UndefinedVariable'), ('A_{b}^{c} + x', 'UndefinedVariable'),
                      ('F_{1}(x)', 'UndefinedFunction'), ('g(x)', 'UndefinedFunction'), ('x(2)', 'UndefinedFunction'), ('q + T_{1}', 'UndefinedVariable')):
        out = outcome(gi, inp)
        got = type(out[1]).__name__ if out[0] in ('mitx', 'foreign') else out[0]
        ok = got == want and '<br/>' not in str(out[1]).replace('<br/>\n', '') and inp.split('(')[0].split(' ')[0] in str(out[1])
        (t.ok if got == want else t.fail)('specific error class', inp, *([] if got == want else [
            'FormulaGrader with indexed names on %r: %s (%s), expected %s' % (inp, got, str(out[1])[:120], want)]))
    # ... and the anticipated array problems keep the MathArray error family (never the generic 'Could not check input'), or -- with
    # suppress_matrix_messages -- are graded as incorrect without any error
    mgm = rtcheck.real_module('mitxgraders/formulagrader/matrixgrader.py')
    for sup in (False, True):
        gm = mgm.MatrixGrader(answers='[[1, 2], [3, 4]]', max_array_dim=2, suppress_matrix_messages=sup)
        for inp in ('[[1, 2], [3, 4]]^i', '[[1, 2], [3, 4]]^(1+i)', '[[1, 2], [3, 4]]^(2+0*i)', '[[1, 2], [3, 4]]^0.5', '[[1, 2], [3, 4]]^[1, 2]', '[1, 2]^2', '[[1, 2, 3], [4, 5, 6]]^2',
                    '[[1, 2], [3, 4]] + 1', '[[1, 2], [3, 4]]*[1, 2, 3]', '2/[[1, 2], [3, 4]]', '[[1, 2], [2, 4]]^-1'):
            out = outcome(gm, inp)
            if sup:
                ok = out[0] == 'returned' and out[1]['ok'] is False
                want = 'an incorrect result without error'
            else:
                ok = out[0] == 'mitx' and isinstance(out[1], cexc.MathArrayError) or (inp.endswith('(2+0*i)') and out[0] == 'returned')
                want = 'an error of the MathArrayError family'
            (t.ok if ok else t.fail)('specific error class (arrays)', (sup, inp), *([] if ok else [
                'MatrixGrader(suppress_matrix_messages=%s) on %r: %s %s, expected %s' % (sup, inp, out[0], (type(out[1]).__name__ + ': ' + str(out[1])[:100]) if out[0] != 'returned' else out[1], want)]))
    # non-text and wrongly nested input objects: ConfigError, never graded
    bad_single = [5, 5.0, None, b'cat', ('c', 'a', 't'), {'a': 1}, ['cat'], [1], [['cat']], object()]
    bad_multi = ['cat', 5, None, [1, 'a'], ['a', None], ('a', 'b'), [['a'], 'b'], {'a': 'b'}]
    for name, mk in graders.items():
        for inp in bad_single:
            for expect in (None, 'cat'):
                try:
                    r = mk()(expect, inp)
                    got = 'graded %r' % (r,)
                except exc.ConfigError:
                    got = 'ConfigError'
                except Exception as e:
                    got = '%s: %s' % (type(e).__name__, str(e)[:100])
                key = (name, 'non-text', repr(inp)[:40], expect)
                (t.ok if got == 'ConfigError' else t.fail)(name + ' non-text input', key, *([] if got == 'ConfigError' else ['%s(expect=%r) on non-text input %r: %s, expected ConfigError' % (name, expect, inp, got)]))
    for name, (mk, n) in multi.items():
        for inp in bad_multi:
            try:
                r = mk()(None, inp)
                got = 'graded'
            except exc.ConfigError:
                got = 'ConfigError'
            except Exception as e:
                got = '%s: %s' % (type(e).__name__, str(e)[:100])
            key = (name, 'non-list', repr(inp)[:40])
            (t.ok if got == 'ConfigError' else t.fail)(name + ' non-list input', key, *([] if got == 'ConfigError' else ['%s on %r: %s, expected ConfigError' % (name, inp, got)]))
    # graders WITHOUT configured answers: the answer is inferred from expect before the input is validated
    for name, mk, expect in (('StringGrader()', lambda: sg.StringGrader(), 'cat'), ('FormulaGrader()', lambda: fgm.FormulaGrader(variables=['x']), 'x+1'),
                             ('NumericalGrader()', lambda: fgm.NumericalGrader(), '3'), ('SingleListGrader()', lambda: lg.SingleListGrader(subgrader=sg.StringGrader()), 'a, b')):
        for inp in bad_single:
            for dbg in (False, True):
                try:
                    g = mk()
                    g.config['debug'] = dbg
                    r = g(expect, inp)
                    got = 'graded %r' % (r,)
                except exc.ConfigError:
                    got = 'ConfigError'
                except Exception as e:
                    got = '%s: %s' % (type(e).__name__, str(e)[:100])
                key = (name, 'inferred expect, non-text', repr(inp)[:40], dbg)
                (t.ok if got == 'ConfigError' else t.fail)(name + ' non-text input with inferred answer', key,
                                                            *([] if got == 'ConfigError' else ['%s(expect=%r, debug=%s) on non-text input %r: %s, expected ConfigError' % (name, expect, dbg, inp, got)]))
        for inp in rnd.sample(hostile, 12):
            judge(name + ' inferred', inp, outcome(mk(), inp) if False else _call_with_expect(mk(), expect, inp, exc))
    # dependent samplers / sibling references: partially resolvable dependency sets must end in an error, not loop
    S = rtcheck.real_module('mitxgraders/sampling.py')
    dep_cases = [
        ('siblings with unknown name', lambda: lg.ListGrader(answers=['sibling_2*sibling_3', 'x', 'x^2'], subgraders=fgm.FormulaGrader(variables=['x']), ordered=True), ['x^3', 'x', 'y']),
        ('siblings self reference', lambda: lg.ListGrader(answers=['sibling_2*sibling_3', 'x', 'x^2'], subgraders=fgm.FormulaGrader(variables=['x']), ordered=True), ['x^3', 'x', 'sibling_1']),
        ('one resolvable + circular pair', lambda: fgm.FormulaGrader(answers='a+b+c', variables=['x', 'a', 'b', 'c'],
                                                                     sample_from={'a': S.DependentSampler(formula='x+1'), 'b': S.DependentSampler(formula='c'), 'c': S.DependentSampler(formula='b')}), 'a+b+c'),
        ('one resolvable + undefined', lambda: fgm.FormulaGrader(answers='a+b', variables=['x', 'a', 'b'],
                                                                 sample_from={'a': S.DependentSampler(formula='x+1'), 'b': S.DependentSampler(formula='zz+1')}), 'a+b'),
        ('chain of three', lambda: fgm.FormulaGrader(answers='c', variables=['x', 'a', 'b', 'c'],
                                                     sample_from={'c': S.DependentSampler(formula='b+1'), 'b': S.DependentSampler(formula='a+1'), 'a': S.DependentSampler(formula='x')}), 'x+2'),
    ]
    for name, mk, inp in dep_cases:
        signal.signal(signal.SIGALRM, _alarm)
        signal.alarm(5)
        try:
            g = mk()
            judge('dependent sampling: ' + name, inp, outcome(g, inp))
        except _Timeout:
            t.fail('dependent sampling: ' + name, (name,), 'constructing/grading %s did not terminate within 5 s' % name)
        except exc.MITxError:
            t.ok('dependent sampling: ' + name, (name,))
        except Exception as e:
            t.fail('dependent sampling: ' + name, (name,), '%s: foreign %s: %s' % (name, type(e).__name__, str(e)[:150]))
        finally:
            signal.alarm(0)
    # anticipated problems keep class and message (line breaks as <br/>); unanticipated ones become the generic StudentFacingError naming the input
    class Boom(bc.ItemGrader):
        def check_response(self, answer, student_input, **kwargs):
            if student_input == 'anticipated':
                raise exc.InvalidInput('line one\nline two')
            if student_input == 'config':
                raise exc.ConfigError('bad\nconfig')
            raise KeyError('internal')
    for inp, want_cls, want_msg in (('anticipated', 'InvalidInput', 'line one<br/>line two'), ('config', 'ConfigError', 'bad<br/>config'),
                                    ('other', 'StudentFacingError', "Invalid Input: Could not check input 'other'")):
        try:
            Boom(answers='a')(None, inp)
            got = ('returned', '')
        except Exception as e:
            got = (type(e).__name__, str(e))
        (t.ok if got == (want_cls, want_msg) else t.fail)('error translation', inp, *([] if got == (want_cls, want_msg) else ['input %r: %r expected %r' % (inp, got, (want_cls, want_msg))]))
    try:
        lg.ListGrader(answers=['a', 'b'], subgraders=Boom())(None, ['x', 'y'])
        got = ('returned', '')
    except Exception as e:
        got = (type(e).__name__, str(e))
    want = ('StudentFacingError', "Invalid Input: Could not check inputs 'x', 'y'")
    (t.ok if got == want else t.fail)('error translation', 'list', *([] if got == want else ['list inputs: %r expected %r' % (got, want)]))
    # debug on: the original exception is re-raised
    try:
        Boom(answers='a', debug=True)(None, 'other')
        got = 'returned'
    except KeyError:
        got = 'KeyError'
    except Exception as e:
        got = type(e).__name__
    (t.ok if got == 'KeyError' else t.fail)('error translation', 'debug', *([] if got == 'KeyError' else ['debug=True should re-raise the original KeyError, got %s' % got]))
    # contract of ensure_text_inputs under CPython
    F = 'mitxgraders/baseclasses.py::AbstractGrader.ensure_text_inputs'
    for inp in ['a', '', ['a', 'b'], [], [1], ['a', 2], 5, None, ('a',), {'a': 1}]:
        for al, asg in itertools.product((True, False), repeat=2):
            out = rtcheck.check_call(F, {'student_input': inp, 'allow_lists': al, 'allow_single': asg})
            t.record('AbstractGrader.ensure_text_inputs (trusted contract)', (repr(inp), al, asg), out, 'ensure_text_inputs(%r, %s, %s)' % (inp, al, asg))
    return t.report(rule="every grader in a fixed list x a pool of hostile strings (each position of multi-input graders) and non-text objects; outcome classes: returned / library error / "
                         "foreign exception / timeout; distinct = distinct (grader, input) keys", bounds={'hostile strings': len(hostile), 'graders': len(graders) + len(multi), 'time limit s': 5}, exhaustive=False)


def replay(case):
    out = run('thorough', 0)
    hit = [f for f in out['failures'] if f['key'] == case.get('key')]
    return {'reproduced': bool(hit), 'case': hit[:1]}
