"""
Bounded stand-in for C19 (never counted as proved).
1. perform_summation's contract evaluated by CPython around the real function: all limit pairs in [-12,12]^2 (ints and
   integer-valued floats), +-inf with cutoffs, even_odd in {0,1,2}, three summands -- against the index-set spec.
2. SumGrader end to end: sums equal in value are accepted (index shifts, reversed limits, renamed variable), perturbed ones are
   refused; non-integer / complex limits, a summation variable with a meaning, blank fields, instructor-only variables raise
   student-facing errors; failures in the author's own sum are ConfigErrors; percentage tolerance is relative to the author's value.
"""
import itertools
import random
from bounded._common import Tally, rtcheck, load_contracts

ASSUMPTIONS = ["bounded tier: limits in [-12,12]^2, cutoffs {5, 8.0}, summands n, n*n-3, 2**n/(1+n*n) as stated in coverage.bounded.bounds"]
F = "mitxgraders/formulagrader/integralgrader.py::"


def run(tier, seed):
    load_contracts()
    rnd = random.Random(seed)
    t = Tally('C19')
    ig = rtcheck.real_module('mitxgraders/formulagrader/integralgrader.py')
    inf = float('inf')
    summands = [lambda n: n, lambda n: n * n - 3, lambda n: (2.0 ** n) / (1 + n * n)]
    lims = list(range(-12, 13))
    pairs = list(itertools.product(lims, lims))
    if tier == 'quick':
        pairs = [p for p in pairs if rnd.random() < 0.35 or abs(p[0] - p[1]) <= 2]
    for (lo, hi) in pairs:
        for eo in (0, 1, 2):
            f = summands[(lo + hi + eo) % 3]
            for conv in (int, float):
                out = rtcheck.check_call(F + 'SumGrader.perform_summation',
                                         {'eval_summand': f, 'lower': conv(lo), 'upper': conv(hi), 'even_odd': eo, 'infty_val': 5},
                                         ufns={'SUMMAND': f})
                t.record('SumGrader.perform_summation', (lo, hi, eo, conv.__name__), out,
                         'perform_summation(lower=%r, upper=%r, even_odd=%d)' % (conv(lo), conv(hi), eo), nontrivial=lo != hi,
                         sample={'lower': lo, 'upper': hi, 'even_odd': eo, 'result': out.result})
    for (lo, hi) in [(-inf, 3), (3, -inf), (-2, inf), (inf, -2), (-inf, inf), (inf, -inf), (inf, inf), (-inf, -inf), (-inf, 4.0), (2.0, inf)]:
        for eo in (0, 1, 2):
            for cut in (5, 8.0):
                f = summands[eo]
                out = rtcheck.check_call(F + 'SumGrader.perform_summation',
                                         {'eval_summand': f, 'lower': lo, 'upper': hi, 'even_odd': eo, 'infty_val': cut},
                                         ufns={'SUMMAND': f})
                t.record('SumGrader.perform_summation', (repr(lo), repr(hi), eo, cut), out,
                         'perform_summation(lower=%r, upper=%r, even_odd=%d, infty_val=%r)' % (lo, hi, eo, cut))
    # 2. end to end
    SG = ig.SumGrader
    exc = rtcheck.real_module('mitxgraders/exceptions.py')

    def verdict(g, inp):
        try:
            return g(None, inp)['ok']
        except Exception as e:
            return type(e).__name__

    def expect(name, key, got, want):
        if got == want:
            t.ok(name, key, sample={'case': key, 'verdict': got})
        else:
            t.fail(name, key, '%s: %r gave %r, expected %r' % (name, key, got, want))

    for eo in (0, 1, 2):
        g = SG(answers={'lower': '1', 'upper': '6', 'summand': 'x*k^2', 'summation_variable': 'k'}, variables=['x'], even_odd=eo,
               input_positions={'lower': 1, 'upper': 2, 'summand': 3, 'summation_variable': 4})
        expect('SumGrader same sum', ('identity', eo), verdict(g, ['1', '6', 'x*k^2', 'k']), True)
        expect('SumGrader same sum', ('reversed limits', eo), verdict(g, ['6', '1', 'x*k^2', 'k']), True)
        expect('SumGrader same sum', ('renamed variable', eo), verdict(g, ['1', '6', 'x*m^2', 'm']), True)
        expect('SumGrader same sum', ('float limits', eo), verdict(g, ['1.0', '6.0', 'x*k^2', 'k']), True)
        if eo == 0:
            expect('SumGrader same sum', ('index shift', eo), verdict(g, ['0', '5', 'x*(k+1)^2', 'k']), True)
            expect('SumGrader same sum', ('index shift 2', eo), verdict(g, ['3', '8', 'x*(k-2)^2', 'k']), True)
        expect('SumGrader different sum', ('one more term', eo), verdict(g, ['1', '8', 'x*k^2', 'k']), False)
        expect('SumGrader different sum', ('perturbed summand', eo), verdict(g, ['1', '6', 'x*k^2+1', 'k']), False)
        expect('SumGrader errors', ('non-integer limit', eo), verdict(g, ['1.5', '6', 'x*k^2', 'k']), 'SummationError')
        expect('SumGrader errors', ('complex limit', eo), verdict(g, ['1+i', '6', 'x*k^2', 'k']), 'SummationError')
        # a non-integer limit is refused whatever the other limit is (also when it is infinite, on either side)
        for lims in (['3/2', 'infty'], ['-infty', '5/2'], ['6', '1.5'], ['infty', '0.5'], ['2.5', '-infty']):
            expect('SumGrader errors', ('non-integer limit with other limit', tuple(lims), eo), verdict(g, lims + ['x/2^k', 'k']), 'SummationError')
        expect('SumGrader errors', ('variable with a meaning', eo), verdict(g, ['1', '6', 'x*x^2', 'x']), 'SummationError')
        expect('SumGrader errors', ('blank field', eo), verdict(g, ['1', '', 'x*k^2', 'k']), 'MissingInput')
    # descending limits of different parity, with parity restriction: same integers as ascending
    for eo in (1, 2):
        for (a, b) in [(1, 6), (2, 7), (-3, 4), (0, 9)]:
            g = SG(answers={'lower': str(a), 'upper': str(b), 'summand': 'k^2+k', 'summation_variable': 'k'}, even_odd=eo,
                   input_positions={'lower': 1, 'upper': 2})
            expect('SumGrader parity with swapped limits', (a, b, eo), verdict(g, [str(b), str(a)]), True)
    # infinite limits: cutoff, geometric summand
    g = SG(answers={'lower': '0', 'upper': 'infty', 'summand': '(1/2)^n', 'summation_variable': 'n'}, infty_val=60,
           input_positions={'lower': 1, 'upper': 2, 'summand': 3})
    expect('SumGrader infinite', 'same', verdict(g, ['0', 'infty', '(1/2)^n']), True)
    expect('SumGrader infinite', 'shifted', verdict(g, ['1', 'infty', '2*(1/2)^n']), True)
    expect('SumGrader infinite', 'wrong', verdict(g, ['1', 'infty', '(1/2)^n']), False)
    expect('SumGrader infinite', '-inf..-inf', verdict(g, ['-infty', '-infty', '(1/2)^n']), 'SummationError')
    # instructor-only variables; author errors are configuration errors
    g = SG(answers={'lower': '1', 'upper': '4', 'summand': 'c*n', 'summation_variable': 'n'}, variables=['c'], instructor_vars=['c'],
           input_positions={'summand': 1})
    expect('SumGrader instructor vars', 'student uses c', verdict(g, ['c*n']), 'UndefinedVariable')
    g = SG(answers={'lower': '1.5', 'upper': '4', 'summand': 'n', 'summation_variable': 'n'}, input_positions={'summand': 1})
    expect('SumGrader author error', 'non-integer author limit', verdict(g, ['n']), 'ConfigError')
    g = SG(answers={'lower': '3/2', 'upper': 'infty', 'summand': '1/2^n', 'summation_variable': 'n'}, input_positions={'summand': 1})
    expect('SumGrader author error', 'non-integer author limit with an infinite upper limit', verdict(g, ['1/2^n']), 'ConfigError')
    # percentage tolerance is relative to the author's value
    g = SG(answers={'lower': '1', 'upper': '4', 'summand': 'n', 'summation_variable': 'n'}, tolerance='10%', input_positions={'summand': 1})
    expect('SumGrader tolerance', '11.04 vs 10 @10%', verdict(g, ['n*1.104']), False)
    expect('SumGrader tolerance', '9.04 vs 10 @10%', verdict(g, ['n*0.904']), True)
    return t.report(rule="all limit pairs in [-12,12]^2 (thinned in quick tier) x even_odd x {int, integer-valued float} through the real "
                         "perform_summation with the contract clauses evaluated by CPython (index-set spec); end-to-end SumGrader cases from "
                         "the statement; non-trivial = limits differ; distinct = distinct (contract, case) keys",
                    bounds={'limits': '[-12,12]^2', 'pairs used': len(pairs), 'even_odd': [0, 1, 2], 'cutoffs': [5, 8.0]},
                    exhaustive=(tier == 'thorough'))


def replay(case):
    out = run('thorough', 0)
    hit = [f for f in out['failures'] if f['key'] == case.get('key')]
    return {'reproduced': bool(hit), 'case': hit[:1]}
