"""
Bounded stand-in for C06 (never counted as proved) -- the statement's own bound: every r x c matrix with r, c <= 3 over {0,1,2} and every 4 x 4
matrix over {0,1}; random integer, uniform-float, tie-heavy and grade-like matrices up to 7 x 7 (thorough: 10 x 10), square and rectangular,
against an exact subset-DP oracle; sequences of solves of different shapes on one solver instance; the caller's matrix compared before/after.
"""
import itertools
import random
import copy
from bounded._common import Tally, rtcheck, load_contracts

ASSUMPTIONS = ["bounded tier: exhaustive small matrices as stated; random matrices to the stated size; float totals compared with 1e-9 tolerance"]


def optimum(m):
    """minimum total cost over matchings of size min(r, c): DP over column subsets"""
    r, c = len(m), len(m[0])
    if r > c:
        m = [list(col) for col in zip(*m)]
        r, c = c, r
    best = {0: 0.0}
    for i in range(r):
        nxt = {}
        for mask, cost in best.items():
            for j in range(c):
                if not mask & (1 << j):
                    k = mask | (1 << j)
                    v = cost + m[i][j]
                    if k not in nxt or v < nxt[k]:
                        nxt[k] = v
        best = nxt
    return min(best.values())


def solve(solver, m):
    """solver.compute(m); an exception escaping from the solver is a failed case (reported), never a harness crash"""
    try:
        return solver.compute(m)
    except Exception as e:          # noqa
        return '%s: %s' % (type(e).__name__, str(e)[:120])


def check_solution(m, pairs):
    if isinstance(pairs, str):
        return 'compute raised ' + pairs
    r, c = len(m), len(m[0])
    if len(pairs) != min(r, c):
        return 'expected %d pairs, got %d: %r' % (min(r, c), len(pairs), pairs)
    rows = [p[0] for p in pairs]
    cols = [p[1] for p in pairs]
    if len(set(rows)) != len(rows) or len(set(cols)) != len(cols):
        return 'a row or column is used twice: %r' % (pairs,)
    if any(not (0 <= i < r and 0 <= j < c) for i, j in pairs):
        return 'index out of range: %r' % (pairs,)
    total = sum(m[i][j] for i, j in pairs)
    opt = optimum(m)
    if total > opt + 1e-9 * max(1, abs(opt)):
        return 'cost %r via %r but the optimum is %r' % (total, pairs, opt)
    return None


def run(tier, seed):
    load_contracts()
    rnd = random.Random(seed)
    t = Tally('C06')
    mk = rtcheck.real_module('mitxgraders/helpers/munkres.py')
    n = 0
    # exhaustive small matrices
    for r, c in itertools.product((1, 2, 3), repeat=2):
        for vals in itertools.product((0, 1, 2), repeat=r * c):
            m = [list(vals[i * c:(i + 1) * c]) for i in range(r)]
            before = copy.deepcopy(m)
            bad = check_solution(m, solve(mk.Munkres(), m))
            if m != before:
                bad = bad or "the caller's matrix was modified"
            n += 1
            if bad:
                t.fail('Munkres.compute (exhaustive <=3x3 over {0,1,2})', repr(m), 'matrix %r: %s' % (m, bad))
    step = 1 if tier == 'thorough' else 1
    for vals in itertools.product((0, 1), repeat=16):
        m = [list(vals[i * 4:(i + 1) * 4]) for i in range(4)]
        bad = check_solution(m, solve(mk.Munkres(), m))
        n += 1
        if bad:
            t.fail('Munkres.compute (exhaustive 4x4 over {0,1})', repr(m), 'matrix %r: %s' % (m, bad))
    t.evaluations += n
    t.distinct.add(('exhaustive', n))
    t.by_contract['Munkres.compute exhaustive'] = n
    t.samples.append({'contract': 'Munkres.compute exhaustive', 'case': {'matrices': n, 'shapes': '<=3x3 over {0,1,2}; 4x4 over {0,1}'}})
    # random matrices
    palette = [0.0, 0.1, 1.0 / 3, 0.5, 0.7, 1.0]
    kinds = {
        'int': lambda: rnd.randint(0, 9),
        'float': lambda: rnd.random() * 10,
        'ties': lambda: rnd.choice([0, 1, 1, 2]),
        'grades': lambda: 1 - rnd.choice(palette),
    }
    n_rand = 4000 if tier == 'quick' else 40000
    maxdim = 7 if tier == 'quick' else 10
    for k in range(n_rand):
        kind = rnd.choice(list(kinds))
        r, c = rnd.randint(1, maxdim), rnd.randint(1, maxdim)
        m = [[kinds[kind]() for _ in range(c)] for _ in range(r)]
        before = copy.deepcopy(m)
        bad = check_solution(m, solve(mk.Munkres(), m))
        if m != before:
            bad = bad or "the caller's matrix was modified"
        if bad:
            t.fail('Munkres.compute (random %s)' % kind, repr(m), '%s matrix %r: %s' % (kind, m, bad))
        else:
            t.ok('Munkres.compute (random)', (k,), sample={'kind': kind, 'matrix': m})
    # reuse of one solver instance
    for k in range(300 if tier == 'quick' else 3000):
        solver = mk.Munkres()
        for step_no in range(rnd.randint(2, 5)):
            kind = rnd.choice(list(kinds))
            r, c = rnd.randint(1, 5), rnd.randint(1, 5)
            m = [[kinds[kind]() for _ in range(c)] for _ in range(r)]
            bad = check_solution(m, solve(solver, m))
            if bad:
                t.fail('Munkres reuse', (k, step_no, repr(m)), 'solve #%d on a reused solver, matrix %r: %s' % (step_no, m, bad))
                break
        else:
            t.ok('Munkres reuse', (k,))
    # make_cost_matrix
    pm = [[rnd.random() for _ in range(4)] for _ in range(3)]
    cm = mk.make_cost_matrix(pm, lambda x: 1 - x)
    if cm != [[1 - x for x in row] for row in pm] or cm is pm:
        t.fail('make_cost_matrix', 'basic', 'make_cost_matrix does not map entries through the inversion function on a copy')
    else:
        t.ok('make_cost_matrix', 'basic')
    return t.report(rule="exhaustive enumeration of the small matrix families of the statement + random matrices of four kinds against a subset-DP oracle (pairs count, "
                         "row/column uniqueness, total cost, caller's matrix unchanged) + random solve sequences on one instance; distinct = distinct matrices / sequences",
                    bounds={'exhaustive matrices': n, 'random matrices': n_rand, 'max random dimension': maxdim}, exhaustive=False)


def replay(case):
    out = run('quick', 0)
    hit = [f for f in out['failures'] if f['key'] == case.get('key')]
    return {'reproduced': bool(hit), 'case': hit[:1]}
