#!/bin/sh
# Build the checker interpreter offline: a 3.12 venv with z3/cvc5/crosshair/deal from the wheelhouse,
# overlaid on /venv's site-packages (numpy, pyparsing, pytest ...) so the real repo imports under it.
set -e
cd "$(dirname "$0")"
if [ ! -x .venv/bin/python ] || ! .venv/bin/python -c "import z3, cvc5" 2>/dev/null; then
  rm -rf .venv
  /venv/bin/python -m venv .venv
  .venv/bin/python -m pip install -q --no-index --find-links /opt/veriftools/wheels z3-solver cvc5 crosshair-tool deal icontract jsonschema
  echo "import site; site.addsitedir('/venv/lib/python3.12/site-packages')" > .venv/lib/python3.12/site-packages/_repo_overlay.pth
fi
PYTHONPATH=/repo .venv/bin/python -c "import z3, cvc5, mitxgraders, numpy; print('setup ok: z3', z3.get_version_string())"
