"""Shape predicates taken from the statement of C01 (and shared by C05/C07/C08/C17)."""
from pyvc.api import spec


@spec
def g2ok(g):
    # ok is True exactly when the grade is 1, False exactly when it is 0 and 'partial' otherwise
    return True if g == 1 else (False if g == 0 else 'partial')


@spec
def ok_consistent(r):
    return same(r['ok'], g2ok(r['grade_decimal']))


@spec
def entry_shape(r):
    # a result entry: a dict carrying at least ok / grade_decimal / msg with a grade in [0, 1]
    return (is_dict(r) and allocated(r) and has_keys(r, 'ok', 'grade_decimal', 'msg') and is_number(r['grade_decimal'])
            and 0 <= r['grade_decimal'] and r['grade_decimal'] <= 1 and is_str(r['msg']))


@spec
def wf_short(r):
    # exactly the structure edX consumes for a single input
    return entry_shape(r) and keys_exactly(r, 'ok', 'grade_decimal', 'msg') and ok_consistent(r)


@spec
def is_long(r):
    return 'input_list' in r


@spec
def long_shape(r):
    # overall_message + input_list of pairwise distinct entry objects, none of which is the result itself
    return (is_dict(r) and has_keys(r, 'overall_message', 'input_list') and is_str(r['overall_message'])
            and is_list(r['input_list']) and allocated(r['input_list']) and not same(r['input_list'], r)
            and forall(range(len(r['input_list'])), lambda i: entry_shape(r['input_list'][i])
                       and not same(r['input_list'][i], r) and not same(r['input_list'][i], r['input_list']))
            and forall(range(len(r['input_list'])), lambda i: forall(range(len(r['input_list'])), lambda j:
                       implies(i != j, not same(r['input_list'][i], r['input_list'][j])))))


@spec
def wf_long(r):
    return (long_shape(r) and keys_exactly(r, 'overall_message', 'input_list')
            and forall(range(len(r['input_list'])), lambda i: keys_exactly(r['input_list'][i], 'ok', 'grade_decimal', 'msg')
                       and ok_consistent(r['input_list'][i])))
