"""Contracts for mitxgraders/listgrader.py (C01, C05, C07)."""
from pyvc.api import contract, spec, lemma
from contracts import _shapes, baseclasses

F = "mitxgraders/listgrader.py::"


@spec
def unit_grades(gs):
    return is_list(gs) and allocated(gs) and forall(range(len(gs)), lambda i: is_number(gs[i]) and 0 <= gs[i] and gs[i] <= 1)


@spec
def list_credit(total, n_items, n_expect):
    # the statement's formula (C07): max(0, (total item credit - number of surplus items) / number of expected items)
    return max(0, (total - max(0, n_items - n_expect)) / n_expect)


contract(F + "consolidate_grades", props=["C07", "C01"],
    requires=["unit_grades(grade_decimals)", "is_none(n_expect) or (is_int(n_expect) and n_expect >= 1)",
              "implies(is_none(n_expect), len(grade_decimals) >= 1)"],
    ghost={'NE': "len(grade_decimals) if is_none(n_expect) else n_expect"},
    ensures=["is_number(result)",
             "result == list_credit(old(spec_sum(grade_decimals)), old(len(grade_decimals)), NE)",
             "0 <= result and result <= 1",
             # the argument list is padded in place (callers pass a fresh list): its original prefix is untouched
             "len(grade_decimals) >= old(len(grade_decimals))",
             "forall(range(old(len(grade_decimals))), lambda i: same(grade_decimals[i], old(grade_decimals[i])))"],
    modifies=["grade_decimals"], lemmas=['sum_pad'], nonlinear='abstract',
    covers=["len(grade_decimals) == 3 and n_expect == 2", "len(grade_decimals) == 1 and n_expect == 4", "is_none(n_expect)"])


@spec
def item_results(xs):
    # a list of (distinct-from-the-list) result entries with grades in [0, 1]
    return (is_list(xs) and allocated(xs)
            and forall(range(len(xs)), lambda i: is_dict(xs[i]) and allocated(xs[i]) and has_keys(xs[i], 'grade_decimal', 'msg')
                       and is_number(xs[i]['grade_decimal']) and 0 <= xs[i]['grade_decimal'] and xs[i]['grade_decimal'] <= 1
                       and is_str(xs[i]['msg'])))


contract(F + "consolidate_single_return", props=["C07", "C01"],
    requires=["item_results(input_list)", "is_none(n_expect) or (is_int(n_expect) and n_expect >= 1)",
              "implies(is_none(n_expect), len(input_list) >= 1)", "is_bool(partial_credit)"],
    ghost={'NE': "len(input_list) if is_none(n_expect) else n_expect",
           'CREDIT': "list_credit(sum_field(input_list, 'grade_decimal'), len(input_list), len(input_list) if is_none(n_expect) else n_expect)"},
    ensures=["fresh(result) and is_dict(result) and keys_exactly(result, 'grade_decimal', 'ok', 'msg')",
             "result['grade_decimal'] == (CREDIT if (partial_credit or CREDIT >= 1) else 0)",
             "0 <= result['grade_decimal'] and result['grade_decimal'] <= 1 and is_number(result['grade_decimal'])",
             "ok_consistent(result) and is_str(result['msg'])"],
    modifies=[], lemmas=['sum_ext', 'sum_pad'], nonlinear='abstract')

contract(F + "SingleListGrader.process_grade_list", props=["C07", "C01"],
    requires=["has_attr(self, 'config') and is_dict(self.config) and allocated(self.config) and has_keys(self.config, 'partial_credit', 'subgrader')",
              "is_bool(self.config['partial_credit'])", "is_object(self.config['subgrader']) and allocated(self.config['subgrader'])",
              "item_results(grade_list)", "is_int(num_answers) and num_answers >= 1", "is_str(msg)",
              "is_number(grade_decimal) and 0 <= grade_decimal and grade_decimal <= 1",
              "implies(is_instance(self.config['subgrader'], SingleListGrader), forall(range(len(grade_list)), lambda i: has_keys(grade_list[i], 'all_awarded') and is_bool(grade_list[i]['all_awarded'])))"],
    ghost={'CREDIT': "list_credit(sum_field(grade_list, 'grade_decimal'), len(grade_list), num_answers)",
           'AWARDED': "forall(range(len(grade_list)), lambda i: (grade_list[i]['all_awarded'] if is_instance(self.config['subgrader'], SingleListGrader) else grade_list[i]['grade_decimal'] > 0))"},
    nonlinear='abstract',
    ensures=["fresh(result) and is_dict(result) and keys_exactly(result, 'grade_decimal', 'ok', 'msg', 'all_awarded', 'individual')",
             # the answer's own credit times the consolidated item credit (all-or-nothing when partial_credit is off)
             "result['grade_decimal'] == (CREDIT if (self.config['partial_credit'] or CREDIT >= 1) else 0) * grade_decimal",
             "0 <= result['grade_decimal'] and result['grade_decimal'] <= 1",
             "ok_consistent(result)",
             # the answer-level message is shown only when every submitted and expected item earned credit
             "result['all_awarded'] == AWARDED",
             "implies(not AWARDED or msg == '', is_str(result['msg']))",
             "implies(AWARDED and msg != '', result['msg'].endswith(msg))",
             "same(result['individual'], grade_list)"],
    modifies=[], lemmas=['sum_ext', 'sum_pad'])


# ---------------------------------------------------------------------------------------------- ListGrader (C05, C01)
contract(F + "ListGrader.validate_submission", props=["C05", "C01"],
    requires=["has_attr(self, 'config') and is_dict(self.config) and has_keys(self.config, 'grouping')",
              "is_none(self.config['grouping']) or is_list(self.config['grouping'])",
              "is_seq(answers)", "is_list(student_list)"],
    ghost={'EXPECTED': "len(self.config['grouping']) if (is_list(self.config['grouping']) and len(self.config['grouping']) > 0) else len(answers)"},
    # one result per submitted input: a submission whose size differs from what the configuration expects is refused, never graded
    exsures={"ConfigError": "EXPECTED != len(student_list)"},
    ensures=["EXPECTED == len(student_list)", "is_none(result)"],
    modifies=[])


# ---- get_padded_lists (C05): both results have the longer length, start with the original items, and the originals are not written
contract(F + "get_padded_lists", props=["C05"],
    requires=["is_list(list1) and is_list(list2)"],
    callees={"_AutomaticFailure": dict(params=[], ensures=["is_object(result) and fresh(result)"], modifies=[], note="the padding sentinel: a new object")},
    ensures=["is_tuple(result) and len(result) == 2", "is_list(result[0]) and is_list(result[1]) and fresh(result[0]) and fresh(result[1])",
             "len(result[0]) == len(result[1])", "len(result[0]) == (len(list1) if len(list1) >= len(list2) else len(list2))",
             "forall(range(len(list1)), lambda i: same(result[0][i], list1[i]))", "forall(range(len(list2)), lambda i: same(result[1][i], list2[i]))",
             # the padding items are not items of the other list (they are automatic failures, never a student's input or an answer)
             "forall(range(len(list1), len(result[0])), lambda i: is_object(result[0][i]) and fresh(result[0][i]))",
             "forall(range(len(list2), len(result[1])), lambda i: is_object(result[1][i]) and fresh(result[1][i]))"],
    modifies=[])

