"""Contracts for the leaf validators that enforce option domains (C20): vendored voluptuous Range / Length / NotIn and
the first-order validators and cross-option rules of the library itself."""
from pyvc.api import contract, spec, lemma

V = "voluptuous/validators.py::"
H = "mitxgraders/helpers/validatorfuncs.py::"
M = "mitxgraders/helpers/math_helpers.py::"

# ---- voluptuous.Range: the validator behind Positive / NonNegative / grade_decimal etc.
# accepted exactly when min (<|<=) v (<|<=) max, bounds optional; the accepted value is returned unchanged
@spec
def range_lo_ok(self, v):
    return self.min is None or ((v >= self.min) if self.min_included else (v > self.min))


@spec
def range_hi_ok(self, v):
    return self.max is None or ((v <= self.max) if self.max_included else (v < self.max))


RANGE_SHAPE = ["is_object(self)", "has_attr(self, 'min') and has_attr(self, 'max') and has_attr(self, 'min_included') and has_attr(self, 'max_included') and has_attr(self, 'msg')",
               "self.min is None or is_number(self.min)", "self.max is None or is_number(self.max)",
               "is_bool(self.min_included) and is_bool(self.max_included)", "self.msg is None or is_str(self.msg)",
               "is_number(v) or is_str(v) or is_none(v)"]

# a value that cannot be ordered against the bounds (text, None; complex numbers are outside the value model) is rejected with the SAME validation
# error, never a TypeError (this clause failed before the fix e01c6b0)
contract(V + "Range.__call__", props=["C20"],
    requires=RANGE_SHAPE,
    ensures=["result is v", "(self.min is None and self.max is None) or (is_number(v) and range_lo_ok(self, v) and range_hi_ok(self, v))"],
    exsures={"RangeInvalid": "not (self.min is None and self.max is None) and not (is_number(v) and range_lo_ok(self, v) and range_hi_ok(self, v))"},
    modifies=[],
    covers=["self.min is None and self.max is not None", "self.min is not None and not self.min_included", "self.max is not None and not self.max_included"])

contract(V + "Length.__call__", props=["C20"],
    requires=["is_object(self)", "has_attr(self, 'min') and has_attr(self, 'max') and has_attr(self, 'msg')", "self.min is None or is_int(self.min)", "self.max is None or is_int(self.max)",
              "self.msg is None or is_str(self.msg)", "is_seq(v) or is_number(v) or is_none(v)"],
    ensures=["result is v", "(self.min is None and self.max is None) or is_seq(v)", "self.min is None or len(v) >= self.min", "self.max is None or len(v) <= self.max"],
    exsures={"LengthInvalid": "not (self.min is None and self.max is None) and (not is_seq(v) or (self.min is not None and len(v) < self.min) or (self.max is not None and len(v) > self.max))"},
    modifies=[])

CONTAINER_SHAPE = ["is_object(self)", "has_attr(self, 'container') and has_attr(self, 'msg')", "is_list(self.container) and allocated(self.container)",
                   "self.msg is None or is_str(self.msg)", "is_number(v) or is_str(v)"]

contract(V + "NotIn.__call__", props=["C20"],
    requires=CONTAINER_SHAPE,
    ensures=["result is v", "v not in self.container"],
    exsures={"NotInInvalid": "v in self.container"},
    modifies=[])

contract(V + "In.__call__", props=["C20"],
    requires=CONTAINER_SHAPE,
    ensures=["result is v", "v in self.container"],
    exsures={"InInvalid": "v not in self.container"},
    modifies=[])

# ---- whitelist / blacklist cross-option rule
contract(M + "validate_blacklist_whitelist_config", props=["C20"],
    requires=["is_dict(default_funcs)", "is_list(blacklist) and is_list(whitelist)",
              "forall(range(len(blacklist)), lambda i: is_str(blacklist[i]))",
              "forall(range(len(whitelist)), lambda i: is_str(whitelist[i]) or whitelist[i] is None)"],
    # accepted only if not both are in use and every listed name is a default function ([None] = "no default functions at all")
    ensures=["result is None", "len(blacklist) == 0 or len(whitelist) == 0",
             "forall(range(len(blacklist)), lambda i: blacklist[i] in default_funcs)",
             "(len(whitelist) == 1 and whitelist[0] is None) or forall(range(len(whitelist)), lambda i: whitelist[i] in default_funcs)"],
    exsures={"ConfigError": "(len(blacklist) > 0 and len(whitelist) > 0) or exists(range(len(blacklist)), lambda i: blacklist[i] not in default_funcs)"
                            " or (not (len(whitelist) == 1 and whitelist[0] is None) and exists(range(len(whitelist)), lambda i: whitelist[i] not in default_funcs))"},
    loops={"for func in blacklist": dict(invariant=["forall(range(K), lambda i: blacklist[i] in default_funcs)"], modifies=[]),
           "for func in whitelist": dict(invariant=["forall(range(K), lambda i: whitelist[i] in default_funcs)"], modifies=[])},
    modifies=[])

# ---- ListGrader grouping rules (cross-option): groups <-> subgraders
L = "mitxgraders/listgrader.py::"

@spec
def grouping_rules_hold(self):
    return ((self.subgrader_list or is_instance(self.config['subgraders'], ListGrader))
            and (self.config['ordered'] or forall(range(len(self.grouping)), lambda i: len(self.grouping[i]) == len(self.grouping[0])))
            and (not self.subgrader_list or (len(self.grouping) == len(self.config['subgraders'])
                 and forall(range(len(self.grouping)), lambda i: len(self.grouping[i]) <= 1 or is_instance(self.config['subgraders'][i], ListGrader)))))


contract(L + "ListGrader.validate_grouping", props=["C20"],
    requires=["is_object(self)", "has_attr(self, 'subgrader_list') and has_attr(self, 'config') and has_attr(self, 'grouping')", "is_bool(self.subgrader_list)",
              "is_dict(self.config) and allocated(self.config) and has_keys(self.config, 'subgraders', 'ordered', 'grouping')", "is_bool(self.config['ordered'])",
              "is_list(self.config['grouping']) and allocated(self.config['grouping'])",
              "is_list(self.grouping) and allocated(self.grouping) and len(self.grouping) >= 1",
              "forall(range(len(self.grouping)), lambda i: is_list(self.grouping[i]) and allocated(self.grouping[i]))",
              "is_object(self.config['subgraders']) or is_list(self.config['subgraders'])", "allocated(self.config['subgraders'])",
              "self.subgrader_list == is_list(self.config['subgraders'])",
              "implies(self.subgrader_list, forall(range(len(self.config['subgraders'])), lambda i: is_object(self.config['subgraders'][i]) and allocated(self.config['subgraders'][i])))"],
    ensures=["result is None", "grouping_rules_hold(self)"],
    exsures={"ConfigError": "not grouping_rules_hold(self)"},
    loops={"for group in self.grouping": dict(invariant=["forall(range(K), lambda i: len(self.grouping[i]) == len(self.grouping[0]))"], modifies=[]),
           "for (py_idx, group) in enumerate(self.grouping)": dict(
               invariant=["forall(range(K), lambda i: len(self.grouping[i]) <= 1 or is_instance(self.config['subgraders'][i], ListGrader))"], modifies=[])},
    modifies=[])

# ---- PercentageString: text ending in '%' whose number part is not negative; anything else is Invalid (no other exception escapes)
contract(H + "PercentageString", props=["C20"],
    requires=["is_str(value) or is_number(value) or is_none(value) or is_list(value) or is_dict(value)"],
    callees={"float": dict(params=['x'], ensures=["is_real(result) or is_inf(result) or is_nan(result)", "same(result, ufn('STRFLOAT', work))"],
                                      exsures={"ValueError": "True"}, modifies=[], pure=True,
                                      note="float(text): some number determined by the text, or ValueError (A6: text-to-number conversion is abstract)")},
    ensures=["is_str(value) and is_str(result)", "value.strip().endswith('%')", "not (ufn('STRFLOAT', value.strip()) < 0)"],
    exsures={"Invalid": "True"},
    modifies=[])

# ---- all_unique: accepted only when no two items are equal (items are text at every call site, so == is same()); only Invalid escapes.
# The converse (a duplicate-free list is never rejected) needs "every key of counts is an earlier item", whose quantifier alternation
# with "every earlier item is a key" sends z3 into a matching loop: that direction is left to the bounded tier.
contract(H + "all_unique", props=["C20"],
    requires=["is_list(iterable)", "forall(range(len(iterable)), lambda i: is_str(iterable[i]))"],     # call sites: All([str], all_unique)
    ensures=["result is iterable", "forall(range(len(iterable)), lambda i: forall(range(len(iterable)), lambda j: i == j or not same(iterable[i], iterable[j])))"],
    exsures={"Invalid": "True"},
    loops={"for item in iterable": dict(
        invariant=["is_dict(counts) and is_list(duplicates)",
                   "forall(keys(counts), lambda k: is_int(counts[k]) and counts[k] >= 0)",
                   "forall(range(K), lambda i: iterable[i] in counts and counts[iterable[i]] >= 1)",
                   "forall(keys(counts), lambda k: counts[k] < 2 or len(duplicates) > 0)",
                   "forall(range(K), lambda i: forall(range(K), lambda j: i == j or not same(iterable[i], iterable[j]) or len(duplicates) > 0))"],
        modifies=["counts", "duplicates"])},
    modifies=[])

# ---- ObjectWithSchema.__init__: which configuration source is used, and that only self.config is written
B = "mitxgraders/baseclasses.py::"
contract(B + "ObjectWithSchema.__init__", props=["C20"],
    requires=["is_object(self)", "is_dict(kwargs)", "config is None or is_dict(config) or is_list(config) or is_str(config) or is_number(config)"],
    callees={
        "self.apply_registered_defaults": dict(params=['cfg'], ensures=["fresh(result) and is_dict(result)", "same(result, ufn('WITH_DEFAULTS', self, cfg))"], modifies=[],
            note="apply_registered_defaults(cfg): a new dict computed from the registered defaults and cfg; writes nothing reachable (walks __bases__: outside the subset; bounded tier)"),
        "ObjectWithSchema.coerce2unicode": dict(params=['obj'], ensures=["same(result, ufn('COERCED', obj))"], modifies=[],
            note="coerce2unicode(obj): a copy (recursive comprehension; bounded tier: C11 checks that the author's containers are never shared or written)"),
        "self.validate_config": dict(params=['cfg'], ensures=["same(result, ufn('VALIDATED', self, cfg))"], exsures={"*": "True"}, modifies=[],
            note="validate_config(cfg): the voluptuous schema applied to cfg: a value determined by (self, cfg) or an error (A15: schema application is outside the subset)")},
    # the dictionary wins over keyword arguments when both are given; registered defaults only apply to dictionaries; the stored configuration is the VALIDATED one
    ghost={'SRC': "kwargs if config is None else config"},
    ensures=["result is None",
             "same(self.config, ufn('VALIDATED', self, ufn('COERCED', ufn('WITH_DEFAULTS', self, SRC) if is_dict(SRC) else SRC)))"],
    exsures={"*": "unchanged(self)"},       # a rejected configuration leaves no half-configured object: nothing was stored
    modifies=["self"])          # object-granular frame: neither the dictionary passed in nor kwargs is written
