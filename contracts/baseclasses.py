"""Contracts for mitxgraders/baseclasses.py (C01, C02, C08, C11, C17)."""
from pyvc.api import contract, spec, lemma
from contracts import _shapes

F = "mitxgraders/baseclasses.py::"

contract(F + "AbstractGrader.grade_decimal_to_ok", props=["C01", "C17"],
    requires=["is_number(grade)"],
    ensures=["same(result, g2ok(grade))"],
    modifies=[], note="allocates a temporary dict; nothing reachable by the caller changes")

contract(F + "AbstractGrader.log", props=["C17", "C11"],
    requires=["has_attr(self, 'debuglog')", "is_list(self.debuglog)"],
    ensures=["len(self.debuglog) == old(len(self.debuglog)) + 1", "is_none(result)"],
    modifies=["self.debuglog"])


@spec
def abc_self(self):
    # what apply_attempt_based_credit reads from the grader (class invariant valid_config, A13)
    return (has_attr(self, 'config', 'debuglog') and is_dict(self.config) and is_list(self.debuglog)
            and allocated(self.config) and allocated(self.debuglog)
            and has_keys(self.config, 'attempt_based_credit', 'attempt_based_credit_msg')
            and is_bool(self.config['attempt_based_credit_msg']))


@spec
def abc_separate(self, result):
    # the result being edited is not part of the grader's own state
    return (not same(result, self) and not same(result, self.config) and not same(result, self.debuglog)
            and implies(is_long(result),
                        not same(result['input_list'], self) and not same(result['input_list'], self.config)
                        and not same(result['input_list'], self.debuglog)
                        and forall(range(len(result['input_list'])), lambda i:
                                   not same(result['input_list'][i], self) and not same(result['input_list'][i], self.config)
                                   and not same(result['input_list'][i], self.debuglog))))


@spec
def scaled_grade(g0, c):
    return g0 * c if g0 > 0 else g0


@spec
def entry_after(e, g0, ok0, msg0, c):
    # what apply_attempt_based_credit does to one entry e whose values were (g0, ok0, msg0): positive grades are
    # multiplied by the credit c and ok is recomputed; zero grades (and everything when c == 1) stay as they were
    return (e['grade_decimal'] == (g0 if c == 1 else scaled_grade(g0, c)) and e['msg'] == msg0
            and same(e['ok'], g2ok(e['grade_decimal']) if (c != 1 and g0 > 0) else ok0))


SCHEDULE = dict(params=['n'], requires=["is_int(n)", "n >= 1"],
                ensures=["is_number(result)", "0 <= result", "result <= 1"], pure=True, fn='SCHEDULE',
                note="A15: the configured schedule returns a number in [0, 1] for attempts >= 1")

contract(F + "AbstractGrader.apply_attempt_based_credit", props=["C17", "C01"],
    requires=["abc_self(self)", "is_dict(result)", "abc_separate(self, result)",
              "implies(not is_long(result), entry_shape(result))",
              "implies(is_long(result), long_shape(result))",
              "is_none(attempt_number) or is_int(attempt_number)"],
    ghost={'n': "1 if (is_none(attempt_number) or attempt_number < 1) else attempt_number",
           'c': "round4(num(ufn('SCHEDULE', 1 if (is_none(attempt_number) or attempt_number < 1) else attempt_number)))"},
    callees={"self.config['attempt_based_credit']": SCHEDULE,
             "Decimal": dict(params=['x'], ensures=["is_number(result)"], pure=True, note="Decimal(): some number"),
             "Decimal(credit * 100).quantize": dict(params=['q'], ensures=["is_number(result)"], pure=True,
                                                    note="percentage text: abstract number")},
    exsures={"ConfigError": "is_none(attempt_number) and unchanged(result)"},
    nonlinear='abstract',
    ensures=[
        "not is_none(attempt_number)",
        "is_long(result) == old(is_long(result)) and keys(result) == old(keys(result))",
        # single form: the entry is scaled; the note is added exactly when the grade was reduced and the flag is on
        "implies(not is_long(result), entry_after(result, old(result['grade_decimal']), old(result['ok']), result['msg'], c))",
        "implies(not is_long(result), (result['msg'] != old(result['msg'])) == (c != 1 and self.config['attempt_based_credit_msg'] and old(result['grade_decimal']) > 0))",
        "implies(not is_long(result), result['msg'].startswith(old(result['msg'])) and entry_shape(result))",
        "implies(not is_long(result) and old(ok_consistent(result)), ok_consistent(result))",
        # list form: same list of the same entry objects, each entry scaled, nothing else touched
        "implies(is_long(result), same(result['input_list'], old(result['input_list'])) and len(result['input_list']) == old(len(result['input_list'])))",
        "implies(is_long(result), forall(range(len(result['input_list'])), lambda i: same(result['input_list'][i], old(result['input_list'][i])) "
        "    and entry_after(result['input_list'][i], old(result['input_list'][i]['grade_decimal']), old(result['input_list'][i]['ok']), old(result['input_list'][i]['msg']), c)"
        "    and keys(result['input_list'][i]) == old(keys(result['input_list'][i]))"
        "    and implies(old(ok_consistent(result['input_list'][i])), ok_consistent(result['input_list'][i]))))",
        "implies(is_long(result), (result['overall_message'] != old(result['overall_message'])) == (c != 1 and self.config['attempt_based_credit_msg'] and exists(range(len(result['input_list'])), lambda i: old(result['input_list'][i]['grade_decimal']) > 0)))",
        "implies(is_long(result), result['overall_message'].startswith(old(result['overall_message'])))",
        "implies(is_long(result), is_str(result['overall_message']) and forall(range(len(result['input_list'])), lambda i: entry_shape(result['input_list'][i])))",
    ],
    modifies=["result", "elems(result['input_list']) if is_long(result) else nothing", "self.debuglog"],
    loops={"for results_dict in result['input_list']": dict(
        modifies=["elems(result['input_list'])"],
        invariant=[
            "is_bool(changed_result)",
            "changed_result == exists(range(0, K), lambda i: old(result['input_list'][i]['grade_decimal']) > 0)",
            "forall(range(0, N), lambda i: is_dict(result['input_list'][i]) and keys(result['input_list'][i]) == old(keys(result['input_list'][i]))"
            "  and entry_after(result['input_list'][i], old(result['input_list'][i]['grade_decimal']), old(result['input_list'][i]['ok']), old(result['input_list'][i]['msg']), credit if i < K else 1))",
        ])},
    covers=["is_long(result) and len(result['input_list']) == 2", "not is_long(result) and result['grade_decimal'] > 0"])


# ---------------------------------------------------------------------------------------------- ItemGrader.check (C08)
@spec
def answer_shape(a):
    # a canonical answer alternative: dict with an expect *tuple* (validate_expect_tuple), grade, ok, msg
    return (is_dict(a) and allocated(a) and has_keys(a, 'expect', 'grade_decimal', 'msg', 'ok') and is_tuple(a['expect'])
            and allocated(a['expect']))


@spec
def canonical_answers(answers):
    return is_tuple(answers) and allocated(answers) and forall(range(len(answers)), lambda i: answer_shape(answers[i]))


@spec
def check_self(self):
    return (has_attr(self, 'config') and is_dict(self.config) and allocated(self.config)
            and has_keys(self.config, 'answers', 'wrong_msg') and is_str(self.config['wrong_msg']))


CHECK_RESPONSE = dict(
    params=['answercopy_arg', 'student_input_arg'],
    requires=["is_dict(answercopy_arg)", "has_keys(answercopy_arg, 'expect', 'grade_decimal', 'msg', 'ok')",
              "same(answercopy_arg['expect'], entry)",
              "same(answercopy_arg['grade_decimal'], answer['grade_decimal']) and same(answercopy_arg['msg'], answer['msg']) and same(answercopy_arg['ok'], answer['ok'])",
              "not same(answercopy_arg, answer)"],
    ensures=["fresh(result)", "entry_shape(result)",
             # determinism of check_response for this grader and this submission: grade and message are functions of the alternative and the expect value
             "result['grade_decimal'] == ufn('GRADE', answer, entry)", "result['msg'] == ufn('MSG', answer, entry)"],
    exsures={"*": "True"}, modifies=[],
    note="abstract method ItemGrader.check_response: returns a fresh well-formed entry whose grade and message are functions of (alternative, expect value) for the fixed grader and submission, or raises; writes nothing the caller can reach")

contract(F + "ItemGrader.check", props=["C08", "C01", "C11"],
    requires=["check_self(self)", "is_none(answers) or canonical_answers(answers)",
              "implies(is_none(answers), canonical_answers(self.config['answers']))"],
    ghost={'A': "self.config['answers'] if is_none(answers) else answers"},
    callees={"self.check_response": CHECK_RESPONSE},
    exsures={"ConfigError": "len(A) == 0", "*": "True"},
    ensures=[
        "len(A) > 0",
        # the returned object is a fresh, well-formed entry (one of check_response's results; the membership itself is an
        # existential the solver leaves undecided -- bounded tier) ...
        "fresh(result) and entry_shape(result)",
        # ... and no alternative x expect value earns more
        "forall(range(len(A)), lambda i: forall(range(len(A[i]['expect'])), lambda j: ufn('GRADE', A[i], A[i]['expect'][j]) <= result['grade_decimal']))",
        "forall(range(len(results)), lambda m: results[m]['grade_decimal'] <= result['grade_decimal'])",
        # a blank message with a zero grade is never returned unless wrong_msg itself is blank
        # (longest-message tie-break: existential, bounded tier)
        "implies(result['grade_decimal'] == 0 and result['msg'] == '', self.config['wrong_msg'] == '')",
    ],
    modifies=[],
    loops={
        "for answer in answers": dict(
            modifies=["results"],
            invariant=[
                "is_list(results) and fresh(results) and is_tuple(answers) and same(answers, A)",
                "len(results) == prefix_count(answers, K, 'expect')",
                "forall(range(len(results)), lambda m: fresh(results[m]) and entry_shape(results[m]) and not same(results[m], results))",
                "forall(range(0, K), lambda i: forall(range(len(answers[i]['expect'])), lambda j: "
                "   results[prefix_count(answers, i, 'expect') + j]['grade_decimal'] == ufn('GRADE', answers[i], answers[i]['expect'][j])))",
            ]),
        "for entry in answer['expect']": dict(
            modifies=["results", "answercopy"],
            invariant=[
                "is_list(results) and fresh(results) and is_dict(answercopy) and fresh(answercopy) and not same(answercopy, results)",
                "has_keys(answercopy, 'expect', 'grade_decimal', 'msg', 'ok') and same(answercopy['grade_decimal'], answer['grade_decimal']) and same(answercopy['msg'], answer['msg']) and same(answercopy['ok'], answer['ok'])",
                "len(results) == pre(len(results)) + K",
                "forall(range(len(results)), lambda m: fresh(results[m]) and entry_shape(results[m]) and not same(results[m], results) and not same(results[m], answercopy))",
                "forall(range(0, pre(len(results))), lambda m: same(results[m], pre(results[m])))",
                "forall(range(0, K), lambda j: results[pre(len(results)) + j]['grade_decimal'] == ufn('GRADE', answer, answer['expect'][j]))",
            ]),
    })


# ---------------------------------------------------------------------------------------------- standardize_cfn_return (C01)
contract(F + "ItemGrader.standardize_cfn_return", props=["C01", "C16"],
    requires=["same(value, True) or same(value, False) or is_str(value) or (is_dict(value) and allocated(value) and has_keys(value, 'grade_decimal') "
              "  and is_number(value['grade_decimal']) and 0 <= value['grade_decimal'] and value['grade_decimal'] <= 1 and implies('msg' in value, is_str(value['msg'])))",
              "implies(is_str(value), str_lower(value) == 'partial')"],
    ensures=["fresh(result) and wf_short(result)",
             "implies(same(value, True), result['grade_decimal'] == 1)", "implies(same(value, False), result['grade_decimal'] == 0)",
             "implies(is_str(value), result['grade_decimal'] == 0.5)",
             "implies(is_dict(value), result['grade_decimal'] == value['grade_decimal'] and result['msg'] == (value['msg'] if 'msg' in value else ''))"],
    modifies=[])


# ---------------------------------------------------------------------------------------------- AbstractGrader.__call__ (C01, C02, C11, C17)
# voluptuous applied to the submission (the only trusted part, A10): Schema([str])(x) returns a validated COPY of a list of texts and raises
# MultipleInvalid (carrying a `path` list) otherwise; Schema(str)(x) returns a text unchanged and raises MultipleInvalid otherwise
_SCHEMA_LIST = dict(params=['x'],
                    ensures=["is_list(x) and forall(range(len(x)), lambda i: is_str(x[i]))", "is_list(result) and fresh(result) and len(result) == len(x)",
                             "forall(range(len(x)), lambda i: same(result[i], x[i]))"],
                    exsures={"MultipleInvalid": ["not (is_list(x) and forall(range(len(x)), lambda i: is_str(x[i])))", "has_attr(exc, 'path') and is_list(exc.path) and allocated(exc.path)",
                                                 "implies(len(exc.path) > 0, is_int(exc.path[0]) and 0 <= exc.path[0] and exc.path[0] < len(x))"]},
                    modifies=[], note="A10: voluptuous Schema([str]) applied to a list")
_SCHEMA_STR = dict(params=['x'], ensures=["is_str(x)", "same(result, x)"],
                   exsures={"MultipleInvalid": ["not is_str(x)", "has_attr(exc, 'path') and is_list(exc.path) and allocated(exc.path) and len(exc.path) == 0"]},
                   modifies=[], note="A10: voluptuous Schema(str) applied to a value")

contract(F + "AbstractGrader.ensure_text_inputs", props=["C02"],
    requires=["is_bool(allow_lists) and is_bool(allow_single)"],        # student_input: ANY value
    callees={"Schema([str])": _SCHEMA_LIST, "Schema(str)": _SCHEMA_STR},
    ensures=["implies(is_str(student_input), same(result, student_input))",
             # (voluptuous returns a validated copy of a list)
             "implies(is_list(student_input), is_list(result) and len(result) == len(student_input) and forall(range(len(student_input)), lambda i: same(result[i], student_input[i])))",
             # a value is returned ONLY for a text (when single inputs are allowed) or a list of texts (when lists are allowed): everything else is refused
             "(allow_lists and is_list(student_input) and forall(range(len(student_input)), lambda i: is_str(student_input[i]))) or (allow_single and is_str(student_input))"],
    exsures={"ConfigError": "not ((allow_lists and is_list(student_input) and forall(range(len(student_input)), lambda i: is_str(student_input[i]))) or (allow_single and is_str(student_input)))",
             "ValueError": "not allow_lists and not allow_single"},
    modifies=[],
    note="non-text / wrongly nested input is refused with ConfigError, never graded; only the voluptuous calls are assumed (A10)")

contract(F + "ItemGrader.ensure_text_inputs", props=["C02"],
    ensures=["same(result, student_input)", "is_str(student_input)"], exsures={"ConfigError": "not is_str(student_input)"}, modifies=[],
    note="delegates to AbstractGrader.ensure_text_inputs(allow_lists=False): checked against that function's contract (modular)")

contract(F + "AbstractGrader.create_debuglog", props=["C11", "C01"],
    requires=["is_object(self)", "has_attr(self, 'log_created') and is_bool(self.log_created)", "has_attr(self, 'modified_defaults')",
              "self.modified_defaults is None or (is_dict(self.modified_defaults) and allocated(self.modified_defaults))",
              "implies(self.log_created, has_attr(self, 'debuglog') and is_list(self.debuglog) and allocated(self.debuglog))",
              ],
    consts={"__version__": "str"},
    callees={"'\\n'.join": dict(params=['xs'], ensures=["is_str(result)"], modifies=[], pure=True, note="A6: newline-joined text of the inputs"),
             "map": dict(params=['f', 'xs'], ensures=["True"], modifies=[], pure=True, note="map(str, inputs): lazily converted inputs (consumed by join only)"),
             "str": dict(params=['x'], ensures=["is_str(result)"], modifies=[], pure=True, note="A6: str(x) is some text")},
    ensures=["has_attr(self, 'debuglog', 'log_created')", "is_list(self.debuglog) and allocated(self.debuglog)", "same(self.log_created, True)",
             "implies(has_attr(old(self), 'config'), same(self.config, old(self.config)))",
             # a log that already exists is left alone; a new one starts with the version banner
             "implies(old(self.log_created), same(self.debuglog, old(self.debuglog)))", "implies(not old(self.log_created), fresh(self.debuglog) and len(self.debuglog) >= 3)"],
    modifies=["self", "self.debuglog if old(self.log_created) else nothing"],
    note="builds the debug log header; platform / json formatting are abstract text (A6)")

contract(F + "AbstractGrader.log_output", props=["C01"],
    requires=["is_object(self)", "has_attr(self, 'debuglog') and is_list(self.debuglog)"],
    callees={"'\\n'.join": dict(params=['xs'], ensures=["is_str(result)"], modifies=[], pure=True, note="A6: newline-joined text")},
    ensures=["is_str(result)"], modifies=[],
    note="'<pre>' + newline-joined debug log + '</pre>': string formatting (A6)")


@spec
def fm_shape(result):
    # what format_messages needs: a result dict whose message fields (when present) are strings
    return (is_dict(result) and allocated(result)
            and implies(is_long(result), is_list(result['input_list']) and allocated(result['input_list']) and not same(result['input_list'], result)
                        and implies('overall_message' in result, is_str(result['overall_message']))
                        and forall(range(len(result['input_list'])), lambda i: is_dict(result['input_list'][i]) and allocated(result['input_list'][i])
                                   and not same(result['input_list'][i], result) and not same(result['input_list'][i], result['input_list'])
                                   and implies('msg' in result['input_list'][i], is_str(result['input_list'][i]['msg'])))
                        and forall(range(len(result['input_list'])), lambda i: forall(range(len(result['input_list'])), lambda j:
                                   implies(i != j, not same(result['input_list'][i], result['input_list'][j])))))
            and implies(not is_long(result), implies('msg' in result, is_str(result['msg']))))


contract(F + "AbstractGrader.format_messages", props=["C01", "C02"],
    requires=["fm_shape(result)"],
    ensures=[
        "is_long(result) == old(is_long(result))",
        # single form: only msg is (re)written, it is a string; every other key is untouched
        "implies(not is_long(result), is_str(result['msg']) and has_keys(result, 'msg') and forall(vals(), lambda k: implies(k != 'msg', (k in result) == old(k in result))))",
        "implies(not is_long(result) and old('grade_decimal' in result), same(result['grade_decimal'], old(result['grade_decimal'])))",
        "implies(not is_long(result) and old('ok' in result), same(result['ok'], old(result['ok'])))",
        # list form: overall_message and every entry's msg become strings; grades, ok and the entry objects are untouched
        "implies(is_long(result), is_str(result['overall_message']) and same(result['input_list'], old(result['input_list'])) and len(result['input_list']) == old(len(result['input_list'])))",
        "implies(is_long(result), forall(range(len(result['input_list'])), lambda i: same(result['input_list'][i], old(result['input_list'][i])) and is_str(result['input_list'][i]['msg'])"
        "   and forall(vals(), lambda k: implies(k != 'msg', (k in result['input_list'][i]) == old(k in result['input_list'][i])))"
        "   and implies(old('grade_decimal' in result['input_list'][i]), same(result['input_list'][i]['grade_decimal'], old(result['input_list'][i]['grade_decimal'])))"
        "   and implies(old('ok' in result['input_list'][i]), same(result['input_list'][i]['ok'], old(result['input_list'][i]['ok'])))))",
    ],
    modifies=["result", "elems(result['input_list']) if is_long(result) else nothing"],
    loops={"for subresult in result['input_list']": dict(
        modifies=["elems(result['input_list'])"],
        invariant=[
            "is_dict(result) and is_list(result['input_list']) and same(result['input_list'], old(result['input_list'])) and len(result['input_list']) == old(len(result['input_list']))",
            "is_str(result['overall_message']) and forall(vals(), lambda k: implies(k != 'overall_message', (k in result) == old(k in result)))",
            "forall(range(len(result['input_list'])), lambda i: same(result['input_list'][i], old(result['input_list'][i])) and is_dict(result['input_list'][i])"
            "   and forall(vals(), lambda k: implies(k != 'msg', (k in result['input_list'][i]) == old(k in result['input_list'][i])))"
            "   and implies(old('grade_decimal' in result['input_list'][i]), same(result['input_list'][i]['grade_decimal'], old(result['input_list'][i]['grade_decimal'])))"
            "   and implies(old('ok' in result['input_list'][i]), same(result['input_list'][i]['ok'], old(result['input_list'][i]['ok'])))"
            "   and implies(i >= K, ('msg' in result['input_list'][i]) == old('msg' in result['input_list'][i]) and implies('msg' in result['input_list'][i], is_str(result['input_list'][i]['msg']) ))"
            "   and implies(i < K, is_str(result['input_list'][i]['msg'])))"])})


@spec
def call_self(self):
    return (has_attr(self, 'config') and is_dict(self.config) and allocated(self.config)
            and has_keys(self.config, 'debug', 'attempt_based_credit', 'attempt_based_credit_msg')
            and is_bool(self.config['debug']) and is_bool(self.config['attempt_based_credit_msg'])
            and (is_none(self.config['attempt_based_credit']) or is_callable(self.config['attempt_based_credit']))
            and not same(self.config, self))


@spec
def checked_result(r):
    # what a grader's check() hands back (A15 / the contracts of the concrete check methods): a fresh short entry, or a fresh long result whose
    # input_list is a fresh list of pairwise distinct fresh entries; entries may carry extra bookkeeping keys
    return (fresh(r) and is_dict(r)
            and implies(not is_long(r), entry_shape(r) and ok_consistent(r))
            and implies(is_long(r), has_keys(r, 'overall_message', 'input_list') and is_str(r['overall_message']) and is_list(r['input_list']) and fresh(r['input_list'])
                        and not same(r['input_list'], r)
                        and forall(range(len(r['input_list'])), lambda i: fresh(r['input_list'][i]) and entry_shape(r['input_list'][i]) and ok_consistent(r['input_list'][i])
                                   and not same(r['input_list'][i], r) and not same(r['input_list'][i], r['input_list']))
                        and forall(range(len(r['input_list'])), lambda i: forall(range(len(r['input_list'])), lambda j:
                                   implies(i != j, not same(r['input_list'][i], r['input_list'][j]))))))


@spec
def stripping(result, K):
    # key-stripping loop of __call__: the first K entries have been replaced by fresh dicts holding exactly ok / grade_decimal / msg
    return (is_dict(result) and fresh(result) and keys_exactly(result, 'overall_message', 'input_list') and is_str(result['overall_message'])
            and is_list(result['input_list']) and fresh(result['input_list']) and not same(result['input_list'], result)
            and forall(range(len(result['input_list'])), lambda i: fresh(result['input_list'][i]) and entry_shape(result['input_list'][i]) and ok_consistent(result['input_list'][i])
                       and not same(result['input_list'][i], result) and not same(result['input_list'][i], result['input_list'])
                       and implies(i < K, keys_exactly(result['input_list'][i], 'ok', 'grade_decimal', 'msg')))
            and forall(range(len(result['input_list'])), lambda i: forall(range(len(result['input_list'])), lambda j:
                       implies(i != j, not same(result['input_list'][i], result['input_list'][j])))))


SELF_CHECK = dict(params=['answers_arg', 'input_arg'],
                  ensures=["checked_result(result)", "implies(is_long(result), keys_exactly(result, 'overall_message', 'input_list'))"],
                  exsures={"*": "True"}, modifies=["self.debuglog"],
                  note="A15: the abstract check() returns a fresh well-formed result (short, or long with exactly overall_message/input_list) or raises ANYTHING; "
                       "it may write the debug log only")

contract(F + "AbstractGrader.__call__", props=["C01", "C02", "C11", "C17"],
    skip="symbolic execution completes (10 paths, 49 VCs) but 6 obligations time out in z3 (100 s each) and the run takes 16 min; "
         "the behaviour of __call__ is decided by the bounded tiers of C01/C02/C11/C17",
    requires=["call_self(self)", "is_dict(kwargs)", "not same(student_input, self) and not same(student_input, self.config)",
              "implies('attempt' in kwargs, is_none(kwargs['attempt']) or is_int(kwargs['attempt']))",
              # (preconditions of create_debuglog, which is now proved instead of trusted)
              "has_attr(self, 'modified_defaults') and (self.modified_defaults is None or (is_dict(self.modified_defaults) and allocated(self.modified_defaults)))",
              "implies(self.log_created, has_attr(self, 'debuglog') and is_list(self.debuglog) and allocated(self.debuglog))"],
    callees={"self.check": SELF_CHECK},
    exsures={
        # with debug off only library errors escape (C02); an unanticipated failure becomes the generic StudentFacingError
        "*": "implies(not old(self.config['debug']), subclass_of(exc, MITxError))"},
    ensures=[
        "fresh(result) and is_dict(result)",
        # exactly the structure edX consumes (C01)
        "implies(not is_long(result), keys_exactly(result, 'ok', 'grade_decimal', 'msg') and entry_shape(result))",
        "implies(is_long(result), keys_exactly(result, 'overall_message', 'input_list') and is_str(result['overall_message']) and is_list(result['input_list']))",
        "implies(is_long(result), forall(range(len(result['input_list'])), lambda i: keys_exactly(result['input_list'][i], 'ok', 'grade_decimal', 'msg') and entry_shape(result['input_list'][i])))",
        # ok agrees with the grade unless attempt-based credit left a zero-grade entry's pinned ok (C01 / C17)
        "implies(not is_long(result), ok_consistent(result))",
        "implies(is_long(result), forall(range(len(result['input_list'])), lambda i: ok_consistent(result['input_list'][i])))",
        # the log_created flag is cleared for the next call (C11)
        "same(self.log_created, False)",
    ],
    modifies=["self", "self.debuglog"],
    loops={"for (idx, entry) in enumerate(result['input_list'])": dict(
        modifies=["result['input_list']"],
        invariant=[
            "stripping(result, K)", "len(result['input_list']) == pre(len(result['input_list']))",
            "has_attr(self, 'config', 'debuglog', 'log_created') and same(self.config, old(self.config)) and same(self.log_created, False) and is_list(self.debuglog) and allocated(self.debuglog)",
        ])},
    nonlinear='abstract')


# ---------------------------------------------------------------------------------------------- ItemGrader.__call__ : the answer-inference state machine (C11)
contract(F + "ItemGrader.infer_from_expect", props=["C11"],
    ensures=["same(result, expect)"], modifies=[], pure=True,
    note="declared contract of the overridable method: returns the answer derived from expect (here: expect itself); overrides may raise and must not write grader state")

INFER = dict(params=['expect_arg'], ensures=["same(result, ufn('INFERRED', self, expect_arg))"], exsures={"*": "True"}, modifies=[],
             note="infer_from_expect (possibly overridden): a deterministic function of (grader, expect), may raise, writes nothing")
SCHEMA_ANSWERS = dict(params=['inferred_arg'], ensures=["True"], exsures={"*": "True"}, modifies=[],
                      note="A10: schema_answers validates into a fresh canonical tuple or raises; it does not write grader state")
POST_SCHEMA = dict(params=['answers_arg'], ensures=["same(result, ufn('CANON', self, answers_arg))"], exsures={"*": "True"}, modifies=[],
                   note="post_schema_ans_val (possibly overridden): returns the validated answers or raises; it does not write grader state (config['answers'] in particular)")
SUPER_CALL = dict(params=['expect_arg', 'input_arg'],
                  ensures=["has_attr(self, 'config', 'inferring_answers', 'log_created')", "same(self.log_created, False)", "same(self.config, old(self.config))", "same(self.config['answers'], old(self.config['answers']))",
                           "same(self.inferring_answers, old(self.inferring_answers))"],
                  exsures={"*": ["has_attr(self, 'config', 'inferring_answers', 'log_created')",
                                 # a text input passes ensure_text_inputs, after which the flag is cleared before anything else can raise;
                                 # a non-text input is rejected at once, leaving the flag as it was
                                 "same(self.log_created, False) if is_str(input_arg) else same(self.log_created, old(self.log_created))", "same(self.config, old(self.config))",
                                 "same(self.config['answers'], old(self.config['answers']))", "same(self.inferring_answers, old(self.inferring_answers))"]},
                  modifies=["self", "self.debuglog if has_attr(self, 'debuglog') else nothing"],
                  note="AbstractGrader.__call__ (contract drafted above): clears log_created, never touches config['answers'] / inferring_answers, may raise")
CREATE_LOG = dict(params=['input_arg'], ensures=["has_attr(self, 'debuglog', 'log_created', 'config', 'inferring_answers')", "is_list(self.debuglog) and allocated(self.debuglog)", "same(self.log_created, True)",
                                                 "implies(not old(self.log_created), fresh(self.debuglog))",
                                                 "same(self.config, old(self.config))", "same(self.config['answers'], old(self.config['answers']))",
                                                 "same(self.inferring_answers, old(self.inferring_answers))"],
                  modifies=["self"], note="create_debuglog: (re)creates the log and sets log_created; trusted (formatting)")
LOG = dict(params=['m'], requires=["has_attr(self, 'debuglog')"], ensures=["same(self.log_created, old(self.log_created))"], modifies=["self.debuglog"], note="AbstractGrader.log appends to the debug log")
JSON = dict(params=['x'], ensures=["is_str(result)"], exsures={"*": "True"}, pure=False, modifies=[], note="json.dumps: some text, may raise on exotic values")


@spec
def ig_self(self):
    return (has_attr(self, 'config', 'inferring_answers', 'log_created') and is_dict(self.config) and allocated(self.config) and not same(self.config, self)
            and has_keys(self.config, 'answers') and is_bool(self.inferring_answers) and same(self.log_created, False))


contract(F + "ItemGrader.__call__", props=["C11"],
    requires=["ig_self(self)", "is_dict(kwargs)"],
    ghost={'INFERS': "not is_none(expect) and (self.inferring_answers or not self.config['answers'])",
           'NEW': "ufn('CANON', self, ufn('SCHEMA', self, ufn('INFERRED', self, expect)))"},
    callees={"self.infer_from_expect": INFER, "self.schema_answers": dict(SCHEMA_ANSWERS, ensures=["same(result, ufn('SCHEMA', self, inferred_arg))"]),
             "self.post_schema_ans_val": POST_SCHEMA, "self.create_debuglog": CREATE_LOG, "self.log": LOG, "json.dumps": JSON,
             "super(ItemGrader, self).__call__": SUPER_CALL},
    # a call that raises leaves either the old state (inference or validation failed: all-or-nothing) or the state of a successful inference
    exsures={"*": ["same(self.log_created, False)",
                   "(same(self.config['answers'], old(self.config['answers'])) and same(self.inferring_answers, old(self.inferring_answers))) "
                   "  or (INFERS and same(self.config['answers'], NEW) and same(self.inferring_answers, True))"]},
    ensures=["same(self.log_created, False)",
             # answers are inferred exactly when expect is given and the grader has no configured answers (or is already inferring) ...
             "implies(INFERS, same(self.inferring_answers, True))",
             "implies(INFERS, same(self.config['answers'], NEW))",
             # ... otherwise expect is ignored and nothing about the answers changes
             "implies(not INFERS, same(self.config['answers'], old(self.config['answers'])) and same(self.inferring_answers, old(self.inferring_answers)))",
             "same(self.config, old(self.config))"],
    modifies=["self", "self.config", "self.debuglog if has_attr(self, 'debuglog') else nothing"])
