"""Contracts for mitxgraders/baseclasses.py (C01, C02, C08, C11, C17)."""
from pyvc.api import contract, spec, lemma
from contracts import _shapes

F = "mitxgraders/baseclasses.py::"

contract(F + "AbstractGrader.grade_decimal_to_ok", props=["C01", "C17"],
    requires=["is_number(grade)"],
    ensures=["same(result, g2ok(grade))"],
    modifies=[], note="allocates a temporary dict; nothing reachable by the caller changes")

contract(F + "AbstractGrader.log", props=["C17", "C11"],
    requires=["has_attr(self, 'debuglog')", "is_list(self.debuglog)"],
    ensures=["len(self.debuglog) == old(len(self.debuglog)) + 1", "is_none(result)"],
    modifies=["self.debuglog"])


@spec
def abc_self(self):
    # what apply_attempt_based_credit reads from the grader (class invariant valid_config, A13)
    return (has_attr(self, 'config', 'debuglog') and is_dict(self.config) and is_list(self.debuglog)
            and allocated(self.config) and allocated(self.debuglog)
            and has_keys(self.config, 'attempt_based_credit', 'attempt_based_credit_msg')
            and is_bool(self.config['attempt_based_credit_msg']))


@spec
def abc_separate(self, result):
    # the result being edited is not part of the grader's own state
    return (not same(result, self) and not same(result, self.config) and not same(result, self.debuglog)
            and implies(is_long(result),
                        not same(result['input_list'], self) and not same(result['input_list'], self.config)
                        and not same(result['input_list'], self.debuglog)
                        and forall(range(len(result['input_list'])), lambda i:
                                   not same(result['input_list'][i], self) and not same(result['input_list'][i], self.config)
                                   and not same(result['input_list'][i], self.debuglog))))


@spec
def scaled_grade(g0, c):
    return g0 * c if g0 > 0 else g0


@spec
def entry_after(e, g0, ok0, msg0, c):
    # what apply_attempt_based_credit does to one entry e whose values were (g0, ok0, msg0): positive grades are
    # multiplied by the credit c and ok is recomputed; zero grades (and everything when c == 1) stay as they were
    return (e['grade_decimal'] == (g0 if c == 1 else scaled_grade(g0, c)) and e['msg'] == msg0
            and same(e['ok'], g2ok(e['grade_decimal']) if (c != 1 and g0 > 0) else ok0))


SCHEDULE = dict(params=['n'], requires=["is_int(n)", "n >= 1"],
                ensures=["is_number(result)", "0 <= result", "result <= 1"], pure=True, fn='SCHEDULE',
                note="A15: the configured schedule returns a number in [0, 1] for attempts >= 1")

contract(F + "AbstractGrader.apply_attempt_based_credit", props=["C17", "C01"],
    requires=["abc_self(self)", "is_dict(result)", "abc_separate(self, result)",
              "implies(not is_long(result), entry_shape(result))",
              "implies(is_long(result), long_shape(result))",
              "is_none(attempt_number) or is_int(attempt_number)"],
    ghost={'n': "1 if (is_none(attempt_number) or attempt_number < 1) else attempt_number",
           'c': "round4(num(ufn('SCHEDULE', 1 if (is_none(attempt_number) or attempt_number < 1) else attempt_number)))"},
    callees={"self.config['attempt_based_credit']": SCHEDULE,
             "Decimal": dict(params=['x'], ensures=["is_number(result)"], pure=True, note="Decimal(): some number"),
             "Decimal(credit * 100).quantize": dict(params=['q'], ensures=["is_number(result)"], pure=True,
                                                    note="percentage text: abstract number")},
    exsures={"ConfigError": "is_none(attempt_number) and unchanged(result)"},
    nonlinear='abstract',
    ensures=[
        "not is_none(attempt_number)",
        "is_long(result) == old(is_long(result)) and keys(result) == old(keys(result))",
        # single form: the entry is scaled; the note is added exactly when the grade was reduced and the flag is on
        "implies(not is_long(result), entry_after(result, old(result['grade_decimal']), old(result['ok']), result['msg'], c))",
        "implies(not is_long(result), (result['msg'] != old(result['msg'])) == (c != 1 and self.config['attempt_based_credit_msg'] and old(result['grade_decimal']) > 0))",
        "implies(not is_long(result), result['msg'].startswith(old(result['msg'])) and entry_shape(result))",
        "implies(not is_long(result) and old(ok_consistent(result)), ok_consistent(result))",
        # list form: same list of the same entry objects, each entry scaled, nothing else touched
        "implies(is_long(result), same(result['input_list'], old(result['input_list'])) and len(result['input_list']) == old(len(result['input_list'])))",
        "implies(is_long(result), forall(range(len(result['input_list'])), lambda i: same(result['input_list'][i], old(result['input_list'][i])) "
        "    and entry_after(result['input_list'][i], old(result['input_list'][i]['grade_decimal']), old(result['input_list'][i]['ok']), old(result['input_list'][i]['msg']), c)"
        "    and keys(result['input_list'][i]) == old(keys(result['input_list'][i]))"
        "    and implies(old(ok_consistent(result['input_list'][i])), ok_consistent(result['input_list'][i]))))",
        "implies(is_long(result), (result['overall_message'] != old(result['overall_message'])) == (c != 1 and self.config['attempt_based_credit_msg'] and exists(range(len(result['input_list'])), lambda i: old(result['input_list'][i]['grade_decimal']) > 0)))",
        "implies(is_long(result), result['overall_message'].startswith(old(result['overall_message'])))",
        "implies(is_long(result), is_str(result['overall_message']) and forall(range(len(result['input_list'])), lambda i: entry_shape(result['input_list'][i])))",
    ],
    modifies=["result", "elems(result['input_list'])", "self.debuglog"],
    loops={"for results_dict in result['input_list']": dict(
        modifies=["elems(result['input_list'])"],
        invariant=[
            "is_bool(changed_result)",
            "changed_result == exists(range(0, K), lambda i: old(result['input_list'][i]['grade_decimal']) > 0)",
            "forall(range(0, N), lambda i: is_dict(result['input_list'][i]) and keys(result['input_list'][i]) == old(keys(result['input_list'][i]))"
            "  and entry_after(result['input_list'][i], old(result['input_list'][i]['grade_decimal']), old(result['input_list'][i]['ok']), old(result['input_list'][i]['msg']), credit if i < K else 1))",
        ])},
    covers=["is_long(result) and len(result['input_list']) == 2", "not is_long(result) and result['grade_decimal'] > 0"])
