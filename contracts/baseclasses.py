"""Contracts for mitxgraders/baseclasses.py (C01, C02, C08, C11, C17)."""
from pyvc.api import contract, spec, lemma
from contracts import _shapes

F = "mitxgraders/baseclasses.py::"

contract(F + "AbstractGrader.grade_decimal_to_ok", props=["C01", "C17"],
    requires=["is_number(grade)"],
    ensures=["same(result, g2ok(grade))"],
    modifies=[], note="allocates a temporary dict; nothing reachable by the caller changes")

contract(F + "AbstractGrader.log", props=["C17", "C11"],
    requires=["has_attr(self, 'debuglog')", "is_list(self.debuglog)"],
    ensures=["len(self.debuglog) == old(len(self.debuglog)) + 1", "is_none(result)"],
    modifies=["self.debuglog"])


@spec
def abc_self(self):
    # what apply_attempt_based_credit reads from the grader (class invariant valid_config, A13)
    return (has_attr(self, 'config', 'debuglog') and is_dict(self.config) and is_list(self.debuglog)
            and allocated(self.config) and allocated(self.debuglog)
            and has_keys(self.config, 'attempt_based_credit', 'attempt_based_credit_msg')
            and is_bool(self.config['attempt_based_credit_msg']))


@spec
def abc_separate(self, result):
    # the result being edited is not part of the grader's own state
    return (not same(result, self) and not same(result, self.config) and not same(result, self.debuglog)
            and implies(is_long(result),
                        not same(result['input_list'], self) and not same(result['input_list'], self.config)
                        and not same(result['input_list'], self.debuglog)
                        and forall(range(len(result['input_list'])), lambda i:
                                   not same(result['input_list'][i], self) and not same(result['input_list'][i], self.config)
                                   and not same(result['input_list'][i], self.debuglog))))


@spec
def scaled_grade(g0, c):
    return g0 * c if g0 > 0 else g0


@spec
def entry_after(e, g0, ok0, msg0, c):
    # what apply_attempt_based_credit does to one entry e whose values were (g0, ok0, msg0): positive grades are
    # multiplied by the credit c and ok is recomputed; zero grades (and everything when c == 1) stay as they were
    return (e['grade_decimal'] == (g0 if c == 1 else scaled_grade(g0, c)) and e['msg'] == msg0
            and same(e['ok'], g2ok(e['grade_decimal']) if (c != 1 and g0 > 0) else ok0))


SCHEDULE = dict(params=['n'], requires=["is_int(n)", "n >= 1"],
                ensures=["is_number(result)", "0 <= result", "result <= 1"], pure=True, fn='SCHEDULE',
                note="A15: the configured schedule returns a number in [0, 1] for attempts >= 1")

contract(F + "AbstractGrader.apply_attempt_based_credit", props=["C17", "C01"],
    requires=["abc_self(self)", "is_dict(result)", "abc_separate(self, result)",
              "implies(not is_long(result), entry_shape(result))",
              "implies(is_long(result), long_shape(result))",
              "is_none(attempt_number) or is_int(attempt_number)"],
    ghost={'n': "1 if (is_none(attempt_number) or attempt_number < 1) else attempt_number",
           'c': "round4(num(ufn('SCHEDULE', 1 if (is_none(attempt_number) or attempt_number < 1) else attempt_number)))"},
    callees={"self.config['attempt_based_credit']": SCHEDULE,
             "Decimal": dict(params=['x'], ensures=["is_number(result)"], pure=True, note="Decimal(): some number"),
             "Decimal(credit * 100).quantize": dict(params=['q'], ensures=["is_number(result)"], pure=True,
                                                    note="percentage text: abstract number")},
    exsures={"ConfigError": "is_none(attempt_number) and unchanged(result)"},
    nonlinear='abstract',
    ensures=[
        "not is_none(attempt_number)",
        "is_long(result) == old(is_long(result)) and keys(result) == old(keys(result))",
        # single form: the entry is scaled; the note is added exactly when the grade was reduced and the flag is on
        "implies(not is_long(result), entry_after(result, old(result['grade_decimal']), old(result['ok']), result['msg'], c))",
        "implies(not is_long(result), (result['msg'] != old(result['msg'])) == (c != 1 and self.config['attempt_based_credit_msg'] and old(result['grade_decimal']) > 0))",
        "implies(not is_long(result), result['msg'].startswith(old(result['msg'])) and entry_shape(result))",
        "implies(not is_long(result) and old(ok_consistent(result)), ok_consistent(result))",
        # list form: same list of the same entry objects, each entry scaled, nothing else touched
        "implies(is_long(result), same(result['input_list'], old(result['input_list'])) and len(result['input_list']) == old(len(result['input_list'])))",
        "implies(is_long(result), forall(range(len(result['input_list'])), lambda i: same(result['input_list'][i], old(result['input_list'][i])) "
        "    and entry_after(result['input_list'][i], old(result['input_list'][i]['grade_decimal']), old(result['input_list'][i]['ok']), old(result['input_list'][i]['msg']), c)"
        "    and keys(result['input_list'][i]) == old(keys(result['input_list'][i]))"
        "    and implies(old(ok_consistent(result['input_list'][i])), ok_consistent(result['input_list'][i]))))",
        "implies(is_long(result), (result['overall_message'] != old(result['overall_message'])) == (c != 1 and self.config['attempt_based_credit_msg'] and exists(range(len(result['input_list'])), lambda i: old(result['input_list'][i]['grade_decimal']) > 0)))",
        "implies(is_long(result), result['overall_message'].startswith(old(result['overall_message'])))",
        "implies(is_long(result), is_str(result['overall_message']) and forall(range(len(result['input_list'])), lambda i: entry_shape(result['input_list'][i])))",
    ],
    modifies=["result", "elems(result['input_list'])", "self.debuglog"],
    loops={"for results_dict in result['input_list']": dict(
        modifies=["elems(result['input_list'])"],
        invariant=[
            "is_bool(changed_result)",
            "changed_result == exists(range(0, K), lambda i: old(result['input_list'][i]['grade_decimal']) > 0)",
            "forall(range(0, N), lambda i: is_dict(result['input_list'][i]) and keys(result['input_list'][i]) == old(keys(result['input_list'][i]))"
            "  and entry_after(result['input_list'][i], old(result['input_list'][i]['grade_decimal']), old(result['input_list'][i]['ok']), old(result['input_list'][i]['msg']), credit if i < K else 1))",
        ])},
    covers=["is_long(result) and len(result['input_list']) == 2", "not is_long(result) and result['grade_decimal'] > 0"])


# ---------------------------------------------------------------------------------------------- ItemGrader.check (C08)
@spec
def answer_shape(a):
    # a canonical answer alternative: dict with an expect *tuple* (validate_expect_tuple), grade, ok, msg
    return (is_dict(a) and allocated(a) and has_keys(a, 'expect', 'grade_decimal', 'msg', 'ok') and is_tuple(a['expect'])
            and allocated(a['expect']))


@spec
def canonical_answers(answers):
    return is_tuple(answers) and allocated(answers) and forall(range(len(answers)), lambda i: answer_shape(answers[i]))


@spec
def check_self(self):
    return (has_attr(self, 'config') and is_dict(self.config) and allocated(self.config)
            and has_keys(self.config, 'answers', 'wrong_msg') and is_str(self.config['wrong_msg']))


CHECK_RESPONSE = dict(
    params=['answercopy_arg', 'student_input_arg'],
    requires=["is_dict(answercopy_arg)", "has_keys(answercopy_arg, 'expect', 'grade_decimal', 'msg', 'ok')",
              "same(answercopy_arg['expect'], entry)",
              "same(answercopy_arg['grade_decimal'], answer['grade_decimal']) and same(answercopy_arg['msg'], answer['msg']) and same(answercopy_arg['ok'], answer['ok'])",
              "not same(answercopy_arg, answer)"],
    ensures=["fresh(result)", "entry_shape(result)",
             # determinism of check_response for this grader and this submission: grade and message are functions of the alternative and the expect value
             "result['grade_decimal'] == ufn('GRADE', answer, entry)", "result['msg'] == ufn('MSG', answer, entry)"],
    exsures={"*": "True"}, modifies=[],
    note="abstract method ItemGrader.check_response: returns a fresh well-formed entry whose grade and message are functions of (alternative, expect value) for the fixed grader and submission, or raises; writes nothing the caller can reach")

contract(F + "ItemGrader.check", props=["C08", "C01", "C11"],
    requires=["check_self(self)", "is_none(answers) or canonical_answers(answers)",
              "implies(is_none(answers), canonical_answers(self.config['answers']))"],
    ghost={'A': "self.config['answers'] if is_none(answers) else answers"},
    callees={"self.check_response": CHECK_RESPONSE},
    exsures={"ConfigError": "len(A) == 0", "*": "True"},
    ensures=[
        "len(A) > 0",
        # the returned object is a fresh, well-formed entry (one of check_response's results; the membership itself is an
        # existential the solver leaves undecided -- bounded tier) ...
        "fresh(result) and entry_shape(result)",
        # ... and no alternative x expect value earns more
        "forall(range(len(A)), lambda i: forall(range(len(A[i]['expect'])), lambda j: ufn('GRADE', A[i], A[i]['expect'][j]) <= result['grade_decimal']))",
        "forall(range(len(results)), lambda m: results[m]['grade_decimal'] <= result['grade_decimal'])",
        # a blank message with a zero grade is never returned unless wrong_msg itself is blank
        # (longest-message tie-break: existential, bounded tier)
        "implies(result['grade_decimal'] == 0 and result['msg'] == '', self.config['wrong_msg'] == '')",
    ],
    modifies=[],
    loops={
        "for answer in answers": dict(
            modifies=["results"],
            invariant=[
                "is_list(results) and fresh(results) and is_tuple(answers) and same(answers, A)",
                "len(results) == prefix_count(answers, K, 'expect')",
                "forall(range(len(results)), lambda m: fresh(results[m]) and entry_shape(results[m]) and not same(results[m], results))",
                "forall(range(0, K), lambda i: forall(range(len(answers[i]['expect'])), lambda j: "
                "   results[prefix_count(answers, i, 'expect') + j]['grade_decimal'] == ufn('GRADE', answers[i], answers[i]['expect'][j])))",
            ]),
        "for entry in answer['expect']": dict(
            modifies=["results", "answercopy"],
            invariant=[
                "is_list(results) and fresh(results) and is_dict(answercopy) and fresh(answercopy) and not same(answercopy, results)",
                "has_keys(answercopy, 'expect', 'grade_decimal', 'msg', 'ok') and same(answercopy['grade_decimal'], answer['grade_decimal']) and same(answercopy['msg'], answer['msg']) and same(answercopy['ok'], answer['ok'])",
                "len(results) == pre(len(results)) + K",
                "forall(range(len(results)), lambda m: fresh(results[m]) and entry_shape(results[m]) and not same(results[m], results) and not same(results[m], answercopy))",
                "forall(range(0, pre(len(results))), lambda m: same(results[m], pre(results[m])))",
                "forall(range(0, K), lambda j: results[pre(len(results)) + j]['grade_decimal'] == ufn('GRADE', answer, answer['expect'][j]))",
            ]),
    })


# ---------------------------------------------------------------------------------------------- standardize_cfn_return (C01)
contract(F + "ItemGrader.standardize_cfn_return", props=["C01", "C16"],
    requires=["same(value, True) or same(value, False) or is_str(value) or (is_dict(value) and allocated(value) and has_keys(value, 'grade_decimal') "
              "  and is_number(value['grade_decimal']) and 0 <= value['grade_decimal'] and value['grade_decimal'] <= 1 and implies('msg' in value, is_str(value['msg'])))",
              "implies(is_str(value), str_lower(value) == 'partial')"],
    ensures=["fresh(result) and wf_short(result)",
             "implies(same(value, True), result['grade_decimal'] == 1)", "implies(same(value, False), result['grade_decimal'] == 0)",
             "implies(is_str(value), result['grade_decimal'] == 0.5)",
             "implies(is_dict(value), result['grade_decimal'] == value['grade_decimal'] and result['msg'] == (value['msg'] if 'msg' in value else ''))"],
    modifies=[])
