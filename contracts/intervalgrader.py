"""Contracts for mitxgraders/formulagrader/intervalgrader.py (C11)."""
from pyvc.api import contract, spec, lemma

F = "mitxgraders/formulagrader/intervalgrader.py::"

contract(F + "IntervalGrader.__init__", props=["C11", "C20"],
    requires=["is_none(config) or (is_dict(config) and allocated(config))", "is_dict(kwargs) and allocated(kwargs)", "not same(config, self) and not same(kwargs, self)"],
    callees={"NumericalGrader": dict(params=[], ensures=["fresh(result) and is_object(result)"], exsures={"*": "True"}, modifies=[],
                                     note="constructs the default subgrader: a fresh object"),
             "super(IntervalGrader, self).__init__": dict(params=['cfg'], ensures=["has_attr(self, 'config')"], exsures={"*": "True"}, modifies=["self"],
                                                          note="SingleListGrader/ObjectWithSchema.__init__ validate a COPY of the configuration (coerce2unicode) and write only the new object")},
    exsures={"*": "True"},
    ensures=["has_attr(self, 'config')"],
    # construction never alters the author's configuration dictionary (nor the keyword dictionary): only the new grader is written
    modifies=["self"])
