"""Contracts for the shape rules of MathArray's arithmetic operators (C14), mitxgraders/helpers/calc/math_array.py.
A MathArray is modelled as an object with the ndarray attributes shape (tuple of ints), ndim = len(shape) and size; its numerical
content and numpy's own arithmetic (ndarray.__add__, np.dot, matrix_power, item()) are uninterpreted (A8): the contracts decide WHICH of
{numpy result, student-facing error} an operator produces for every combination of operand kinds and shapes."""
from pyvc.api import contract, spec, lemma

F = "mitxgraders/helpers/calc/math_array.py::"


@spec
def wf_array(a):
    return (is_instance(a, MathArray) and allocated(a) and has_attr(a, 'shape') and has_attr(a, 'ndim') and has_attr(a, 'size')
            and is_tuple(a.shape) and allocated(a.shape) and is_int(a.ndim) and a.ndim >= 0 and a.ndim == len(a.shape) and is_int(a.size) and a.size >= 0
            and forall(range(len(a.shape)), lambda i: is_int(a.shape[i]) and a.shape[i] >= 0)
            and implies(a.ndim == 0, a.size == 1))


@spec
def operand(x):
    """what an operator can meet: a number, a MathArray, or something else (None, text, a list)"""
    return is_number(x) or is_none(x) or is_str(x) or is_list(x) or wf_array(x)


@spec
def numberlike(x):
    return is_instance(x, MathArray) and x.size == 1


contract(F + "is_number_zero", props=["C14"], requires=["operand(value)"],
    ensures=["is_bool(result)", "result == (is_number(value) and value == 0)"], modifies=[])

contract(F + "is_numberlike_array", props=["C14"], requires=["operand(obj)"],
    ensures=["is_bool(result)", "result == numberlike(obj)"], modifies=[])

ITEM = {"obj.item": dict(params=[], ensures=["is_number(result)", "same(result, ufn('ITEM', obj))"], modifies=[], pure=True,
                         note="A8: ndarray.item() of a one-element array is its (numeric) element")}

contract(F + "is_numberlike_zero_array", props=["C14"], requires=["operand(obj)"],
    callees=ITEM,
    ensures=["is_bool(result)", "result == (numberlike(obj) and ufn('ITEM', obj) == 0)"], modifies=[])

contract(F + "is_square", props=["C14"], requires=["wf_array(array)"],
    ensures=["is_bool(result)", "result == (array.ndim == 2 and array.shape[0] == array.shape[1])"], modifies=[])


def _item(x):
    return {x + ".item": dict(params=[], ensures=["is_number(result)", "same(result, ufn('ITEM', %s))" % x], modifies=[], pure=True,
                              note="A8: ndarray.item() of a one-element array is its (numeric) element")}


def _sup(local, U):
    return {local: dict(params=['x'], ensures=["same(result, ufn('%s', self, x))" % U], modifies=[], pure=True,
                        note="A8: numpy's own ndarray operator (%s), reached through super(): broadcasting semantics are numpy's; the contract decides when it is reached" % U)}


# ---- division: by a number (or one-element array): numpy's elementwise quotient; by any other array: ShapeError; by anything else: TypeError
contract(F + "MathArray.__truediv__", props=["C14"],
    requires=["wf_array(self)", "operand(other)"],
    callees=dict(_sup("super_DIV", "ND_DIV"), **_item("other")),
    ensures=["is_number(other) or numberlike(other)",
             "same(result, ufn('ND_DIV', self, other if is_number(other) else ufn('ITEM', other)))"],
    exsures={"MathArrayShapeError": "is_instance(other, MathArray) and not numberlike(other)",
             "TypeError": "not is_number(other) and not is_instance(other, MathArray)"},
    modifies=[])

# ---- something / array: only a 0-dimensional array may be a divisor
contract(F + "MathArray.__rtruediv__", props=["C14"],
    requires=["wf_array(self)", "operand(other)"],
    callees={"super(MathArray, self).__rtruediv__": dict(params=['x'], ensures=["same(result, ufn('ND_RDIV', self, x))"], modifies=[], pure=True, note="A8: numpy's reflected division")},
    ensures=["self.ndim == 0", "same(result, ufn('ND_RDIV', self, other))"],
    exsures={"MathArrayShapeError": "self.ndim > 0"},
    modifies=[])

# ---- number * array: numpy's scaling; anything else on the left: TypeError
contract(F + "MathArray.__rmul__", props=["C14"],
    requires=["wf_array(self)", "operand(other)"],
    callees={"super(MathArray, self).__rmul__": dict(params=['x'], ensures=["same(result, ufn('ND_RMUL', self, x))"], modifies=[], pure=True, note="A8: numpy's scaling")},
    ensures=["is_number(other)", "same(result, ufn('ND_RMUL', self, other))"],
    exsures={"TypeError": "not is_number(other)"},
    modifies=[])

# ---- number ** array: only a one-element array can be an exponent
contract(F + "MathArray.__rpow__", props=["C14"],
    requires=["wf_array(self)", "operand(other)"],
    callees=dict({"robust_pow": dict(params=['b', 'e'], ensures=["same(result, ufn('RPOW', b, e))"], exsures={"*": "True"}, modifies=[], pure=True,
                                     note="robust_pow(base, exponent): scalar power (C03); may raise for 0 ** negative")}, **_item("self")),
    ensures=["numberlike(self) and is_number(other)", "same(result, ufn('RPOW', other, ufn('ITEM', self)))"],
    exsures={"MathArrayShapeError": "is_number(other) and not numberlike(self)", "TypeError": "not is_number(other)", "*": "numberlike(self) and is_number(other)"},
    modifies=[])


@spec
def same_shape(a, b):
    return len(a.shape) == len(b.shape) and forall(range(len(a.shape)), lambda i: a.shape[i] == b.shape[i])


@spec
def zero_like(x):
    """the number 0 or a one-element array holding 0: the only scalars that may be added to an array"""
    return (is_number(x) and x == 0) or (numberlike(x) and ufn('ITEM', x) == 0)


# ---- addition: same shapes -> numpy's elementwise sum; a zero scalar is neutral; a one-element array behaves as its number;
# every other combination is an error (no broadcasting): a nonzero number with a proper array, or two arrays of different shapes
contract(F + "MathArray.__add__", props=["C14"],
    requires=["wf_array(self)", "operand(other)"],
    callees=dict(_sup("super_ADD", "ND_ADD"), **dict(_item("other"), **_item("self"))),
    ensures=[
        # numpy's addition is reached only with a zero scalar or an array of exactly the same shape
        "implies(is_number(other) and other == 0, same(result, ufn('ND_ADD', self, other)))",
        "implies(is_number(other) and other != 0, numberlike(self) and result == ufn('ITEM', self) + other)",
        "implies(is_instance(other, MathArray) and not zero_like(other), same_shape(self, other) or zero_like(self))",
        "implies(is_instance(other, MathArray) and not zero_like(other) and same_shape(self, other), same(result, ufn('ND_ADD', self, other)))",
        "is_number(other) or is_instance(other, MathArray)"],
    exsures={"MathArrayShapeError": "(is_number(other) and other != 0 and not numberlike(self)) or "
                                    "(is_instance(other, MathArray) and not zero_like(other) and not same_shape(self, other) and not zero_like(self))",
             "TypeError": "not is_number(other) and not is_instance(other, MathArray)",
             "*": "zero_like(self) and is_instance(other, MathArray)"},     # number + array delegates to the other operand's rules
    modifies=[])


@spec
def inner_ok(a, b):
    """numpy's rule for np.dot on vectors/matrices: the last axis of a and the first axis of a vector b / second-to-last axis of a matrix b agree"""
    return a.shape[a.ndim - 1] == b.shape[0 if b.ndim == 1 else b.ndim - 2]


DOT = {"np.dot": dict(params=['a', 'b'],
                      requires=["wf_array(a) and wf_array(b)", "1 <= a.ndim and a.ndim <= 2 and 1 <= b.ndim and b.ndim <= 2"],
                      ensures=["inner_ok(a, b)", "is_number(result) or wf_array(result)", "same(result, ufn('DOT', a, b))"],
                      exsures={"ValueError": "not inner_ok(a, b)"}, modifies=[],
                      note="A8: np.dot of vectors/matrices returns the product (a number or a new array) when the inner dimensions agree and raises ValueError otherwise")}

# ---- multiplication: by a number: scaling; vector/matrix products through np.dot when the inner dimensions agree (a one-element result
# collapses to its number); tensors are refused; mismatching inner dimensions are a ShapeError; anything else a TypeError
contract(F + "MathArray.__mul__", props=["C14"],
    requires=["wf_array(self)", "operand(other)"],
    callees=dict(_sup("super_MUL", "ND_MUL"), **dict(_item("other"), **dict(_item("self"), **dict(_item("result"), **DOT)))),
    ensures=[
        "is_number(other) or is_instance(other, MathArray)",
        "implies(is_number(other), same(result, ufn('ND_MUL', self, other)))",
        "implies(numberlike(other) and not numberlike(self), same(result, ufn('ND_MUL', self, ufn('ITEM', other))))",
        "implies(is_instance(other, MathArray) and not numberlike(other) and not numberlike(self), "
        "        self.ndim <= 2 and other.ndim <= 2 and inner_ok(self, other) and "
        "        (same(result, ufn('DOT', self, other)) or (numberlike(ufn('DOT', self, other)) and same(result, ufn('ITEM', ufn('DOT', self, other))))))"],
    exsures={"MathArrayError": "is_instance(other, MathArray) and not numberlike(other) and not numberlike(self) and (self.ndim > 2 or other.ndim > 2)",
             "MathArrayShapeError": "is_instance(other, MathArray) and not numberlike(other) and not numberlike(self) and self.ndim <= 2 and other.ndim <= 2 and not inner_ok(self, other)",
             "TypeError": "not is_number(other) and not is_instance(other, MathArray)",
             "*": "numberlike(self) and is_instance(other, MathArray)"},
    modifies=[])


@spec
def square(a):
    return a.ndim == 2 and a.shape[0] == a.shape[1]


@spec
def exponent_of(other):
    return other if is_number(other) else ufn('ITEM', other)


# ---- powers: only square matrices (and one-element arrays, which behave as numbers) can be raised to powers, only to integer-valued
# exponents; negative exponents are refused while MathArray._negative_powers is off; a singular matrix to a negative power is an error
contract(F + "MathArray.__pow__", props=["C14"],
    requires=["wf_array(self)", "operand(other)", "is_bool(NEGPOW)"],
    globals_read={"MathArray._negative_powers": "NEGPOW"},
    callees=dict({"robust_pow": dict(params=['b', 'e'], ensures=["same(result, ufn('RPOW', b, e))"], exsures={"*": "True"}, modifies=[], pure=True,
                                     note="robust_pow(base, exponent): scalar power (C03)"),
                  "exponent.is_integer": dict(params=[], ensures=["is_bool(result)", "result == is_intlike(exponent)"], modifies=[], pure=True, note="float.is_integer()"),
                  "np.linalg.matrix_power": dict(params=['m', 'e'], requires=["wf_array(m) and square(m)", "is_int(e)"],
                                                 ensures=["same(result, ufn('MPOW', m, e))"], exsures={"LinAlgError": "e < 0"}, modifies=[],
                                                 note="A8: numpy's matrix_power: repeated product, inverse for negative exponents; LinAlgError only when an inverse is needed (e < 0) and the matrix is singular"),
                  "np.linalg.matrix_rank": dict(params=['m'], ensures=["is_int(result) and result >= 0"], modifies=[], pure=True,
                                                note="A8: numpy's numerical rank (SVD); the matrix counts as singular when it is below the dimension"),
                  "other.__rpow__": dict(params=['b'], ensures=["same(result, ufn('RPOW_ARR', other, b))"], exsures={"*": "True"}, modifies=[], pure=True,
                                         note="number ** array: MathArray.__rpow__ (under contract above)"),
                  "str(error).startswith": dict(params=['p'], ensures=["result is True"], modifies=[], pure=True,
                                                note="A8: the only LinAlgError matrix_power raises is numpy's 'Singular matrix' (checked by the bounded tier on singular matrices)")},
                 **dict(_item("other"), **_item("self"))),
    ensures=[
        # a value comes back only for: one-element arrays (number semantics), or a square matrix with an integer-valued exponent that is >= 0 or allowed to be negative
        "numberlike(self) or (square(self) and (is_number(other) or numberlike(other)) and is_intlike(exponent_of(other)) and (exponent_of(other) >= 0 or NEGPOW))",
        "implies(not numberlike(self), same(result, ufn('MPOW', self, int(exponent_of(other)))))",
        "implies(numberlike(self) and is_number(other), same(result, ufn('RPOW', ufn('ITEM', self), other)))"],
    exsures={"MathArrayShapeError": "not numberlike(self) and (not square(self) or (is_instance(other, MathArray) and not numberlike(other)))",
             "MathArrayError": "not numberlike(self) and square(self) and (is_number(other) or numberlike(other)) and "
                               "(not is_intlike(exponent_of(other)) or exponent_of(other) < 0)",
             "TypeError": "not is_number(other) and not is_instance(other, MathArray)",
             "*": "numberlike(self)"},
    modifies=[])
