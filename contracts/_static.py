"""Static obligations: facts without inputs, decided on every run by scanning the real source (class table / module ASTs)."""
import ast
import os
from pyvc.api import static
from pyvc import source as SRC


def _module(rel):
    return SRC.load_module(rel)[0]


@static("exceptions: every library exception derives from MITxError (allow-list: Retry, UnsolvableMatrix)", props=["C02"],
        note="a raise of a class outside the MITxError family escapes AbstractGrader.__call__ only as the generic StudentFacingError; new exception classes must join the family")
def exc_family():
    ct = SRC.class_table()
    bad = []
    for name, ci in ct.classes.items():
        if ci.rel is None or not ci.rel.startswith('mitxgraders/'):
            continue          # (the class table also holds the vendored voluptuous classes: not library exceptions)
        if ct.is_subclass(name, 'Exception') and not ct.is_subclass(name, 'MITxError') and name not in ('Retry', 'UnsolvableMatrix'):
            bad.append('%s (%s)' % (name, ci.rel))
    return (not bad, 'exception classes outside the MITxError family: ' + ', '.join(bad) if bad else 'all %d library exception classes derive from MITxError' % len(
        [n for n, c in ct.classes.items() if c.rel and ct.is_subclass(n, 'MITxError')]))


@static("exceptions: every MITxError subclass is constructible from one string (no __init__ override)", props=["C02"],
        note="AbstractGrader.__call__ re-raises error.__class__(text): a subclass with another constructor signature would raise TypeError there")
def exc_ctor():
    ct = SRC.class_table()
    bad = [n for n, ci in ct.classes.items() if ci.rel and ct.is_subclass(n, 'MITxError') and ('__init__' in ci.methods or '__new__' in ci.methods)]
    return (not bad, 'MITxError subclasses overriding the constructor: ' + ', '.join(bad) if bad else 'no MITxError subclass overrides __init__/__new__')


@static("numpy floating-point errors are turned into Python exceptions at import of the evaluator", props=["C02", "C15"],
        note="np.seterrcall(handle_np_floating_errors) and np.seterr(divide='call', over='call', invalid='call') at module level of expressions.py")
def np_seterr():
    tree = _module('mitxgraders/helpers/calc/expressions.py')
    found_call, found_seterr = False, False
    for n in tree.body:
        if isinstance(n, ast.Expr) and isinstance(n.value, ast.Call):
            t = ast.unparse(n.value.func)
            if t == 'np.seterrcall' and ast.unparse(n.value.args[0]) == 'handle_np_floating_errors':
                found_call = True
            if t == 'np.seterr':
                kw = {k.arg: ast.literal_eval(k.value) for k in n.value.keywords}
                if kw.get('divide') == 'call' and kw.get('over') == 'call' and kw.get('invalid') == 'call':
                    found_seterr = True
    return (found_call and found_seterr, 'seterrcall: %s, seterr(divide/over/invalid = call): %s' % (found_call, found_seterr))


@static("AbstractGrader.__call__: check() runs inside try/except Exception; MITxError re-raised with <br/>, everything else replaced", props=["C02"],
        note="shape of the handler in AbstractGrader.__call__ (the full contract of __call__ is drafted but its proof times out; this scan pins the handler structure)")
def call_handler():
    fs = SRC.find_function('mitxgraders/baseclasses.py::AbstractGrader.__call__')
    tries = [n for n in ast.walk(fs.node) if isinstance(n, ast.Try)]
    if len(tries) != 1:
        return False, '%d try statements' % len(tries)
    tr = tries[0]
    body_calls = [ast.unparse(n.func) for s in tr.body for n in ast.walk(s) if isinstance(n, ast.Call)]
    if 'self.check' not in body_calls:
        return False, 'self.check is not called inside the try body'
    if len(tr.handlers) != 1 or ast.unparse(tr.handlers[0].type) != 'Exception':
        return False, 'handler is not a single `except Exception`'
    h = tr.handlers[0]
    text = ast.unparse(h)
    need = ["self.config['debug']", 'isinstance(error, MITxError)', "error.__class__(str(error).replace('\\n', '<br/>'))", 'raise StudentFacingError(formatted)']
    missing = [x for x in need if x not in text]
    # every path through the handler ends in a raise
    def all_raise(stmts):
        last = stmts[-1]
        if isinstance(last, ast.Raise):
            return True
        if isinstance(last, ast.If):
            return all_raise(last.body) and bool(last.orelse) and all_raise(last.orelse)
        return False
    ok = not missing and all_raise(h.body)
    return ok, ('missing: %r' % missing if missing else ('every handler path raises' if ok else 'a handler path falls through'))


# ---------------------------------------------------------------------------------------------- C11: process-wide write set
WRITE_WHITELIST = {
    # (file, function qualname) -> what it may write
    ('mitxgraders/baseclasses.py', 'ObjectWithSchema.register_defaults'): 'cls.default_values (registered class defaults: the documented API)',
    ('mitxgraders/baseclasses.py', 'ObjectWithSchema.clear_registered_defaults'): 'cls.default_values',
    ('mitxgraders/baseclasses.py', 'DefaultValuesMeta.__init__'): 'per-class default_values slot at class creation',
    ('mitxgraders/helpers/calc/math_array.py', 'MathArray.enable_negative_powers'): 'cls._negative_powers, restored in a finally block',
    ('mitxgraders/formulagrader/formulagrader.py', 'FormulaGrader.set_default_comparer'): 'cls.default_comparer (documented API)',
    ('mitxgraders/formulagrader/formulagrader.py', 'FormulaGrader.reset_default_comparer'): 'cls.default_comparer (documented API)',
}


def _module_level_names(tree):
    names = set()
    for n in tree.body:
        if isinstance(n, ast.Assign):
            for t in n.targets:
                for x in ast.walk(t):
                    if isinstance(x, ast.Name):
                        names.add(x.id)
        elif isinstance(n, (ast.FunctionDef, ast.ClassDef)):
            names.add(n.name)
        elif isinstance(n, (ast.Import, ast.ImportFrom)):
            for a in n.names:
                names.add((a.asname or a.name).split('.')[0])
    return names


MUTATORS = {'append', 'extend', 'update', 'add', 'clear', 'pop', 'remove', 'insert', 'setdefault', 'discard', 'popitem', 'sort', 'reverse', '__setitem__'}


def _scan_function(rel, qual, fn, modnames, classnames, out):
    """record writes inside fn whose target is process-wide state"""
    params = {a.arg for a in fn.args.args + fn.args.kwonlyargs} | ({fn.args.vararg.arg} if fn.args.vararg else set()) | ({fn.args.kwarg.arg} if fn.args.kwarg else set())
    local = set(params)
    for n in ast.walk(fn):
        if isinstance(n, ast.Assign):
            for t in n.targets:
                if isinstance(t, ast.Name):
                    local.add(t.id)
        elif isinstance(n, (ast.For, ast.comprehension)):
            for x in ast.walk(n.target):
                if isinstance(x, ast.Name):
                    local.add(x.id)
        elif isinstance(n, ast.With):
            for it in n.items:
                if it.optional_vars is not None:
                    for x in ast.walk(it.optional_vars):
                        if isinstance(x, ast.Name):
                            local.add(x.id)
    is_cm = any(isinstance(d, ast.Name) and d.id == 'classmethod' for d in fn.decorator_list)

    def base_name(e):
        while isinstance(e, (ast.Attribute, ast.Subscript)):
            e = e.value
        return e.id if isinstance(e, ast.Name) else None

    for n in ast.walk(fn):
        if isinstance(n, ast.Global):
            out.append((rel, qual, n.lineno, 'global ' + ', '.join(n.names)))
        targets = []
        if isinstance(n, ast.Assign):
            targets = n.targets
        elif isinstance(n, (ast.AugAssign, ast.AnnAssign)):
            targets = [n.target]
        elif isinstance(n, ast.Delete):
            targets = n.targets
        for t in targets:
            if isinstance(t, (ast.Attribute, ast.Subscript)):
                b = base_name(t)
                txt = ast.unparse(t)
                if b is None:
                    continue
                if (b == 'cls' and is_cm) or b in classnames or (b not in local and b in modnames) or '__class__' in txt:
                    out.append((rel, qual, n.lineno, 'write to ' + txt))
        if isinstance(n, ast.Call) and isinstance(n.func, ast.Attribute) and n.func.attr in MUTATORS:
            b = base_name(n.func.value)
            txt = ast.unparse(n.func)
            if b is not None and ((b == 'cls' and is_cm) or b in classnames or (b not in local and b in modnames and b not in ('np', 'random'))):
                out.append((rel, qual, n.lineno, 'mutating call ' + txt))
        if isinstance(n, ast.Call) and ast.unparse(n.func) in ('np.seterr', 'np.seterrcall', 'np.random.seed', 'random.seed', 'warnings.simplefilter'):
            out.append((rel, qual, n.lineno, 'call ' + ast.unparse(n.func)))


@static("process-wide state is written only by the documented switches (frame over the whole package)", props=["C11"],
        note="every write site in mitxgraders/ whose target is a module-level object, a class attribute or an interpreter-wide setting is enumerated from the ASTs and must be in the allow-list "
             "(register/clear_registered_defaults, set/reset_default_comparer, enable_negative_powers, set_seed); PARSER.cache (memoisation) is covered by the C10 contracts")
def write_set():
    root = SRC.repo_path('mitxgraders')
    sites = []
    ct = SRC.class_table()
    classnames = {n for n, c in ct.classes.items() if c.rel}
    for dirpath, _d, files in os.walk(root):
        for fn in sorted(files):
            if not fn.endswith('.py'):
                continue
            rel = os.path.relpath(os.path.join(dirpath, fn), SRC.REPO)
            if '/plugins/' in rel:
                continue
            tree = _module(rel)
            modnames = _module_level_names(tree)
            for n in tree.body:
                if isinstance(n, ast.FunctionDef):
                    _scan_function(rel, n.name, n, modnames, classnames, sites)
                elif isinstance(n, ast.ClassDef):
                    for m in n.body:
                        if isinstance(m, ast.FunctionDef):
                            _scan_function(rel, n.name + '.' + m.name, m, modnames, classnames, sites)
    allowed = dict(WRITE_WHITELIST)
    allowed[('mitxgraders/sampling.py', 'set_seed')] = 'seeding the random streams (documented API)'
    allowed[('mitxgraders/helpers/calc/expressions.py', 'MathParser.parse')] = 'self.cache (C10)'
    extra = [s for s in sites if (s[0], s[1]) not in allowed]
    return (not extra, ('unexpected process-wide write sites: ' + '; '.join('%s:%d %s in %s' % (s[0], s[2], s[3], s[1]) for s in extra[:6])) if extra
            else '%d write sites, all inside the %d allow-listed functions' % (len(sites), len(allowed)))


@static("MathArray.enable_negative_powers restores the class flag in a finally block and MatrixGrader.check_response is its only user", props=["C11", "C14"])
def neg_powers():
    fs = SRC.find_function('mitxgraders/helpers/calc/math_array.py::MathArray.enable_negative_powers')
    tries = [n for n in ast.walk(fs.node) if isinstance(n, ast.Try)]
    ok_finally = len(tries) == 1 and tries[0].finalbody and any('_negative_powers' in ast.unparse(s) for s in tries[0].finalbody) \
        and any(isinstance(s, ast.Expr) and isinstance(s.value, ast.Yield) for s in tries[0].body)
    users = []
    for dirpath, _d, files in os.walk(SRC.repo_path('mitxgraders')):
        for fn in files:
            if fn.endswith('.py'):
                rel = os.path.relpath(os.path.join(dirpath, fn), SRC.REPO)
                for n in ast.walk(_module(rel)):
                    if isinstance(n, ast.Call) and ast.unparse(n.func).endswith('enable_negative_powers'):
                        users.append(rel)
    ok_users = sorted(set(users)) == ['mitxgraders/formulagrader/matrixgrader.py']
    return (bool(ok_finally and ok_users), 'finally restores flag: %s; users: %s' % (bool(ok_finally), sorted(set(users))))


@static("configuration schemas: every option key is declared Required(...) (so voluptuous fills its default or demands it) and no schema allows extra keys", props=["C20"],
        note="scan of every Schema({...}) / .extend({...}) dictionary literal under mitxgraders/: keys that are not Required(...) calls (Optional, bare strings, Extra) "
             "would make an option silently absent from obj.config or let unknown option names through")
def schema_keys_required():
    root = os.path.join(SRC.REPO, 'mitxgraders')
    bad, n_keys, n_dicts = [], 0, 0
    for dirpath, _d, files in os.walk(root):
        for fn in sorted(files):
            if not fn.endswith('.py'):
                continue
            rel = os.path.relpath(os.path.join(dirpath, fn), SRC.REPO)
            try:
                tree = _module(rel)
            except SyntaxError:
                continue
            for node in ast.walk(tree):
                if not isinstance(node, ast.Call):
                    continue
                fname = ast.unparse(node.func)
                if not (fname == 'Schema' or fname.endswith('.extend')):
                    continue
                for kw in node.keywords:
                    if kw.arg == 'extra' and ast.unparse(kw.value) not in ('PREVENT_EXTRA', 'voluptuous.PREVENT_EXTRA'):
                        bad.append('%s:%d extra=%s' % (rel, node.lineno, ast.unparse(kw.value)))
                for a in node.args[:1]:
                    if isinstance(a, ast.Dict):
                        n_dicts += 1
                        for k in a.keys:
                            n_keys += 1
                            if ast.unparse(k) in ("Optional('entry_partial_credit')", "Optional('entry_partial_msg')"):
                                continue      # MatrixGrader's two documented switch-like options: their presence selects the entry-wise comparer
                            if not (isinstance(k, ast.Call) and ast.unparse(k.func) == 'Required'):
                                bad.append('%s:%d key %s' % (rel, getattr(k, 'lineno', node.lineno), ast.unparse(k) if k is not None else '**'))
    if n_dicts == 0:
        return False, 'no schema dictionary found (scan pattern no longer matches)'
    return (not bad, ('keys not declared Required / extra keys allowed: ' + '; '.join(bad[:12])) if bad else
            '%d option keys in %d schema dictionaries are all Required(...); no schema allows extra keys' % (n_keys, n_dicts))


_EXPECTED_ELEMENTWISE = {
    'sin': ['np.sin'], 'cos': ['np.cos'], 'tan': ['np.tan'], 'sec': ['sec'], 'csc': ['csc'], 'cot': ['cot'],
    'sqrt': ['np.lib.scimath.sqrt'], 'log10': ['np.lib.scimath.log10'], 'log2': ['np.lib.scimath.log2'], 'ln': ['np.lib.scimath.log'], 'exp': ['np.exp'],
    'arccos': ['np.lib.scimath.arccos', 'np.arccos'], 'arcsin': ['np.lib.scimath.arcsin', 'np.arcsin'], 'arctan': ['np.arctan'],
    'arcsec': ['arcsec'], 'arccsc': ['arccsc'], 'arccot': ['arccot'], 'abs': ['np.abs', 'np.absolute'], 'fact': ['factorial'], 'factorial': ['factorial'],
    'sinh': ['np.sinh'], 'cosh': ['np.cosh'], 'tanh': ['np.tanh'], 'sech': ['sech'], 'csch': ['csch'], 'coth': ['coth'],
    'arcsinh': ['np.arcsinh'], 'arccosh': ['np.arccosh', 'np.lib.scimath.arccosh'], 'arctanh': ['np.lib.scimath.arctanh', 'np.arctanh'],
    'arcsech': ['arcsech'], 'arccsch': ['arccsch'], 'arccoth': ['arccoth'], 'floor': ['np.floor'], 'ceil': ['np.ceil'],
}
_EXPECTED_TABLES = {
    'DEFAULT_VARIABLES': {'i': ['complex(0, 1)', '1j'], 'j': ['complex(0, 1)', '1j'], 'e': ['np.e', 'math.e'], 'pi': ['np.pi', 'math.pi']},
    'ELEMENTWISE_FUNCTIONS': _EXPECTED_ELEMENTWISE,
    'MULTI_SCALAR_FUNCTIONS': {'min': ["has_at_least_2_scalar_inputs('min')(min)"], 'max': ["has_at_least_2_scalar_inputs('max')(max)"]},
    'ARRAY_FUNCTIONS': {'re': ['real'], 'im': ['imag'], 'conj': ['np.conj', 'np.conjugate']},
}


@static("function and constant tables bind every documented name to the function of that name (sin -> np.sin, ln -> scimath.log, min -> min, re -> real, i -> 1j, ...)", props=["C15"],
        note="scan of the dictionary literals DEFAULT_VARIABLES, ELEMENTWISE_FUNCTIONS, MULTI_SCALAR_FUNCTIONS, ARRAY_FUNCTIONS in mathfuncs.py against a name table written from the property "
             "statement; complex continuation = the scimath variants for sqrt, ln, log10, log2; a differing or missing or extra entry leaves this obligation undecided (bounded tier decides)")
def function_tables():
    tree = _module('mitxgraders/helpers/calc/mathfuncs.py')
    found, bad = {}, []
    for n in tree.body:
        if isinstance(n, ast.Assign) and len(n.targets) == 1 and isinstance(n.targets[0], ast.Name) and n.targets[0].id in _EXPECTED_TABLES and isinstance(n.value, ast.Dict):
            found[n.targets[0].id] = {ast.literal_eval(k): ast.unparse(v) for k, v in zip(n.value.keys, n.value.values)}
    for tname, exp in _EXPECTED_TABLES.items():
        if tname not in found:
            bad.append('%s: dictionary literal not found' % tname)
            continue
        got = found[tname]
        for k in sorted(set(exp) | set(got)):
            if k not in got:
                bad.append('%s[%r] missing' % (tname, k))
            elif k not in exp:
                bad.append('%s[%r] = %s is not a documented entry' % (tname, k, got[k]))
            elif got[k] not in exp[k]:
                bad.append('%s[%r] = %s, expected %s' % (tname, k, got[k], ' or '.join(exp[k])))
    return (not bad, '; '.join(bad[:10]) if bad else 'all %d entries of %d tables bind the documented function' % (sum(len(v) for v in found.values()), len(found)))


@static("grammar: the precedence levels are chained atom <- power <- negation <- parallel <- product <- sum, '^' takes an optional sign on the exponent, and each level is tagged with the fold of that level", props=["C03"],
        note="scan of MathParser.get_grammar and MathExpression's handler table: a level that is built from the wrong lower level, a missing Optional(minus) in power, or a handler bound to another fold "
             "leaves this obligation undecided (the bounded operator-sequence sweep decides)")
def grammar_chain():
    fs = SRC.find_function('mitxgraders/helpers/calc/expressions.py::MathParser.get_grammar')
    assigns = {}
    tags = {}
    for n in ast.walk(fs.node):
        if isinstance(n, ast.Assign) and len(n.targets) == 1 and isinstance(n.targets[0], ast.Name):
            assigns[n.targets[0].id] = n.value
        if isinstance(n, ast.Call) and ast.unparse(n.func).endswith('.addParseAction') and n.args and isinstance(n.args[0], ast.Call) \
                and ast.unparse(n.args[0].func) == 'self.group_if_multiple' and n.args[0].args:
            tags[ast.unparse(n.func).split('.')[0]] = ast.literal_eval(n.args[0].args[0])
    bad = []

    def names(e):
        return {x.id for x in ast.walk(e) if isinstance(x, ast.Name)}
    chain = [('power', 'atom', 'power'), ('negation', 'power', 'negation'), ('parallel', 'negation', 'parallel'), ('product', 'parallel', 'product'), ('sumdiff', 'product', 'sum')]
    levels = {'atom', 'power', 'negation', 'parallel', 'product', 'sumdiff'}
    for var, lower, tag in chain:
        if var not in assigns:
            bad.append('%s not defined' % var)
            continue
        used = names(assigns[var]) & levels
        if used != {lower}:
            bad.append('%s is built from %s, expected %s only' % (var, sorted(used), lower))
        if tags.get(var) != tag:
            bad.append('%s is tagged %r, expected %r' % (var, tags.get(var), tag))
    if 'power' in assigns and "Optional(minus)" not in ast.unparse(assigns['power']):
        bad.append("power: no optional sign on the exponent")
    if 'negation' in assigns and not ast.unparse(assigns['negation']).startswith("Optional(minus)"):
        bad.append("negation does not start with an optional minus")
    closes = [n for n in ast.walk(fs.node) if isinstance(n, ast.BinOp) and isinstance(n.op, ast.LShift) and ast.unparse(n.left) == 'expression']
    if not closes or ast.unparse(closes[0].right) != 'sumdiff':
        bad.append('the recursion is not closed with expression << sumdiff')
    # handler table
    tree = _module('mitxgraders/helpers/calc/expressions.py')
    want = {'power': 'self.eval_power', 'negation': 'self.eval_negation', 'parallel': 'self.eval_parallel', 'product': 'self.eval_product', 'sum': 'self.eval_sum'}
    found = {}
    for n in ast.walk(tree):
        if isinstance(n, ast.Dict):
            d = {ast.literal_eval(k): ast.unparse(v) for k, v in zip(n.keys, n.values) if isinstance(k, ast.Constant)}
            if set(want) <= set(d):
                found = d
    for k, v in want.items():
        if found.get(k) != v:
            bad.append('handler of %r is %s, expected %s' % (k, found.get(k), v))
    return (not bad, '; '.join(bad) if bad else 'five levels chained in the stated order, each tagged with and dispatched to its own fold')
