"""Static obligations: facts without inputs, decided on every run by scanning the real source (class table / module ASTs)."""
import ast
import os
from pyvc.api import static
from pyvc import source as SRC


def _module(rel):
    return SRC.load_module(rel)[0]


@static("exceptions: every library exception derives from MITxError (allow-list: Retry, UnsolvableMatrix)", props=["C02"],
        note="a raise of a class outside the MITxError family escapes AbstractGrader.__call__ only as the generic StudentFacingError; new exception classes must join the family")
def exc_family():
    ct = SRC.class_table()
    bad = []
    for name, ci in ct.classes.items():
        if ci.rel is None:
            continue
        if ct.is_subclass(name, 'Exception') and not ct.is_subclass(name, 'MITxError') and name not in ('Retry', 'UnsolvableMatrix'):
            bad.append('%s (%s)' % (name, ci.rel))
    return (not bad, 'exception classes outside the MITxError family: ' + ', '.join(bad) if bad else 'all %d library exception classes derive from MITxError' % len(
        [n for n, c in ct.classes.items() if c.rel and ct.is_subclass(n, 'MITxError')]))


@static("exceptions: every MITxError subclass is constructible from one string (no __init__ override)", props=["C02"],
        note="AbstractGrader.__call__ re-raises error.__class__(text): a subclass with another constructor signature would raise TypeError there")
def exc_ctor():
    ct = SRC.class_table()
    bad = [n for n, ci in ct.classes.items() if ci.rel and ct.is_subclass(n, 'MITxError') and ('__init__' in ci.methods or '__new__' in ci.methods)]
    return (not bad, 'MITxError subclasses overriding the constructor: ' + ', '.join(bad) if bad else 'no MITxError subclass overrides __init__/__new__')


@static("numpy floating-point errors are turned into Python exceptions at import of the evaluator", props=["C02", "C15"],
        note="np.seterrcall(handle_np_floating_errors) and np.seterr(divide='call', over='call', invalid='call') at module level of expressions.py")
def np_seterr():
    tree = _module('mitxgraders/helpers/calc/expressions.py')
    found_call, found_seterr = False, False
    for n in tree.body:
        if isinstance(n, ast.Expr) and isinstance(n.value, ast.Call):
            t = ast.unparse(n.value.func)
            if t == 'np.seterrcall' and ast.unparse(n.value.args[0]) == 'handle_np_floating_errors':
                found_call = True
            if t == 'np.seterr':
                kw = {k.arg: ast.literal_eval(k.value) for k in n.value.keywords}
                if kw.get('divide') == 'call' and kw.get('over') == 'call' and kw.get('invalid') == 'call':
                    found_seterr = True
    return (found_call and found_seterr, 'seterrcall: %s, seterr(divide/over/invalid = call): %s' % (found_call, found_seterr))


@static("AbstractGrader.__call__: check() runs inside try/except Exception; MITxError re-raised with <br/>, everything else replaced", props=["C02"],
        note="shape of the handler in AbstractGrader.__call__ (the full contract of __call__ is drafted but its proof times out; this scan pins the handler structure)")
def call_handler():
    fs = SRC.find_function('mitxgraders/baseclasses.py::AbstractGrader.__call__')
    tries = [n for n in ast.walk(fs.node) if isinstance(n, ast.Try)]
    if len(tries) != 1:
        return False, '%d try statements' % len(tries)
    tr = tries[0]
    body_calls = [ast.unparse(n.func) for s in tr.body for n in ast.walk(s) if isinstance(n, ast.Call)]
    if 'self.check' not in body_calls:
        return False, 'self.check is not called inside the try body'
    if len(tr.handlers) != 1 or ast.unparse(tr.handlers[0].type) != 'Exception':
        return False, 'handler is not a single `except Exception`'
    h = tr.handlers[0]
    text = ast.unparse(h)
    need = ["self.config['debug']", 'isinstance(error, MITxError)', "error.__class__(str(error).replace('\\n', '<br/>'))", 'raise StudentFacingError(formatted)']
    missing = [x for x in need if x not in text]
    # every path through the handler ends in a raise
    def all_raise(stmts):
        last = stmts[-1]
        if isinstance(last, ast.Raise):
            return True
        if isinstance(last, ast.If):
            return all_raise(last.body) and bool(last.orelse) and all_raise(last.orelse)
        return False
    ok = not missing and all_raise(h.body)
    return ok, ('missing: %r' % missing if missing else ('every handler path raises' if ok else 'a handler path falls through'))
