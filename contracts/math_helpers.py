"""Contracts for mitxgraders/helpers/math_helpers.py (C04, C01, C09)."""
from pyvc.api import contract, spec, lemma
from contracts import _shapes, baseclasses

F = "mitxgraders/helpers/math_helpers.py::"


@spec
def comparer_results(results):
    # comparer results after standardize_cfn_return and scaling by the answer's credit: entries whose ok is True only at full grade
    return (is_list(results) and allocated(results) and len(results) >= 1
            and forall(range(len(results)), lambda i: entry_shape(results[i]) and not same(results[i], results)
                       and implies(results[i]['ok'] != True, results[i]['grade_decimal'] < 1)
                       and (same(results[i]['ok'], True) or same(results[i]['ok'], False) or same(results[i]['ok'], 'partial')))
            and forall(range(len(results)), lambda i: forall(range(len(results)), lambda j: implies(i != j, not same(results[i], results[j])))))


@spec
def passes(results, failable_evals):
    # the statement (C04): the number of failing samples does not exceed failable_evals; a single-sample grader tolerates no failure
    return count_failures(results, len(results)) <= failable_evals and not (len(results) == 1 and count_failures(results, 1) >= 1)


contract(F + "MathMixin.consolidate_results", props=["C04", "C01", "C11"],
    requires=["comparer_results(results)", "is_int(failable_evals) and failable_evals >= 0",
              "is_none(answer) or (is_dict(answer) and allocated(answer) and has_keys(answer, 'ok', 'grade_decimal', 'msg'))",
              "forall(range(len(results)), lambda i: not same(results[i], answer))"],
    ensures=[
        # enough samples agree: the (pruned copy of the) answer is returned, untouched results
        "implies(passes(results, failable_evals), fresh(result) and is_dict(result) and keys_exactly(result, 'ok', 'grade_decimal', 'msg'))",
        "implies(passes(results, failable_evals) and not is_none(answer), same(result['ok'], answer['ok']) and same(result['grade_decimal'], answer['grade_decimal']) and same(result['msg'], answer['msg']))",
        "implies(passes(results, failable_evals) and is_none(answer), same(result['ok'], True) and result['grade_decimal'] == 1 and result['msg'] == '')",
        # too many failures: a failing result is returned, with ok in line with its (possibly scaled) grade -- never full credit
        "implies(not passes(results, failable_evals), entry_shape(result) and ok_consistent(result) and not same(result['ok'], True) and result['grade_decimal'] < 1)",
    ],
    modifies=["elems(results)"],
    loops={"for result in results": dict(
        modifies=["elems(results)"],
        invariant=["is_int(num_failures) and num_failures == count_failures(results, K)",
                   "num_failures <= failable_evals and implies(len(results) == 1, num_failures == 0)",
                   "is_dict(pruned_answer) and fresh(pruned_answer) and keys_exactly(pruned_answer, 'ok', 'grade_decimal', 'msg')",
                   "implies(not is_none(old(answer)), same(pruned_answer['ok'], old(answer['ok'])) and same(pruned_answer['grade_decimal'], old(answer['grade_decimal'])) and same(pruned_answer['msg'], old(answer['msg'])))",
                   "implies(is_none(old(answer)), same(pruned_answer['ok'], True) and pruned_answer['grade_decimal'] == 1 and pruned_answer['msg'] == '')",
                   "is_list(results) and len(results) == old(len(results))",
                   "forall(range(len(results)), lambda i: same(results[i], old(results[i])) and entry_shape(results[i]) and same(results[i]['ok'], old(results[i]['ok'])) and same(results[i]['grade_decimal'], old(results[i]['grade_decimal'])))"])},
    covers=["len(results) == 3 and failable_evals == 1"])


# ---------------------------------------------------------------------------------------------- restrictions on student formulas (C09)
contract(F + "validate_required_functions_used", props=["C09"],
    requires=["is_set(used_funcs) or is_dict(used_funcs)", "is_seq(required_funcs)"],
    exsures={"InvalidInput": "exists(range(len(required_funcs)), lambda i: not (required_funcs[i] in used_funcs))"},
    ensures=["same(result, True)", "forall(range(len(required_funcs)), lambda i: required_funcs[i] in used_funcs)"],
    modifies=[],
    loops={"for func in required_funcs": dict(invariant=["forall(range(0, K), lambda i: required_funcs[i] in used_funcs)"])})


@spec
def hits(expression, forbidden):
    # a forbidden string occurs in an expression, compared ignoring spaces (literally spaces, not tabs)
    return str_replace(forbidden, ' ', '') in str_replace(expression, ' ', '')


contract(F + "validate_forbidden_strings_not_used", props=["C09"],
    requires=["is_list(expr) and forall(range(len(expr)), lambda i: is_str(expr[i]))",
              "is_seq(forbidden_strings) and forall(range(len(forbidden_strings)), lambda j: is_str(forbidden_strings[j]))", "is_str(forbidden_msg)"],
    exsures={"InvalidInput": "msg_of(exc) == forbidden_msg and exists(range(len(expr)), lambda i: exists(range(len(forbidden_strings)), lambda j: hits(expr[i], forbidden_strings[j])))"},
    ensures=["same(result, True)",
             "forall(range(len(expr)), lambda i: forall(range(len(forbidden_strings)), lambda j: not hits(expr[i], forbidden_strings[j])))"],
    modifies=[],
    loops={"for expression in expr": dict(invariant=[
               "forall(range(0, K), lambda i: forall(range(len(forbidden_strings)), lambda j: not hits(expr[i], forbidden_strings[j])))"]),
           "for forbidden in forbidden_strings": dict(invariant=[
               "is_str(stripped_expr) and stripped_expr == str_replace(expression, ' ', '')",
               "forall(range(0, K), lambda j: not hits(expression, forbidden_strings[j]))"])},
    note="list form (a single string is wrapped into a list, a dict contributes its values: those two conversions are covered by the bounded tier)")

RAW_CHECK = dict(params=['answer_arg', 'input_arg'],
                 ensures=["is_tuple(result) and fresh(result) and len(result) == 2", "is_dict(result[0]) and has_keys(result[0], 'ok', 'grade_decimal', 'msg')",
                          "implies(result[0]['grade_decimal'] > 0, same(result[0]['ok'], True) or same(result[0]['ok'], 'partial'))"],
                 exsures={"*": "True"}, modifies=[],
                 note="raw_check returns (result entry, used functions); a result with positive credit has ok True or 'partial' (consolidate_results contract, A17)")
POST_EVAL = dict(params=['expr_arg', 'used_arg'],
                 ensures=["not upred('RESTRICTED', self, expr_arg, used_arg)"],
                 exsures={"InvalidInput": "upred('RESTRICTED', self, expr_arg, used_arg)"}, modifies=[],
                 note="post_eval_validation returns iff no forbidden string is used, every required function is used and only permitted functions are used (contracts of the three validators)")

contract(F + "MathMixin.check_math_response", props=["C09"],
    requires=["is_object(self)", "is_dict(kwargs)"],
    callees={"self.raw_check": RAW_CHECK, "self.post_eval_validation": POST_EVAL},
    exsures={"*": "True"},
    # credit is never returned for an input that violates a restriction: whenever the verdict is True or 'partial' (hence whenever credit > 0)
    # the post-evaluation validation has run on this very input and its used functions, and did not object
    ensures=["implies(same(result['ok'], True) or same(result['ok'], 'partial') or result['grade_decimal'] > 0, not upred('RESTRICTED', self, student_input, used_funcs))"],
    modifies=[])
