"""Contracts for mitxgraders/formulagrader/integralgrader.py (C19)."""
from pyvc.api import contract, spec, lemma

F = "mitxgraders/formulagrader/integralgrader.py::"


@spec
def int_or_inf(x):
    # what evaluate_sum hands over: an int, an integer-valued float, or +-infinity
    return is_int(x) or (is_real(x) and int(x) == x) or is_inf(x)


@spec
def cut_lo(lower, upper, infty_val):
    # smaller limit, with -inf replaced by -cutoff
    return -infty_val if is_ninf(lower) or is_ninf(upper) else (lower if lower <= upper else upper)


@spec
def cut_hi(lower, upper, infty_val):
    # larger limit, with +inf replaced by the cutoff
    return infty_val if is_pinf(lower) or is_pinf(upper) else (upper if lower <= upper else lower)


@spec
def parity_ok(n, even_odd):
    return even_odd == 0 or (even_odd == 1 and n % 2 == 1) or (even_odd == 2 and n % 2 == 0)


@spec
def sum_step(even_odd):
    return 1 if even_odd == 0 else 2


@spec
def sum_first(lo, even_odd):
    # least integer >= lo with the requested parity
    return lo if parity_ok(lo, even_odd) else lo + 1


@spec
def sum_count(lo, hi, even_odd):
    # number of integers n with lo <= n <= hi of the requested parity
    return 0 if sum_first(lo, even_odd) > hi else ((hi - sum_first(lo, even_odd)) + 1 if even_odd == 0 else (hi - sum_first(lo, even_odd)) // 2 + 1)


SUMMAND = dict(params=['n'], requires=["is_int(n)"], ensures=["is_number(result)"], pure=True, fn='SUMMAND',
               note="A15/A9: the summand evaluator is a deterministic function of the index returning a number (vector/matrix summands are outside the value model)")

_TAGS = ["is_int(%s)", "is_real(%s)", "is_pinf(%s)", "is_ninf(%s)"]
_SPLIT = ["%s and %s and %s and even_odd == %d" % (a % 'lower', b % 'upper', c % 'infty_val', eo)
          for a in _TAGS for b in _TAGS for c in ("is_int(%s)", "is_real(%s)") for eo in (0, 1, 2)]

contract(F + "SumGrader.perform_summation", props=["C19"], split=_SPLIT,
    requires=["int_or_inf(lower)", "int_or_inf(upper)", "same(even_odd, 0) or same(even_odd, 1) or same(even_odd, 2)",
              "is_int(infty_val) or is_real(infty_val)", "int(infty_val) == infty_val", "infty_val >= 1"],
    callees={"eval_summand": SUMMAND},
    ghost={'LO': "int(cut_lo(lower, upper, infty_val))", 'HI': "int(cut_hi(lower, upper, infty_val))",
           'FIRST': "sum_first(LO, even_odd)", 'COUNT': "sum_count(LO, HI, even_odd)", 'STEP': "sum_step(even_odd)"},
    exsures={"SummationError": "(is_ninf(lower) and is_ninf(upper)) or (is_pinf(lower) and is_pinf(upper))"},
    ensures=[
        "not ((is_ninf(lower) and is_ninf(upper)) or (is_pinf(lower) and is_pinf(upper)))",
        # the summed index set {FIRST + k*STEP : 0 <= k < COUNT} (lemma SumGrader.index_set: it is the statement's set)
        "result == range_sum('SUMMAND', FIRST, COUNT, STEP)",
    ],
    modifies=[], lemmas=['sum_ext'], merge=False,
    covers=["is_ninf(lower) and upper == 3 and even_odd == 1", "lower == 5 and upper == 2 and even_odd == 2", "is_pinf(upper) and lower == 0"])

lemma("SumGrader.index_set", props=["C19"],
    vars={'lo': 'int', 'hi': 'int', 'eo': 'int', 'n': 'int'},
    assumes=["0 <= eo", "eo <= 2"],
    shows=[
        # every summed index lies between the limits and has the parity ...
        "forall(range(0, sum_count(lo, hi, eo)), lambda k: lo <= sum_first(lo, eo) + k * sum_step(eo) and sum_first(lo, eo) + k * sum_step(eo) <= hi and parity_ok(sum_first(lo, eo) + k * sum_step(eo), eo))",
        # ... and every integer between the limits with the parity is summed (exactly once: the enumeration is strictly increasing)
        "implies(lo <= n and n <= hi and parity_ok(n, eo), 0 <= (n - sum_first(lo, eo)) // sum_step(eo) and (n - sum_first(lo, eo)) // sum_step(eo) < sum_count(lo, hi, eo) "
        "        and n == sum_first(lo, eo) + ((n - sum_first(lo, eo)) // sum_step(eo)) * sum_step(eo))",
        "sum_step(eo) >= 1",
    ],
    note="{FIRST + k*STEP} equals {n : lo <= n <= hi, parity(n)}: the statement's index set")
