"""Contracts for mitxgraders/sampling.py (C12, C13)."""
from pyvc.api import contract, spec, lemma

F = "mitxgraders/sampling.py::"


@spec
def range_cfg(self):
    return (has_attr(self, 'config') and is_dict(self.config) and allocated(self.config) and has_keys(self.config, 'start', 'stop')
            and is_number(self.config['start']) and is_number(self.config['stop']))


def _init_callee(cls, integer):
    typ = "is_int(self.config['start']) and is_int(self.config['stop'])" if integer else "is_number(self.config['start']) and is_number(self.config['stop'])"
    return {"super(%s, self).__init__" % cls: dict(
        params=['config_arg'], modifies=['self'],
        ensures=["has_attr(self, 'config') and is_dict(self.config) and fresh(self.config) and has_keys(self.config, 'start', 'stop')", typ],
        exsures={"*": "True"},
        note="A10: ObjectWithSchema.__init__ with the NumberRange schema leaves a fresh validated dict with numeric start/stop in self.config, or raises")}


for _cls, _int in (("RealInterval", False), ("IntegerRange", True)):
    contract(F + _cls + ".__init__", props=["C12", "C20"],
        requires=["not same(config, self)"],
        callees=_init_callee(_cls, _int),
        exsures={"*": "True"},
        ensures=["range_cfg(self)", "self.config['start'] <= self.config['stop']", "fresh(self.config)"],
        modifies=["self"],
        note="start/stop order is irrelevant: reversed bounds are swapped")

RANDOM_SAMPLE = dict(params=[], ensures=["is_real(result)", "0 <= result", "result < 1"], modifies=[],
                     note="A8/A12: np.random.random_sample() returns a float in [0, 1)")
RANDINT = dict(params=[], requires=["is_int(low) and is_int(high)", "low < high"], ensures=["is_int(result)", "low <= result", "result < high"], modifies=[],
               note="A8/A12: np.random.randint(low, high) returns an int in [low, high)")

contract(F + "RealInterval.gen_sample", props=["C12"],
    requires=["range_cfg(self)", "self.config['start'] <= self.config['stop']"],
    callees={"np.random.random_sample": RANDOM_SAMPLE}, nonlinear='abstract',
    ensures=["is_number(result)", "self.config['start'] <= result", "result <= self.config['stop']"],
    modifies=[])

contract(F + "IntegerRange.gen_sample", props=["C12"],
    requires=["range_cfg(self)", "is_int(self.config['start']) and is_int(self.config['stop'])", "self.config['start'] <= self.config['stop']"],
    callees={"np.random.randint": RANDINT},
    ensures=["is_int(result)", "self.config['start'] <= result", "result <= self.config['stop']"],
    modifies=[])


# ---------------------------------------------------------------------------------------------- helpers of gen_symbols_samples (C13) and scopes (C11, C09)
contract(F + "is_subset", props=["C13"],
    requires=["is_seq(iterable)", "is_dict(iterable_superset)"],
    ensures=["is_bool(result)", "result == forall(range(len(iterable)), lambda i: iterable[i] in iterable_superset)"],
    modifies=[],
    loops={"for item in iterable": dict(invariant=["forall(range(0, K), lambda i: iterable[i] in iterable_superset)"])})

contract(F + "construct_constants", props=["C13", "C11"],
    requires=["is_dict(default_variables) and allocated(default_variables)", "is_dict(user_consts) and allocated(user_consts)"],
    ensures=["fresh(result) and is_dict(result)",
             # every default constant stays available; the caller's dictionaries are not written (frame)
             "forall(vals(), lambda k: implies(k in default_variables, k in result))"],
    modifies=[],
    loops={"for var in user_consts": dict(
        modifies=["constants"],
        invariant=["is_dict(constants) and fresh(constants)", "forall(vals(), lambda k: implies(k in default_variables, k in constants))"])})

contract(F + "construct_suffixes", props=["C09", "C11", "C13"], global_dicts=['METRIC_SUFFIXES'],
    requires=["is_dict(default_suffixes) and allocated(default_suffixes)", "not same(default_suffixes, METRIC_SUFFIXES)"],
    ensures=["fresh(result) and is_dict(result)",
             "forall(vals(), lambda k: implies(k in default_suffixes, k in result))",
             "implies(not metric, forall(vals(), lambda k: (k in result) == (k in default_suffixes)))",
             "implies(metric, forall(vals(), lambda k: (k in result) == (k in default_suffixes or k in METRIC_SUFFIXES)))"],
    # the library-wide default suffix table is never written: metric suffixes enabled for one grader do not leak into others
    modifies=[])
