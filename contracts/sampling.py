"""Contracts for mitxgraders/sampling.py (C12, C13)."""
from pyvc.api import contract, spec, lemma

F = "mitxgraders/sampling.py::"


@spec
def range_cfg(self):
    return (has_attr(self, 'config') and is_dict(self.config) and allocated(self.config) and has_keys(self.config, 'start', 'stop')
            and is_number(self.config['start']) and is_number(self.config['stop']))


def _init_callee(cls, integer):
    typ = "is_int(self.config['start']) and is_int(self.config['stop'])" if integer else "is_number(self.config['start']) and is_number(self.config['stop'])"
    return {"super(%s, self).__init__" % cls: dict(
        params=['config_arg'], modifies=['self'],
        ensures=["has_attr(self, 'config') and is_dict(self.config) and fresh(self.config) and has_keys(self.config, 'start', 'stop')", typ],
        exsures={"*": "True"},
        note="A10: ObjectWithSchema.__init__ with the NumberRange schema leaves a fresh validated dict with numeric start/stop in self.config, or raises")}


for _cls, _int in (("RealInterval", False), ("IntegerRange", True)):
    contract(F + _cls + ".__init__", props=["C12", "C20"],
        requires=["not same(config, self)"],
        callees=_init_callee(_cls, _int),
        exsures={"*": "True"},
        ensures=["range_cfg(self)", "self.config['start'] <= self.config['stop']", "fresh(self.config)"],
        modifies=["self"],
        note="start/stop order is irrelevant: reversed bounds are swapped")

RANDOM_SAMPLE = dict(params=[], ensures=["is_real(result)", "0 <= result", "result < 1"], modifies=[],
                     note="A8/A12: np.random.random_sample() returns a float in [0, 1)")
RANDINT = dict(params=[], requires=["is_int(low) and is_int(high)", "low < high"], ensures=["is_int(result)", "low <= result", "result < high"], modifies=[],
               note="A8/A12: np.random.randint(low, high) returns an int in [low, high)")

contract(F + "RealInterval.gen_sample", props=["C12"],
    requires=["range_cfg(self)", "self.config['start'] <= self.config['stop']"],
    callees={"np.random.random_sample": RANDOM_SAMPLE}, nonlinear='abstract',
    ensures=["is_number(result)", "self.config['start'] <= result", "result <= self.config['stop']"],
    modifies=[])

contract(F + "IntegerRange.gen_sample", props=["C12"],
    requires=["range_cfg(self)", "is_int(self.config['start']) and is_int(self.config['stop'])", "self.config['start'] <= self.config['stop']"],
    callees={"np.random.randint": RANDINT},
    ensures=["is_int(result)", "self.config['start'] <= result", "result <= self.config['stop']"],
    modifies=[])
