"""Contracts for mitxgraders/helpers/calc/mathfuncs.py (C04, C15, C16)."""
from pyvc.api import contract, spec, lemma

F = "mitxgraders/helpers/calc/mathfuncs.py::"

NORM = dict(params=['v'], ensures=["is_number(result)", "result >= 0", "implies(is_number(v), result == abs(v))"], pure=True, fn='NORM',
            note="A8: np.linalg.norm is |.| on scalars and a non-negative number on arrays")

contract(F + "percentage_as_number", props=["C04"], trusted=True, pure=True, fn='PCT',
    requires=["is_str(percent_str)"], ensures=["is_number(result)"],
    note="string-to-float parsing (float(s.strip()[:-1]) * 0.01) is outside the string model: assumed to return a number; PercentageString validation is C20")


@spec
def ext_number(v):
    return is_number(v) or is_inf(v)


contract(F + "within_tolerance", props=["C04", "C16"],
    requires=["ext_number(x)", "ext_number(y)", "is_str(tolerance) or (is_number(tolerance) and tolerance >= 0)"],
    callees={"np.linalg.norm": NORM},
    nonlinear='abstract',
    ensures=[
        "is_bool(result)",
        # an infinite value matches only the same infinity, whatever the tolerance
        "implies(is_inf(x) or is_inf(y), result == same(x, y))",
        # absolute tolerance t: |x - y| <= t
        "implies(is_number(x) and is_number(y) and is_number(tolerance), result == (abs(x - y) <= tolerance))",
        # percentage tolerance: relative to the FIRST argument (callers pass the author's value first)
        "implies(is_number(x) and is_number(y) and is_str(tolerance), result == (abs(x - y) <= abs(x) * ufn('PCT', tolerance)))",
    ],
    modifies=[], pure=True,
    covers=["is_pinf(x) and is_pinf(y)", "is_number(x) and is_str(tolerance)", "x == 10 and y == 9 and tolerance == 1"])
