"""Contracts for mitxgraders/helpers/calc/expressions.py (C10, C03, C02)."""
from pyvc.api import contract, spec, lemma

F = "mitxgraders/helpers/calc/expressions.py::"


@spec
def empty_set(x):
    return is_set(x) and len(x) == 0 and forall(vals(), lambda k: not (k in x))


@spec
def scratch_ok(self):
    # the parser's three scratch sets: allocated, pairwise distinct set objects
    return (has_attr(self, 'variables_used', 'functions_used', 'suffixes_used')
            and is_set(self.variables_used) and is_set(self.functions_used) and is_set(self.suffixes_used)
            and allocated(self.variables_used) and allocated(self.functions_used) and allocated(self.suffixes_used)
            and not same(self.variables_used, self.functions_used) and not same(self.variables_used, self.suffixes_used)
            and not same(self.functions_used, self.suffixes_used)
            and not same(self.variables_used, self) and not same(self.functions_used, self) and not same(self.suffixes_used, self))


@spec
def scratch_reset(self):
    # after a reset: three NEW empty sets (the old ones are left alone -- expressions already returned keep theirs)
    return (scratch_ok(self) and fresh(self.variables_used) and fresh(self.functions_used) and fresh(self.suffixes_used)
            and empty_set(self.variables_used) and empty_set(self.functions_used) and empty_set(self.suffixes_used))


contract(F + "MathParser.reset_storage", props=["C10"],
    requires=["is_object(self)"],
    ensures=["scratch_reset(self)", "implies(old(has_attr(self, 'cache')), has_attr(self, 'cache') and same(self.cache, old(self.cache)))"],
    # the sets are REBOUND, not cleared: nothing but the parser object itself is written
    modifies=["self"])

contract(F + "BracketValidator.validate", props=["C10", "C02"], trusted=True, pure=True,
    ensures=["same(result, formula)"], exsures={"UnbalancedBrackets": "True"},
    note="bracket scan over namedtuple records (outside the subset): returns its argument or raises UnbalancedBrackets; bounded tier")

PARSE_STRING = dict(params=['text'], modifies=["self.variables_used", "self.functions_used", "self.suffixes_used"],
                    ensures=["is_seq(result) and fresh(result) and len(result) >= 1"], exsures={"ParseException": "True", "*": "True"},
                    note="A9: pyparsing's parseString; its only side effects are the registered parse actions, which add to the three scratch sets; may raise")

contract(F + "MathParser.raw_parse", props=["C10"],
    requires=["scratch_ok(self)", "has_attr(self, 'grammar')", "is_str(expression)"],
    callees={"self.grammar.parseString": PARSE_STRING},
    # on EVERY exit -- normal or exceptional (the finally) -- the scratch storage is fresh and empty, so nothing leaks into the next parse
    exsures={"*": ["scratch_reset(self)", "implies(old(has_attr(self, 'cache')), has_attr(self, 'cache') and same(self.cache, old(self.cache)))"]},
    ensures=["scratch_reset(self)", "implies(old(has_attr(self, 'cache')), has_attr(self, 'cache') and same(self.cache, old(self.cache)))",
             # the returned expression holds the sets that were filled during this parse, by reference, and the reset did not touch them
             "fresh(result) and is_object(result)",
             "same(result.variables_used, old(self.variables_used)) and same(result.functions_used, old(self.functions_used)) and same(result.suffixes_used, old(self.suffixes_used))",
             "result.expression == expression"],
    modifies=["self", "self.variables_used", "self.functions_used", "self.suffixes_used"])

contract(F + "MathParser.parse", props=["C10", "C03"],
    requires=["scratch_ok(self)", "has_attr(self, 'grammar', 'cache')", "is_dict(self.cache) and allocated(self.cache) and not same(self.cache, self)",
              "not same(self.cache, self.variables_used) and not same(self.cache, self.functions_used) and not same(self.cache, self.suffixes_used)",
              "is_str(expression)"],
    ghost={'KEY': "str_replace(expression, ' ', '')"},
    # a string that fails to parse raises and leaves the cache as it was (failures are not cached)
    exsures={"UnableToParse": "unchanged(self.cache)", "*": "unchanged(self.cache)"},
    ensures=[
        # the cache key is the formula with spaces (only spaces) removed, and what is returned is what the cache holds for it
        "KEY in self.cache and same(result, self.cache[KEY])",
        "implies(old(KEY in self.cache), same(result, old(self.cache[KEY])) and unchanged(self.cache))",
        # every other cache entry is untouched
        "forall(vals(), lambda k: implies(k != KEY, (k in self.cache) == old(k in self.cache) and implies(k in self.cache, same(self.cache[k], old(self.cache[k])))))",
        "same(self.cache, old(self.cache))"],
    modifies=["self", "self.cache", "self.variables_used", "self.functions_used", "self.suffixes_used"])
