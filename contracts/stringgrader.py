"""Contracts for mitxgraders/stringgrader.py (C18)."""
from pyvc.api import contract, spec, lemma
from contracts import _shapes, baseclasses

F = "mitxgraders/stringgrader.py::"


@spec
def sg_config(self):
    return (has_attr(self, 'config') and is_dict(self.config) and allocated(self.config)
            and has_keys(self.config, 'accept_any', 'accept_nonempty', 'min_length', 'min_words', 'explain_minimums', 'validation_pattern',
                         'explain_validation', 'invalid_msg', 'debug')
            and is_bool(self.config['accept_any']) and is_bool(self.config['accept_nonempty']) and is_bool(self.config['debug'])
            and is_int(self.config['min_length']) and self.config['min_length'] >= 0 and is_int(self.config['min_words']) and self.config['min_words'] >= 0
            and (is_none(self.config['validation_pattern']) or is_str(self.config['validation_pattern']))
            and is_str(self.config['invalid_msg'])
            and (same(self.config['explain_minimums'], 'err') or same(self.config['explain_minimums'], 'msg') or is_none(self.config['explain_minimums']))
            and (same(self.config['explain_validation'], 'err') or same(self.config['explain_validation'], 'msg') or is_none(self.config['explain_validation'])))


contract(F + "StringGrader.clean_input", props=["C18"], trusted=True, pure=True, fn='CLEAN',
    ensures=["is_str(result)"],
    note="chains of str.replace / re.sub are outside both string solvers (spike: z3 unknown, cvc5 timeout): CLEAN(input) is an uninterpreted "
         "function here (one grader, fixed flags) and is decided by the bounded stand-in against the statement's normalisation")

contract(F + "StringGrader.construct_message", props=["C18"],
    requires=["sg_config(self)", "is_str(msg)", "same(msg_type, 'err') or same(msg_type, 'msg') or is_none(msg_type)"],
    exsures={"InvalidInput": "same(msg_type, 'err') and msg_of(exc) == msg"},
    ensures=["not same(msg_type, 'err')", "fresh(result) and wf_short(result) and result['grade_decimal'] == 0",
             "result['msg'] == (msg if (same(msg_type, 'msg') or self.config['debug']) else '')"],
    modifies=[])

FULLMATCH = dict(params=['pat', 'text'], requires=["is_str(pat)", "is_str(text)"],
                 ensures=["is_none(result) == (not upred('FULL', pat, text))"], pure=True,
                 note="A7: re.fullmatch(p, s) is None exactly when s is not in L(p); FULL is an uninterpreted predicate")
SPLITWORDS = dict(params=[], ensures=["is_list(result) and fresh(result)", "len(result) == uint('WORDS', student)", "len(result) >= 0"], modifies=[],
                  note="A6: str.split() returns the list of whitespace-separated words; only its length is used")


@spec
def refuse_per(self, result, how, text):
    # the zero-credit result of construct_message for policy `how` ('msg' or None; 'err' raises instead)
    return wf_short(result) and result['grade_decimal'] == 0 and result['msg'] == (text if (same(how, 'msg') or self.config['debug']) else '')


contract(F + "StringGrader.check_response", props=["C18", "C01"],
    requires=["sg_config(self)", "is_dict(answer) and allocated(answer) and has_keys(answer, 'expect', 'ok', 'grade_decimal', 'msg')",
              "is_number(answer['grade_decimal']) and 0 <= answer['grade_decimal'] and answer['grade_decimal'] <= 1 and is_str(answer['msg'])",
              "is_str(student_input)"],
    ghost={'ANY': "self.config['accept_any'] or self.config['accept_nonempty']",
           'PAT': "self.config['validation_pattern']",
           'EXPECT': "ufn('CLEAN', answer['expect'])", 'STUDENT': "ufn('CLEAN', student_input)",
           'MINLEN': "1 if (self.config['accept_nonempty'] and self.config['min_length'] == 0) else self.config['min_length']",
           'BADPAT': "not is_none(self.config['validation_pattern']) and not upred('FULL', self.config['validation_pattern'], ufn('CLEAN', student_input))",
           'TOOSHORT': "len(ufn('CLEAN', student_input)) < (1 if (self.config['accept_nonempty'] and self.config['min_length'] == 0) else self.config['min_length'])"
                       " or uint('WORDS', ufn('CLEAN', student_input)) < self.config['min_words']"},
    callees={"re.fullmatch": FULLMATCH, "student.split": SPLITWORDS},
    exsures={
        # a non-matching *expected* answer is a configuration error (exact mode only)
        "ConfigError": "not ANY and not is_none(PAT) and not upred('FULL', PAT, EXPECT)",
        # refusals by error: the pattern does not match the entire cleaned submission / the minimums are not met
        "InvalidInput": "(BADPAT and same(self.config['explain_validation'], 'err')) or (not BADPAT and ANY and TOOSHORT and same(self.config['explain_minimums'], 'err'))"},
    ensures=[
        "fresh(result) and is_dict(result) and keys_exactly(result, 'ok', 'grade_decimal', 'msg')",
        # validation pattern: must match the ENTIRE cleaned submission, in every mode
        "implies(BADPAT, not same(self.config['explain_validation'], 'err') and refuse_per(self, result, self.config['explain_validation'], self.config['invalid_msg']))",
        # exact mode: credit exactly when the cleaned strings are identical
        "implies(not BADPAT and not ANY and STUDENT == EXPECT, same(result['grade_decimal'], answer['grade_decimal']) and same(result['ok'], answer['ok']) and same(result['msg'], answer['msg']))",
        "implies(not BADPAT and not ANY and STUDENT != EXPECT, result['grade_decimal'] == 0 and same(result['ok'], False) and result['msg'] == '')",
        # accept-any modes: accepted exactly when the minimums are met
        "implies(not BADPAT and ANY and not TOOSHORT, same(result['grade_decimal'], answer['grade_decimal']) and same(result['ok'], answer['ok']) and same(result['msg'], answer['msg']))",
        "implies(not BADPAT and ANY and TOOSHORT, not same(self.config['explain_minimums'], 'err') and result['grade_decimal'] == 0 and same(result['ok'], False))",
    ],
    modifies=[])
