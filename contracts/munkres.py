"""Contracts for mitxgraders/helpers/munkres.py (C06) -- stage 1 of DESIGN 6/C06: the scanning and resetting helpers."""
from pyvc.api import contract, spec, lemma

F = "mitxgraders/helpers/munkres.py::"


@spec
def is_square_grid(M, n):
    # an n x n matrix as a list of n distinct row lists of length n (none of them the matrix itself)
    return (is_list(M) and allocated(M) and len(M) == n
            and forall(range(n), lambda i: is_list(M[i]) and allocated(M[i]) and len(M[i]) == n and not same(M[i], M))
            and forall(range(n), lambda i: forall(range(n), lambda j: implies(i != j, not same(M[i], M[j])))))


@spec
def marks_ok(self):
    # marked: n x n matrix over {0, 1, 2} (0 plain, 1 starred, 2 primed)
    return (has_attr(self, 'marked', 'n') and is_int(self.n) and self.n >= 0 and is_square_grid(self.marked, self.n)
            and forall(range(self.n), lambda i: forall(range(self.n), lambda j: is_int(self.marked[i][j]))))


for _name, _what, _mark in (("__find_star_in_row", "row", 1), ("__find_prime_in_row", "row", 2)):
    contract(F + "Munkres." + _name, props=["C06"],
        requires=["marks_ok(self)", "is_int(row) and 0 <= row and row < self.n"],
        ensures=["is_int(result) and -1 <= result and result < self.n",
                 # the FIRST column of the row carrying the mark, or -1 if there is none
                 "implies(result >= 0, self.marked[row][result] == %d and forall(range(0, result), lambda j: self.marked[row][j] != %d))" % (_mark, _mark),
                 "implies(result == -1, forall(range(self.n), lambda j: self.marked[row][j] != %d))" % _mark],
        modifies=[],
        loops={"for j in range(self.n)": dict(invariant=["same(col, -1)", "forall(range(0, K), lambda j: self.marked[row][j] != %d)" % _mark])})

contract(F + "Munkres.__find_star_in_col", props=["C06"],
    requires=["marks_ok(self)", "is_int(col) and 0 <= col and col < self.n"],
    ensures=["is_int(result) and -1 <= result and result < self.n",
             "implies(result >= 0, self.marked[result][col] == 1 and forall(range(0, result), lambda i: self.marked[i][col] != 1))",
             "implies(result == -1, forall(range(self.n), lambda i: self.marked[i][col] != 1))"],
    modifies=[],
    loops={"for i in range(self.n)": dict(invariant=["same(row, -1)", "forall(range(0, K), lambda i: self.marked[i][col] != 1)"])})


@spec
def covers_ok(self):
    return (has_attr(self, 'row_covered', 'col_covered', 'n') and is_int(self.n) and self.n >= 0
            and is_list(self.row_covered) and is_list(self.col_covered) and allocated(self.row_covered) and allocated(self.col_covered)
            and len(self.row_covered) == self.n and len(self.col_covered) == self.n
            and not same(self.row_covered, self.col_covered) and not same(self.row_covered, self) and not same(self.col_covered, self))


contract(F + "Munkres.__clear_covers", props=["C06"],
    requires=["covers_ok(self)"],
    ensures=["covers_ok(self)", "forall(range(self.n), lambda i: same(self.row_covered[i], False) and same(self.col_covered[i], False))",
             "same(self.row_covered, old(self.row_covered)) and same(self.col_covered, old(self.col_covered))"],
    modifies=["self.row_covered", "self.col_covered"],
    loops={"for i in range(self.n)": dict(
        modifies=["self.row_covered", "self.col_covered"],
        invariant=["covers_ok(self) and same(self.n, old(self.n)) and same(self.row_covered, old(self.row_covered)) and same(self.col_covered, old(self.col_covered))",
                   "forall(range(0, K), lambda i: same(self.row_covered[i], False) and same(self.col_covered[i], False))"])})


@spec
def erased(v):
    return 0 if v == 2 else v


contract(F + "Munkres.__erase_primes", props=["C06"],
    requires=["marks_ok(self)", "not same(self.marked, self)", "forall(range(self.n), lambda i: not same(self.marked[i], self))"],
    ensures=["marks_ok(self)",
             "forall(range(self.n), lambda i: same(self.marked[i], old(self.marked[i])))",
             # primes are erased, stars and plain cells untouched
             "forall(range(self.n), lambda i: forall(range(self.n), lambda j: self.marked[i][j] == erased(old(self.marked[i][j]))))"],
    modifies=["elems(self.marked)"],
    loops={
        "for i in range(self.n)": dict(
            modifies=["elems(self.marked)"],
            invariant=["marks_ok(self) and same(self.n, old(self.n)) and same(self.marked, old(self.marked))",
                       "forall(range(self.n), lambda a: same(self.marked[a], old(self.marked[a])))",
                       "forall(range(0, K), lambda a: forall(range(self.n), lambda b: self.marked[a][b] == erased(old(self.marked[a][b]))))",
                       "forall(range(K, self.n), lambda a: forall(range(self.n), lambda b: self.marked[a][b] == old(self.marked[a][b])))"]),
        "for j in range(self.n)": dict(
            modifies=["self.marked[i]"],
            invariant=["marks_ok(self) and same(self.n, old(self.n)) and same(self.marked, old(self.marked)) and is_int(i) and 0 <= i and i < self.n",
                       "forall(range(self.n), lambda a: same(self.marked[a], old(self.marked[a])))",
                       "forall(range(0, i), lambda a: forall(range(self.n), lambda b: self.marked[a][b] == erased(old(self.marked[a][b]))))",
                       "forall(range(i + 1, self.n), lambda a: forall(range(self.n), lambda b: self.marked[a][b] == old(self.marked[a][b])))",
                       "forall(range(0, K), lambda b: self.marked[i][b] == erased(old(self.marked[i][b])))",
                       "forall(range(K, self.n), lambda b: self.marked[i][b] == old(self.marked[i][b]))"])})


@spec
def cost_ok(self):
    # the working matrix: n x n numbers (no DISALLOWED entries: the graders never produce them), covers of length n, all separate objects
    return (has_attr(self, 'C', 'n') and is_int(self.n) and self.n >= 0 and is_square_grid(self.C, self.n) and covers_ok(self)
            and forall(range(self.n), lambda i: forall(range(self.n), lambda j: is_number(self.C[i][j])))
            and forall(range(self.n), lambda i: is_bool(self.row_covered[i]) and is_bool(self.col_covered[i]))
            and not same(self.C, self) and not same(self.C, self.row_covered) and not same(self.C, self.col_covered)
            and forall(range(self.n), lambda i: not same(self.C[i], self) and not same(self.C[i], self.row_covered) and not same(self.C[i], self.col_covered)))


contract(F + "Munkres.__find_smallest", props=["C06"], consts={'DISALLOWED': 'sentinel object'},
    requires=["cost_ok(self)"],
    ensures=["is_number(result) and result <= 9223372036854775807",
             # a lower bound of every uncovered cell
             "forall(range(self.n), lambda i: forall(range(self.n), lambda j: implies(not self.row_covered[i] and not self.col_covered[j], result <= self.C[i][j])))"],
    modifies=[],
    loops={
        "for i in range(self.n)": dict(invariant=[
            "is_number(minval) and minval <= 9223372036854775807",
            "forall(range(0, K), lambda a: forall(range(self.n), lambda b: implies(not self.row_covered[a] and not self.col_covered[b], minval <= self.C[a][b])))"]),
        "for j in range(self.n)": dict(invariant=[
            "is_number(minval) and minval <= 9223372036854775807 and is_int(i) and 0 <= i and i < self.n",
            # (ground facts about the current row and the covers: they keep the path queries of the loop body quantifier-free, so that the verdict does not depend on solver timing)
            "is_list(self.C) and is_list(self.C[i]) and allocated(self.C[i]) and len(self.C[i]) == self.n and is_list(self.row_covered) and is_list(self.col_covered) "
            "and len(self.row_covered) == self.n and len(self.col_covered) == self.n and is_bool(self.row_covered[i])",
            "forall(range(0, i), lambda a: forall(range(self.n), lambda b: implies(not self.row_covered[a] and not self.col_covered[b], minval <= self.C[a][b])))",
            "forall(range(0, K), lambda b: implies(not self.row_covered[i] and not self.col_covered[b], minval <= self.C[i][b]))"])})


@spec
def step6_cell(new, old_, rc, cc, m):
    # step 6: add the smallest uncovered value to every covered row, subtract it from every uncovered column
    return new == old_ + (m if rc else 0) - (0 if cc else m)


FIND_SMALLEST = "Munkres.__find_smallest"

contract(F + "Munkres.__step6", props=["C06"], consts={'DISALLOWED': 'sentinel object'},
    requires=["cost_ok(self)"],
    exsures={"UnsolvableMatrix": "forall(range(self.n), lambda i: forall(range(self.n), lambda j: self.row_covered[i] == (not self.col_covered[j])))"},
    ensures=["same(result, 4)", "cost_ok(self)",
             "forall(range(self.n), lambda i: same(self.C[i], old(self.C[i])) and same(self.row_covered[i], old(self.row_covered[i])) and same(self.col_covered[i], old(self.col_covered[i])))",
             # the reduced costs change by the dual update exactly: C'[i][j] = C[i][j] + m [row i covered] - m [column j uncovered], m a lower bound of the uncovered cells
             # (m is the function's local `minval`, the value __find_smallest returned)
             "forall(range(self.n), lambda i: forall(range(self.n), lambda j: step6_cell(self.C[i][j], old(self.C[i][j]), self.row_covered[i], self.col_covered[j], minval)))",
             "forall(range(self.n), lambda i: forall(range(self.n), lambda j: implies(not self.row_covered[i] and not self.col_covered[j], minval <= old(self.C[i][j]))))"],
    modifies=["elems(self.C)"],
    loops={
        "for i in range(self.n)": dict(
            modifies=["elems(self.C)"],
            invariant=["cost_ok(self) and same(self.n, old(self.n)) and same(self.C, old(self.C)) and is_int(events) and events >= 0 and is_number(minval)",
                       "forall(range(self.n), lambda a: same(self.C[a], old(self.C[a])) and same(self.row_covered[a], old(self.row_covered[a])) and same(self.col_covered[a], old(self.col_covered[a])))",
                       "forall(range(self.n), lambda a: forall(range(self.n), lambda b: implies(not self.row_covered[a] and not self.col_covered[b], minval <= old(self.C[a][b]))))",
                       "forall(range(0, K), lambda a: forall(range(self.n), lambda b: step6_cell(self.C[a][b], old(self.C[a][b]), self.row_covered[a], self.col_covered[b], minval)))",
                       "forall(range(K, self.n), lambda a: forall(range(self.n), lambda b: self.C[a][b] == old(self.C[a][b])))",
                       "implies(events == 0, forall(range(0, K), lambda a: forall(range(self.n), lambda b: self.row_covered[a] == (not self.col_covered[b]))))"]),
        "for j in range(self.n)": dict(
            modifies=["self.C[i]"],
            invariant=["cost_ok(self) and same(self.n, old(self.n)) and same(self.C, old(self.C)) and is_int(events) and events >= 0 and is_number(minval) and is_int(i) and 0 <= i and i < self.n",
                       "forall(range(self.n), lambda a: same(self.C[a], old(self.C[a])) and same(self.row_covered[a], old(self.row_covered[a])) and same(self.col_covered[a], old(self.col_covered[a])))",
                       "forall(range(self.n), lambda a: forall(range(self.n), lambda b: implies(not self.row_covered[a] and not self.col_covered[b], minval <= old(self.C[a][b]))))",
                       "forall(range(0, i), lambda a: forall(range(self.n), lambda b: step6_cell(self.C[a][b], old(self.C[a][b]), self.row_covered[a], self.col_covered[b], minval)))",
                       "forall(range(i + 1, self.n), lambda a: forall(range(self.n), lambda b: self.C[a][b] == old(self.C[a][b])))",
                       "forall(range(0, K), lambda b: step6_cell(self.C[i][b], old(self.C[i][b]), self.row_covered[i], self.col_covered[b], minval))",
                       "forall(range(K, self.n), lambda b: self.C[i][b] == old(self.C[i][b]))",
                       "implies(events == 0, forall(range(0, i), lambda a: forall(range(self.n), lambda b: self.row_covered[a] == (not self.col_covered[b]))) "
                       "   and forall(range(0, K), lambda b: self.row_covered[i] == (not self.col_covered[b])))"])})
