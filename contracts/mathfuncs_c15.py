"""Contracts for the function definitions in mitxgraders/helpers/calc/mathfuncs.py (C15): each derived function against its textbook
definition in terms of the elementary functions (uninterpreted real functions COS, SIN, ... standing for numpy's), on real arguments.
The extraction drops the @SpecifyDomain decorators (argument count/shape validation: bounded tier)."""
import numpy as _np
from pyvc.api import contract, spec, lemma
from pyvc import specrt

F = "mitxgraders/helpers/calc/mathfuncs.py::"


def _el(npname, U):
    """call-site contract of an elementary numpy function on a real number: a real number, a fixed function of its argument (A8)"""
    specrt.bind_ufn(U, getattr(_np, npname))
    return {"np." + npname: dict(params=['x'], ensures=["is_real(result)", "same(result, ufn('%s', x))" % U], modifies=[], pure=True,
                                 note="A8: np.%s on a real number is a real-valued function %s of its argument (complex arguments are outside the value model)" % (npname, U))}


# ---- reciprocals: sec = 1/cos, csc = 1/sin, cot = 1/tan, sech = 1/cosh, csch = 1/sinh, coth = 1/tanh; poles give an error, never a value
for name, npname, U in [('sec', 'cos', 'COS'), ('csc', 'sin', 'SIN'), ('cot', 'tan', 'TAN'), ('sech', 'cosh', 'COSH'), ('csch', 'sinh', 'SINH'), ('coth', 'tanh', 'TANH')]:
    contract(F + name, props=["C15"],
        requires=["is_real(arg) or is_int(arg)"],
        callees=_el(npname, U),
        ensures=["is_real(result)", "not (ufn('%s', arg) == 0)" % U, "result == 1 / ufn('%s', arg)" % U],
        exsures={"ZeroDivisionError": "ufn('%s', arg) == 0" % U},      # with numpy floats: the divide error routed to an exception by np.seterr (static obligation)
        modifies=[])

# ---- inverses of the reciprocals (A&S 4.4.6-8, 4.6.6-8): arcsec z = arccos(1/z), arccsc z = arcsin(1/z), arcsech z = arccosh(1/z), ...
for name, npname, U in [('arcsec', 'arccos', 'ARCCOS'), ('arccsc', 'arcsin', 'ARCSIN'), ('arcsech', 'arccosh', 'ARCCOSH'), ('arccsch', 'arcsinh', 'ARCSINH'),
                        ('arccoth', 'arctanh', 'ARCTANH')]:
    contract(F + name, props=["C15"],
        requires=["is_real(val) or is_int(val)"],
        callees=_el(npname, U),
        ensures=["is_real(result)", "not (val == 0)", "result == ufn('%s', 1 / val)" % U],
        exsures={"ZeroDivisionError": "val == 0"},
        modifies=[])

# ---- arccot: the odd branch with arccot(0) = pi/2: pi/2 - arctan(x) for x >= 0, -pi/2 - arctan(x) for x < 0
_arccot_callees = _el('arctan', 'ARCTAN')
_arccot_callees["np.real"] = dict(params=['x'], ensures=["same(result, x)"], modifies=[], pure=True, note="A8: np.real of a real number is the number")
contract(F + "arccot", props=["C15"],
    requires=["is_real(val) or is_int(val)"],
    callees=_arccot_callees,
    ensures=["is_real(result)", "result == (np.pi / 2 - ufn('ARCTAN', val) if val >= 0 else -np.pi / 2 - ufn('ARCTAN', val))"],
    modifies=[])

# ---- arctan2(x, y): the documented argument order is (x, y): the angle of the point (x, y), i.e. numpy's arctan2(y, x); (0, 0) is an error
specrt.bind_ufn('ATAN2_Y_X', _np.arctan2)
contract(F + "arctan2", props=["C15"],
    requires=["is_real(x) or is_int(x)", "is_real(y) or is_int(y)"],
    callees={"np.arctan2": dict(params=['first', 'second'], ensures=["is_real(result)", "same(result, ufn('ATAN2_Y_X', first, second))"], modifies=[], pure=True,
                                note="A8: numpy's arctan2(first, second) = angle of the point with ordinate `first` and abscissa `second`")},
    ensures=["not (x == 0 and y == 0)", "same(result, ufn('ATAN2_Y_X', y, x))"],
    exsures={"FunctionEvalError": "x == 0 and y == 0"},
    modifies=[])

# ---- kronecker
contract(F + "kronecker", props=["C15"],
    requires=["is_real(x) or is_int(x)", "is_real(y) or is_int(y)"],
    ensures=["result == (1 if x == y else 0)", "is_int(result)"],
    modifies=[])

# ---- cross product by components
contract(F + "cross", props=["C15"],
    requires=["is_seq(a) and len(a) == 3 and is_seq(b) and len(b) == 3",
              "forall(range(3), lambda i: (is_real(a[i]) or is_int(a[i])) and (is_real(b[i]) or is_int(b[i])))"],
    callees={"MathArray": dict(params=['items'], ensures=["same(result, items)"], modifies=[], note="MathArray(list): the array with these entries (numpy, A8)")},
    ensures=["is_list(result) and len(result) == 3",
             "result[0] == a[1] * b[2] - a[2] * b[1]", "result[1] == a[2] * b[0] - a[0] * b[2]", "result[2] == a[0] * b[1] - a[1] * b[0]"],
    modifies=[])
