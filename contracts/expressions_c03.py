"""Contracts for the evaluation folds of MathExpression (C03), mitxgraders/helpers/calc/expressions.py: what each operator level computes
from the operands the grammar hands it, on real operands (arrays and complex numbers are outside the value model: bounded tier)."""
from pyvc.api import contract, spec, lemma

F = "mitxgraders/helpers/calc/expressions.py::"

# ---- number literals: float(text), times the multiplier of the suffix when there is one (and exactly that multiplier, once)
contract(F + "MathExpression.eval_number", props=["C03"],
    requires=["is_list(parse_result) and (len(parse_result) == 1 or len(parse_result) == 2)", "is_str(parse_result[0])",
              "implies(len(parse_result) == 2, is_str(parse_result[1]))",
              "is_dict(suffixes)", "forall(keys(suffixes), lambda k: is_real(suffixes[k]) or is_int(suffixes[k]))"],
    callees={"float": dict(params=['x'], ensures=["is_real(result)", "same(result, ufn('STRFLOAT', x))"], exsures={"ValueError": "True"}, modifies=[], pure=True,
                           note="A6: float(text) is a real number determined by the text (decimal / scientific notation: the grammar only passes such texts; bounded tier checks the values)")},
    ensures=["implies(len(parse_result) == 1, result == ufn('STRFLOAT', parse_result[0]))",
             "implies(len(parse_result) == 2, parse_result[1] in suffixes and result == ufn('STRFLOAT', parse_result[0]) * suffixes[parse_result[1]])"],
    exsures={"ValueError": "True", "KeyError": "len(parse_result) == 2 and parse_result[1] not in suffixes"},
    modifies=[])

# ---- names: exactly the value bound to exactly that name (case-sensitive: dictionary lookup), ints widened to floats, the table untouched
contract(F + "MathExpression.eval_variable", props=["C03"],
    requires=["is_list(parse_result) and len(parse_result) >= 1 and is_str(parse_result[0])", "is_dict(variables)",
              "forall(keys(variables), lambda k: is_number(variables[k]))"],
    callees={"copy.copy": dict(params=['x'], ensures=["same(result, x)"], modifies=[], pure=True, note="copy.copy of a number is the number (arrays: A8)")},
    ensures=["parse_result[0] in variables", "result == variables[parse_result[0]]", "is_real(result) or is_bool(result)"],
    exsures={"KeyError": "parse_result[0] not in variables"},
    modifies=[])

# ---- unary minus: an odd number of signs negates, an even number does not
contract(F + "MathExpression.eval_negation", props=["C03"],
    requires=["is_list(parse_result) and len(parse_result) >= 1 and len(parse_result) <= 4", "is_real(parse_result[len(parse_result) - 1]) or is_int(parse_result[len(parse_result) - 1])"],
    ensures=["result == (parse_result[len(parse_result) - 1] if (len(parse_result) - 1) % 2 == 0 else -parse_result[len(parse_result) - 1])"],
    modifies=[], split=["len(parse_result) == 1", "len(parse_result) == 2", "len(parse_result) == 3", "len(parse_result) == 4"],
    note="(-1)**k is evaluated for the sign counts 0..3 (the grammar allows one optional sign per negation level, so at most 1 occurs)")

# ---- the parallel operator: 0 if an operand is 0, else the reciprocal of the sum of the operands' reciprocals
contract(F + "MathExpression.eval_parallel", props=["C03"],
    requires=["is_list(parse_result) and len(parse_result) >= 2", "forall(range(len(parse_result)), lambda i: is_real(parse_result[i]) or is_int(parse_result[i]))"],
    ensures=["implies(exists(range(len(parse_result)), lambda i: parse_result[i] == 0), result == 0)",
             "implies(not exists(range(len(parse_result)), lambda i: parse_result[i] == 0), result == 1 / sum_over(len(parse_result), lambda i: 1 / parse_result[i]))"],
    exsures={"ZeroDivisionError": "not exists(range(len(parse_result)), lambda i: parse_result[i] == 0)"},    # the reciprocals cancel (1 || -1): an error, not a value
    modifies=[], nonlinear='abstract', lemmas=['sum_ext'])

# ---- '^': right-associative tower with an optional sign on each exponent.
# TOWER(p, k) is the value of the tail p[k:], DEFINED from the statement by the recurrence
#     TOWER(p, last) = p[last];   TOWER(p, k) = -TOWER(p, k+1) if p[k] is the sign '-'   else   p[k] ^ TOWER(p, k+1)
# (the definitional equations are stated in `requires`: a recursive definition of an otherwise unconstrained function symbol, always satisfiable --
#  the vacuity guard checks it).  a ^ b itself is robust_pow (RPOW).
from pyvc import specrt as _rt


def _tower(p, k):
    from pyvc import rtcheck as _rtc
    rp = _rtc.real_module('mitxgraders/helpers/calc/robust_pow.py').robust_pow
    if k == len(p) - 1:
        return p[k]
    t = _tower(p, k + 1)
    return -t if isinstance(p[k], str) else rp(p[k], t)


_rt.bind_ufn('TOWER', _tower)
_rt.bind_ufn('RPOW', lambda b, e: __import__('pyvc.rtcheck', fromlist=['x']).real_module('mitxgraders/helpers/calc/robust_pow.py').robust_pow(b, e))

contract(F + "MathExpression.eval_power", props=["C03"],
    requires=["is_list(parse_result) and len(parse_result) >= 1",
              "forall(range(len(parse_result)), lambda i: is_real(parse_result[i]) or is_int(parse_result[i]) or (is_str(parse_result[i]) and parse_result[i] == '-'))",
              "is_real(parse_result[len(parse_result) - 1]) or is_int(parse_result[len(parse_result) - 1])",
              # definition of TOWER (see above)
              "ureal('TOWER', parse_result, len(parse_result) - 1) == parse_result[len(parse_result) - 1]",
              "forall(range(len(parse_result) - 1), lambda k: ureal('TOWER', parse_result, k) == "
              "       (-ureal('TOWER', parse_result, k + 1) if is_str(parse_result[k]) else ureal('RPOW', parse_result[k], ureal('TOWER', parse_result, k + 1))))"],
    callees={"robust_pow": dict(params=['b', 'e'], ensures=["is_real(result)", "result == ureal('RPOW', b, e)"], exsures={"*": "True"}, modifies=[], pure=True,
                                note="robust_pow(base, exponent): the scalar power function (its value is checked by the bounded tier); may raise (0 ** negative)")},
    ensures=["result == ureal('TOWER', parse_result, 0)"],
    exsures={"*": "True"},
    loops={"while data": dict(
        invariant=["is_list(data) and len(data) >= 0 and len(data) <= len(parse_result) - 1",
                   "forall(range(len(data)), lambda i: same(data[i], parse_result[i]))",
                   "is_real(result) or is_int(result)",
                   "result == ureal('TOWER', parse_result, len(data))"],
        modifies=["data"], decreases="len(data)")},
    modifies=[])

# ---- '+' and '-': left-associative fold.  LSUM(p, m) is the value after consuming the prefix p[:m], DEFINED by
#     LSUM(p, off + 1) = p[off]  (off = 1 for a leading '+', else 0);   LSUM(p, m + 2) = LSUM(p, m) + p[m + 1] if p[m] == '+' else LSUM(p, m) - p[m + 1]
def _lsum(p, m):
    off = 1 if isinstance(p[0], str) else 0
    if m == off + 1:
        return p[off]
    prev = _lsum(p, m - 2)
    return prev + p[m - 1] if p[m - 2] == '+' else prev - p[m - 1]


_rt.bind_ufn('LSUM', _lsum)

@spec
def sum_off(p):
    return 1 if is_str(p[0]) else 0


contract(F + "MathExpression.eval_sum", props=["C03"],
    requires=["is_list(parse_result) and len(parse_result) >= 1",
              "implies(is_str(parse_result[0]), parse_result[0] == '+')",
              "len(parse_result) >= sum_off(parse_result) + 1 and (len(parse_result) - sum_off(parse_result)) % 2 == 1",
              # operands at even distance from sum_off(parse_result), operators '+'/'-' in between (what the grammar's sum level delivers)
              "forall(range(len(parse_result)), lambda i: implies(i >= sum_off(parse_result) and (i - sum_off(parse_result)) % 2 == 0, is_real(parse_result[i]) or is_int(parse_result[i])))",
              "forall(range(len(parse_result)), lambda i: implies(i >= sum_off(parse_result) and (i - sum_off(parse_result)) % 2 == 1, is_str(parse_result[i]) and (parse_result[i] == '+' or parse_result[i] == '-')))",
              # definition of LSUM
              "ureal('LSUM', parse_result, sum_off(parse_result) + 1) == parse_result[sum_off(parse_result)]",
              "forall(range(len(parse_result)), lambda m: implies(m >= sum_off(parse_result) + 1 and (m - sum_off(parse_result)) % 2 == 1 and m + 2 <= len(parse_result), "
              "       ureal('LSUM', parse_result, m + 2) == (ureal('LSUM', parse_result, m) + parse_result[m + 1] if parse_result[m] == '+' else ureal('LSUM', parse_result, m) - parse_result[m + 1])))"],
    ensures=["result == ureal('LSUM', parse_result, len(parse_result))"],
    loops={"while data": dict(
        invariant=["is_list(data) and len(data) >= 0 and len(data) <= len(parse_result) - sum_off(parse_result) - 1 and len(data) % 2 == 0",
                   "forall(range(len(data)), lambda i: same(data[i], parse_result[len(parse_result) - len(data) + i]))",
                   "is_real(result) or is_int(result)",
                   "implies(len(data) >= 2, is_str(data[0]) and (data[0] == '+' or data[0] == '-') and (is_real(data[1]) or is_int(data[1])))",
                   "result == ureal('LSUM', parse_result, len(parse_result) - len(data))"],
        modifies=["data"], decreases="len(data)")},
    modifies=[])


# ---- '*' and '/': left-associative fold (on numbers; the vector triple-product rule is C14, bounded tier)
#     LPROD(p, 1) = p[0];   LPROD(p, m + 2) = LPROD(p, m) * p[m + 1] if p[m] == '*' else LPROD(p, m) / p[m + 1]
def _lprod(p, m):
    if m == 1:
        return p[0]
    prev = _lprod(p, m - 2)
    return prev * p[m - 1] if p[m - 2] == '*' else prev / p[m - 1]


_rt.bind_ufn('LPROD', _lprod)

contract(F + "MathExpression.eval_product", props=["C03"],
    requires=["is_list(parse_result) and len(parse_result) >= 1 and len(parse_result) % 2 == 1",
              "forall(range(len(parse_result)), lambda i: implies(i % 2 == 0, is_real(parse_result[i]) or is_int(parse_result[i])))",
              "forall(range(len(parse_result)), lambda i: implies(i % 2 == 1, is_str(parse_result[i]) and (parse_result[i] == '*' or parse_result[i] == '/')))",
              # definition of LPROD
              "ureal('LPROD', parse_result, 1) == parse_result[0]",
              "forall(range(len(parse_result)), lambda m: implies(m % 2 == 1 and m + 2 <= len(parse_result) and parse_result[m] == '*', "
              "       ureal('LPROD', parse_result, m + 2) == ureal('LPROD', parse_result, m) * parse_result[m + 1]))",
              "forall(range(len(parse_result)), lambda m: implies(m % 2 == 1 and m + 2 <= len(parse_result) and parse_result[m] == '/' and parse_result[m + 1] != 0, "
              "       ureal('LPROD', parse_result, m + 2) == ureal('LPROD', parse_result, m) / parse_result[m + 1]))"],
    callees={"is_vector": dict(params=['x'], ensures=["result is False"], modifies=[], pure=True, note="is_vector(number) is False (vectors: C14, bounded tier)"),
             "cast_np_numeric_as_builtin": dict(params=['x'], ensures=["same(result, x)"], modifies=[], pure=True, note="identity on Python numbers (numpy scalars: A8)")},
    ensures=["result == ureal('LPROD', parse_result, len(parse_result))"],
    exsures={"ZeroDivisionError": "exists(range(len(parse_result)), lambda i: i % 2 == 0 and i >= 2 and parse_result[i - 1] == '/' and parse_result[i] == 0)"},
    loops={"while data": dict(
        invariant=["is_list(data) and len(data) >= 0 and len(data) <= len(parse_result) - 1 and len(data) % 2 == 0",
                   "forall(range(len(data)), lambda i: same(data[i], parse_result[len(parse_result) - len(data) + i]))",
                   "is_real(result) or is_int(result)", "is_bool(double_vector_mult_has_occured)",
                   # (ground facts about the next operator/operand pair: they keep the path queries inside the loop body quantifier-free)
                   "implies(len(data) >= 2, is_str(data[0]) and (data[0] == '*' or data[0] == '/') and (is_real(data[1]) or is_int(data[1])))",
                   "result == ureal('LPROD', parse_result, len(parse_result) - len(data))"],
        modifies=["data"], decreases="len(data)")},
    modifies=[])
