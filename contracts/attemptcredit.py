"""Contracts for mitxgraders/attemptcredit.py (C17)."""
from pyvc.api import contract, spec, lemma

F = "mitxgraders/attemptcredit.py::"


@spec
def unit_credit(x):
    # Any(All(float, Range(0, 1)), 0, 1): what the schema of the schedules admits for a credit value
    return (is_real(x) and 0 <= x and x <= 1) or same(x, 0) or same(x, 1)


@spec
def linear_cfg(self):
    return (has_attr(self, 'config') and is_dict(self.config) and has_keys(self.config, 'decrease_credit_after', 'decrease_credit_steps', 'minimum_credit')
            and is_int(self.config['decrease_credit_after']) and self.config['decrease_credit_after'] > 0
            and is_int(self.config['decrease_credit_steps']) and self.config['decrease_credit_steps'] > 0
            and unit_credit(self.config['minimum_credit']))


@spec
def linear_spec(a, d, n, m):
    # the statement's schedule before rounding: 1 up to attempt d, then linear down to m over n steps
    return 1 if (a <= d) else (m if a - d >= n else 1 + (m - 1) * (a - d) / n)


contract(F + "LinearCredit.__call__", props=["C17"],
    requires=["linear_cfg(self)", "is_int(attempt)", "attempt >= 1"],
    ensures=[
        "is_number(result)",
        "implies(attempt == 1, result == 1)",
        "0 <= result and result <= 1",
        # never below the configured minimum (up to the 4-decimal rounding, Appendix B)
        "result >= round4(self.config['minimum_credit'])",
        "implies(round4(self.config['minimum_credit']) == self.config['minimum_credit'], result >= self.config['minimum_credit'])",
        # exact value: round4 of the piecewise-linear schedule (round4(1) = 1)
        "result == round4(linear_spec(attempt, self.config['decrease_credit_after'], self.config['decrease_credit_steps'], self.config['minimum_credit']))",
    ],
    modifies=[], pure=True,
    covers=["attempt == 1", "attempt - self.config['decrease_credit_after'] >= self.config['decrease_credit_steps']",
            "attempt > self.config['decrease_credit_after'] and attempt - self.config['decrease_credit_after'] < self.config['decrease_credit_steps']"])


@spec
def geometric_cfg(self):
    return has_attr(self, 'config') and is_dict(self.config) and has_keys(self.config, 'factor') and unit_credit(self.config['factor'])


contract(F + "GeometricCredit.__call__", props=["C17"],
    requires=["geometric_cfg(self)", "is_int(attempt)", "attempt >= 1"],
    ensures=[
        "is_number(result)",
        "implies(attempt == 1, result == 1)",
        "0 <= result and result <= 1",
        "result == round4(int_pow(self.config['factor'], attempt - 1))",
    ],
    modifies=[], pure=True, lemmas=['pow_unit_interval'],
    covers=["attempt == 1", "attempt == 7"])

contract(F + "ReciprocalCredit.__call__", props=["C17"],
    requires=["is_int(attempt)", "attempt >= 1"],
    ensures=[
        "is_number(result)",
        "implies(attempt == 1, result == 1)",
        "0 <= result and result <= 1",
        "result == round4(1 / attempt)",
    ],
    modifies=[], pure=True, covers=["attempt == 1", "attempt == 3"])

# ---- monotonicity: consequences of the exact-value postconditions above (lemmas over the spec functions)
lemma("LinearCredit.non_increasing", props=["C17"],
    vars={'a': 'int', 'b': 'int', 'd': 'int', 'n': 'int', 'm': 'real'},
    assumes=["1 <= a", "a <= b", "d > 0", "n > 0", "0 <= m", "m <= 1"],
    shows=["round4(linear_spec(b, d, n, m)) <= round4(linear_spec(a, d, n, m))"],
    note="LinearCredit.__call__ ensures result == round4(linear_spec(...)); round4 monotone (A2)")

lemma("GeometricCredit.non_increasing", props=["C17"],
    vars={'a': 'int', 'b': 'int', 'f': 'real'},
    assumes=["1 <= a", "a <= b", "0 <= f", "f <= 1"],
    shows=["round4(int_pow(f, b - 1)) <= round4(int_pow(f, a - 1))"], uses=['PW'],
    note="GeometricCredit.__call__ ensures result == round4(factor ** (attempt-1))")

lemma("ReciprocalCredit.non_increasing", props=["C17"],
    vars={'a': 'int', 'b': 'int'},
    assumes=["1 <= a", "a <= b"],
    shows=["round4(1 / b) <= round4(1 / a)"])
