"""Contracts for mitxgraders/comparers/comparers.py (C16)."""
from pyvc.api import contract, spec, lemma

F = "mitxgraders/comparers/comparers.py::"

ISREAL = dict(params=['v'], ensures=["is_bool(result)", "implies(is_number(v), result)"], pure=True,
              note="A8: np.isreal is True on real numbers (complex numbers are outside the value model)")

contract(F + "between_comparer", props=["C16"],
    requires=["is_seq(comparer_params_eval) and len(comparer_params_eval) == 2", "is_number(comparer_params_eval[0]) and is_number(comparer_params_eval[1])",
              "is_number(student_eval)"],
    callees={"np.isreal": ISREAL},
    exsures={"InputTypeError": "False"},
    # real input: accepted exactly within the CLOSED bounds
    ensures=["is_bool(result)", "result == (comparer_params_eval[0] <= student_eval and student_eval <= comparer_params_eval[1])"],
    modifies=[])

WITHIN = dict(params=['a', 'b'], ensures=["is_bool(result)", "result == upred('WT', a, b)"], pure=True,
              note="utils.within_tolerance(a, b): the grader's tolerance test (contract of mathfuncs.within_tolerance, C04), abstract here")

contract(F + "congruence_comparer", props=["C16"],
    requires=["is_seq(comparer_params_eval) and len(comparer_params_eval) == 2", "is_number(comparer_params_eval[0]) and is_number(comparer_params_eval[1])",
              "comparer_params_eval[1] > 0", "is_number(student_eval)"],
    callees={"utils.within_tolerance": WITHIN},
    # both sides are reduced modulo the SAME modulus and the expected value goes first (tolerance relative to the target)
    ensures=["is_bool(result)",
             "result == upred('WT', comparer_params_eval[0] % comparer_params_eval[1], student_eval % comparer_params_eval[1])"],
    modifies=[])

lemma("congruence: x % m is x shifted by a multiple of m into [0, m)", props=["C16"],
    vars={'x': 'real', 'm': 'real', 'k': 'int'},
    assumes=["m == 2"],
    shows=["0 <= x % m and x % m < m", "(x + k * m) % m == x % m"],
    note="for the literal modulus 2 (symbolic moduli make the floor-product nonlinear); equal residues <=> congruent values")
