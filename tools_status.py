#!/usr/bin/env python3
"""Regenerate the two tables of DESIGN.md section 10 (status per property from evidence/*.json, seeded changes from seeded/*/meta.json)."""
import glob, json, os, re
ROOT = os.path.dirname(os.path.abspath(__file__))


def status_table():
    m = json.load(open(os.path.join(ROOT, 'MANIFEST.json')))
    out = ['| id | obligations discharged | functions / lemmas / scans under contract (proved on every run) | trusted contracts | bounded stand-in (quick tier) | wall (quick) |',
           '|---|---|---|---|---|---|']
    tot_o = tot_f = 0
    for c in m['checks']:
        pid = c['property_id']
        e = json.load(open(os.path.join(ROOT, 'evidence', pid + '.json')))
        cov = e['coverage']
        fns = cov.get('functions_under_contract', [])
        proved = [f['function'].split('::')[-1] for f in fns if f['status'] == 'PROVED']
        trusted = [f['function'].split('::')[-1] for f in fns if f['status'] == 'TRUSTED']
        short = lambda n: (n[:58] + '…') if len(n) > 60 else n
        b = cov.get('bounded', {})
        tot_o += cov['discharged']
        tot_f += len(proved)
        out.append('| %s | %d / %d | %s | %s | %s cases, %s failures%s | %ss |' % (
            pid, cov['discharged'], cov['obligations'], ', '.join('`%s`' % short(p) for p in proved) or '—',
            ', '.join('`%s`' % t for t in trusted) or '—', b.get('evaluations', 0), 0 if not cov.get('bounded_failures') else len(cov['bounded_failures']),
            ' (%d covered by the known finding)' % b['known_finding_cases'] if b.get('known_finding_cases') else '', int(e.get('wall_s', 0))))
    out.append('')
    out.append('Totals: %d obligations discharged, %d functions / lemmas / source scans proved, on tree `%s` (tier %s, seed %s). '
               'The lemma library (power, sum, product facts proved by induction on every run) is counted with each check that uses it.' % (
                   tot_o, tot_f, e['coverage'].get('repo_head'), e.get('tier'), e.get('seed')))
    return '\n'.join(out)


def seeded_table():
    rows = []
    for d in sorted(glob.glob(os.path.join(ROOT, 'seeded', 'C*-*'))):
        m = json.load(open(os.path.join(d, 'meta.json')))
        fired = m['confirmation']['obligations_and_bounded_checks_that_fired']
        proof = sorted(set(re.sub(r'^(mitxgraders|voluptuous)/\S*::', '', f.split(' :: ')[0]) + ' ' + f.split(' :: ')[1] for f in fired if 'bounded:' not in f))
        bounded = sorted(set(f.split(' :: ')[0] for f in fired if 'bounded:' in f))
        how = []
        if proof:
            how.append('**proof**: ' + '; '.join(proof)[:150])
        if bounded:
            how.append('bounded: ' + '; '.join(bounded)[:120])
        summ = (m.get('summary') or '').split('. ')[0][:160].replace('|', '\\|')
        rows.append('| %s | %s | %s | %s |' % (os.path.basename(d), 'yes' if m['kept'] else 'no', summ, (' / '.join(how) if how else 'nothing fires (see note in meta.json)').replace('|', '\\|')))
    return '\n'.join(["| change | kept | what it does (first sentence of its author's summary) | caught by `./check <property>` through |", '|---|---|---|---|'] + rows)


def main():
    p = os.path.join(ROOT, 'DESIGN.md')
    s = open(p).read()
    for name, fn in (('STATUS', status_table), ('SEEDED', seeded_table)):
        a, b = '<!-- %s-TABLE-BEGIN -->' % name, '<!-- %s-TABLE-END -->' % name
        if a in s and b in s:
            s = s[:s.index(a) + len(a)] + '\n' + fn() + '\n' + s[s.index(b):]
    open(p, 'w').write(s)
    print('tables regenerated')


if __name__ == '__main__':
    main()
